"""Smoke test run by setup.sh: armi imports from the repo under test, shim works, scratch works."""
from mcverif import env


def main():
    armi = env.setup()
    d = env.enter_scratch()
    print("selftest: armi %s from %s; scratch %s" % (armi.__version__, armi.__file__, d))
    try:
        from mcverif import observe

        observe.selftest()
    except ImportError:
        pass


if __name__ == "__main__":
    main()
