"""Pure data -> blueprint text -> real ARMI objects.

A *spec* is a JSON-able dict (see ``hex_spec``/``cart_spec``).  ``render(spec)`` gives blueprint
YAML text, ``reactor(spec)`` builds a real Reactor through Blueprints.load + reactors.factory,
``assembly(spec, name)`` builds one assembly through Blueprints.constructAssem.

Validity rules of the generator (found by probes on the unchanged tree, DESIGN 4/C12):
* every block of an assembly is closed by the same outer duct (equal hot areas);
* the spent fuel pool is declared with its own Cartesian grid;
* a top dummy block is declared with ``flags: dummy``.
"""
import copy
import io
import random

NUCFLAGS = ["U235", "U238", "ZR", "NA", "FE", "CR", "NI", "MO", "MN", "SI", "C", "V", "W", "B10", "B11", "O", "PU239", "AL"]

# ---------------------------------------------------------------------------------------------
# component / block tables


def comp(name, shape, material, Tinput, Thot, **dims):
    d = {"name": name, "shape": shape, "material": material, "Tinput": float(Tinput), "Thot": float(Thot)}
    extra = {}
    for k in ("isotopics", "flags", "latticeIDs", "mergeWith"):
        if k in dims:
            extra[k] = dims.pop(k)
    d["dims"] = dims
    d.update(extra)
    return d


def fuel_block(pitch=16.75, npins=7.0, bond=False, pins_grid=None, fuel_mat="UZr", clad_mat="HT9", ip=16.0):
    lat = {"latticeIDs": ["F"]} if pins_grid else {}
    mult = {} if pins_grid else {"mult": npins}
    cs = [comp("fuel", "Circle", fuel_mat, 25.0, 600.0, id=0.0, od=0.86, **mult, **lat)]
    if bond:
        cs.append(comp("bond", "Circle", "Sodium", 450.0, 450.0, id="fuel.od", od="clad.id", **({} if pins_grid else {"mult": "fuel.mult"}), **lat))
    cs.append(comp("clad", "Circle", clad_mat, 25.0, 470.0, id=1.0, od=1.09, **({} if pins_grid else {"mult": "fuel.mult"}), **lat))
    cs.append(comp("coolant", "DerivedShape", "Sodium", 450.0, 450.0))
    cs.append(comp("duct", "Hexagon", "HT9", 25.0, 450.0, ip=ip, op=16.6, mult=1.0))
    cs.append(comp("intercoolant", "Hexagon", "Sodium", 450.0, 450.0, ip="duct.op", op=pitch, mult=1.0))
    b = {"components": cs}
    if pins_grid:
        b["grid name"] = pins_grid
    return b


def plenum_block(pitch=16.75, npins=7.0, ip=16.0, clad_mat="HT9"):
    return {
        "components": [
            comp("gap", "Circle", "Void", 25.0, 600.0, id=0.0, od="clad.id", mult="clad.mult"),
            comp("clad", "Circle", clad_mat, 25.0, 470.0, id=1.0, od=1.09, mult=npins),
            comp("coolant", "DerivedShape", "Sodium", 450.0, 450.0),
            comp("duct", "Hexagon", "HT9", 25.0, 450.0, ip=ip, op=16.6, mult=1.0),
            comp("intercoolant", "Hexagon", "Sodium", 450.0, 450.0, ip="duct.op", op=pitch, mult=1.0),
        ]
    }


def shield_block(pitch=16.75, npins=7.0, ip=16.0, name="shield"):
    return {
        "components": [
            comp(name, "Circle", "HT9", 25.0, 600.0, id=0.0, od=0.9, mult=npins),
            comp("clad", "Circle", "HT9", 25.0, 470.0, id=1.0, od=1.09, mult=name + ".mult"),
            comp("coolant", "DerivedShape", "Sodium", 450.0, 450.0),
            comp("duct", "Hexagon", "HT9", 25.0, 450.0, ip=ip, op=16.6, mult=1.0),
            comp("intercoolant", "Hexagon", "Sodium", 450.0, 450.0, ip="duct.op", op=pitch, mult=1.0),
        ]
    }


def grid_plate_block(pitch=16.75, ip=16.0):
    return {
        "components": [
            comp("grid", "Hexagon", "HT9", 25.0, 450.0, ip=0.0, op=ip * 0.9, mult=1.0),
            comp("coolant", "DerivedShape", "Sodium", 450.0, 450.0),
            comp("duct", "Hexagon", "HT9", 25.0, 450.0, ip=ip, op=16.6, mult=1.0),
            comp("intercoolant", "Hexagon", "Sodium", 450.0, 450.0, ip="duct.op", op=pitch, mult=1.0),
        ]
    }


def dummy_block(pitch=16.75):
    return {"flags": "dummy", "components": [comp("coolant", "Hexagon", "Sodium", 25.0, 450.0, ip=0.0, op=pitch, mult=1.0)]}


def assem(specifier, blocks, heights, xs=None, matmods=None, mesh=None, flags=None):
    n = len(blocks)
    a = {"specifier": specifier, "blocks": list(blocks), "heights": [float(h) for h in heights], "mesh": mesh or [1] * n, "xs": xs or ["A"] * n}
    if matmods:
        a["matmods"] = matmods
    if flags:
        a["flags"] = flags
    return a


# ---------------------------------------------------------------------------------------------
# hex cells


def hexdist(i, j):
    return max(abs(i), abs(j), abs(i + j))


def third_core_cells(rings):
    """In-domain cells of a third-core hex grid within ``rings`` rings (independent of armi:
    polar angle of the flats-up centre in [0, 120) degrees, plus the centre)."""
    import math

    out = []
    for i in range(-rings, rings + 1):
        for j in range(-rings, rings + 1):
            if hexdist(i, j) > rings - 1:
                continue
            if (i, j) == (0, 0):
                out.append((i, j))
                continue
            x = 1.5 * i / math.sqrt(3)
            y = i / 2.0 + j
            ang = math.degrees(math.atan2(y, x)) % 360.0
            if -1e-9 <= ang < 120.0 - 1e-9:
                out.append((i, j))
    return sorted(out, key=lambda c: (hexdist(*c), c))


def full_core_cells(rings):
    return sorted([(i, j) for i in range(-rings, rings + 1) for j in range(-rings, rings + 1) if hexdist(i, j) <= rings - 1], key=lambda c: (hexdist(*c), c))


# ---------------------------------------------------------------------------------------------
# specs


def hex_spec(rings=2, third=True, cornersUp=False, pins=False, sfp=True, dummy=False, grid_plate=False, cells=None, two_designs=True, sfp_contents=None, nblocks=2, bond=False):
    """Small hex core. ``cells``: list of (i,j) to occupy (default: all in-domain cells)."""
    blocks = {"fuel": fuel_block(pins_grid="pins" if pins else None, bond=bond), "plenum": plenum_block()}
    stack = ["fuel", "plenum"] if nblocks == 2 else ["fuel", "fuel", "plenum"]
    heights = [25.0, 30.0] if nblocks == 2 else [25.0, 20.0, 30.0]
    xsA, xsB = (["A", "B"], ["C", "B"]) if nblocks == 2 else (["A", "A", "B"], ["C", "C", "B"])
    if grid_plate:
        blocks["grid plate"] = grid_plate_block()
        stack = ["grid plate"] + stack
        heights = [10.0] + heights
        xsA, xsB = ["A"] + xsA, ["A"] + xsB
    if dummy:
        blocks["dummy"] = dummy_block()
        stack = stack + ["dummy"]
        heights = heights + [10.0]
        xsA, xsB = xsA + ["B"], xsB + ["B"]
    n = len(stack)
    nf = [i for i, b in enumerate(stack) if b == "fuel"]

    def mm(u, zr):
        return {"U235_wt_frac": [u if i in nf else "" for i in range(n)], "ZR_wt_frac": [zr if i in nf else "" for i in range(n)]}

    assemblies = {"igniter fuel": assem("IC", stack, heights, xsA, mm(0.11, 0.06))}
    if two_designs:
        assemblies["outer fuel"] = assem("OC", stack, heights, xsB, mm(0.2, 0.1))
    if cells is None:
        cells = third_core_cells(rings) if third else full_core_cells(rings)
    contents = {}
    for c in cells:
        c = tuple(c)
        contents[c] = "OC" if (two_designs and hexdist(*c) == rings - 1 and rings > 1) else "IC"
    spec = {
        "blocks": blocks,
        "assemblies": assemblies,
        "grids": {"core": {"geom": "hex_corners_up" if cornersUp else "hex", "symmetry": "third periodic" if third else "full", "contents": contents}},
        "systems": {"core": {"grid name": "core", "origin": [0.0, 0.0, 0.0]}},
    }
    if pins:
        spec["grids"]["pins"] = {"geom": "hex", "symmetry": "full", "contents": {c: "F" for c in full_core_cells(2)}}
    if sfp:
        spec["systems"]["Spent Fuel Pool"] = {"type": "sfp", "grid name": "sfp", "origin": [5000.0, 5000.0, 6000.0]}
        spec["grids"]["sfp"] = {"geom": "cartesian", "symmetry": "full", "pitch": [50.0, 50.0], "contents": dict(sfp_contents or {})}
    return spec


def cart_block(width=10.0, npins=4.0):
    return {
        "components": [
            comp("fuel", "Circle", "UZr", 25.0, 600.0, id=0.0, od=0.86, mult=npins),
            comp("clad", "Circle", "HT9", 25.0, 470.0, id=1.0, od=1.09, mult="fuel.mult"),
            comp("coolant", "DerivedShape", "Sodium", 450.0, 450.0),
            comp("duct", "Square", "HT9", 25.0, 450.0, widthInner=width - 0.5, widthOuter=width, mult=1.0),
        ]
    }


def cart_spec(n=2, quarter=False, through_center=True, sfp=True):
    blocks = {"fuel": cart_block()}
    assemblies = {
        "igniter fuel": assem("IC", ["fuel", "fuel"], [25.0, 30.0], ["A", "B"], {"U235_wt_frac": [0.11, 0.12], "ZR_wt_frac": [0.06, 0.06]}),
        "outer fuel": assem("OC", ["fuel", "fuel"], [25.0, 30.0], ["C", "B"], {"U235_wt_frac": [0.2, 0.2], "ZR_wt_frac": [0.1, 0.1]}),
    }
    if quarter:
        sym = "quarter reflective through center assembly" if through_center else "quarter reflective"
        rng = range(0, n)
    else:
        sym = "full"
        rng = range(-(n - 1), n) if through_center else range(-n, n)
    contents = {(i, j): ("OC" if max(abs(i), abs(j)) == max(abs(x) for x in rng) else "IC") for i in rng for j in rng}
    spec = {
        "blocks": blocks,
        "assemblies": assemblies,
        "grids": {"core": {"geom": "cartesian", "symmetry": sym, "pitch": [10.0, 10.0], "contents": contents}},
        "systems": {"core": {"grid name": "core", "origin": [0.0, 0.0, 0.0]}},
    }
    if sfp:
        spec["systems"]["Spent Fuel Pool"] = {"type": "sfp", "grid name": "sfp", "origin": [5000.0, 5000.0, 6000.0]}
        spec["grids"]["sfp"] = {"geom": "cartesian", "symmetry": "full", "pitch": [50.0, 50.0], "contents": {}}
    return spec


# ---------------------------------------------------------------------------------------------
# rendering


def _v(x):
    if isinstance(x, bool):
        return "true" if x else "false"
    if isinstance(x, float):
        return repr(x)
    if isinstance(x, (list, tuple)):
        return "[" + ", ".join(_v(y) for y in x) + "]"
    if x == "":
        return "''"
    return str(x)


def render(spec):
    L = []
    L.append("nuclide flags:")
    for n in spec.get("nuclide flags", NUCFLAGS):
        L.append("    %s: {burn: false, xs: true}" % n)
    if spec.get("custom isotopics"):
        L.append("custom isotopics:")
        for name, iso in spec["custom isotopics"].items():
            L.append("    %s:" % name)
            for k, v in iso.items():
                L.append("        %s: %s" % (k, _v(v)))
    L.append("blocks:")
    for bname, b in spec["blocks"].items():
        L.append("    %s: &block_%s" % (bname, bname.replace(" ", "_")))
        if b.get("flags"):
            L.append("        flags: %s" % b["flags"])
        if b.get("grid name"):
            L.append("        grid name: %s" % b["grid name"])
        for c in b["components"]:
            L.append("        %s:" % c["name"])
            if c.get("flags"):
                L.append("            flags: %s" % c["flags"])
            L.append("            shape: %s" % c["shape"])
            L.append("            material: %s" % c["material"])
            if c.get("isotopics"):
                L.append("            isotopics: %s" % c["isotopics"])
            L.append("            Tinput: %s" % _v(c["Tinput"]))
            L.append("            Thot: %s" % _v(c["Thot"]))
            for k, v in c["dims"].items():
                L.append("            %s: %s" % (k, _v(v)))
            if c.get("mergeWith"):
                L.append("            mergeWith: %s" % c["mergeWith"])
            if c.get("latticeIDs"):
                L.append("            latticeIDs: %s" % _v(c["latticeIDs"]))
    L.append("assemblies:")
    for aname, a in spec["assemblies"].items():
        L.append("    %s:" % aname)
        L.append("        specifier: %s" % a["specifier"])
        if a.get("flags"):
            L.append("        flags: %s" % a["flags"])
        L.append("        blocks: [%s]" % ", ".join("*block_" + b.replace(" ", "_") for b in a["blocks"]))
        L.append("        height: %s" % _v(a["heights"]))
        L.append("        axial mesh points: %s" % _v(a["mesh"]))
        L.append("        xs types: %s" % _v(a["xs"]))
        if a.get("matmods"):
            L.append("        material modifications:")
            for k, v in a["matmods"].items():
                if k == "by component":
                    L.append("            by component:")
                    for cn, mods in v.items():
                        L.append("                %s:" % cn)
                        for kk, vv in mods.items():
                            L.append("                    %s: %s" % (kk, _v(vv)))
                else:
                    L.append("            %s: %s" % (k, _v(v)))
    L.append("systems:")
    for sname, s in spec["systems"].items():
        L.append("    %s:" % sname)
        if s.get("type"):
            L.append("        type: %s" % s["type"])
        L.append("        grid name: %s" % s["grid name"])
        o = s.get("origin", [0.0, 0.0, 0.0])
        L.append("        origin: {x: %s, y: %s, z: %s}" % (_v(o[0]), _v(o[1]), _v(o[2])))
    L.append("grids:")
    for gname, g in spec["grids"].items():
        L.append("    %s:" % gname)
        L.append("        geom: %s" % g["geom"])
        L.append("        symmetry: %s" % g["symmetry"])
        if g.get("pitch"):
            L.append("        lattice pitch: {x: %s, y: %s}" % (_v(g["pitch"][0]), _v(g["pitch"][1])))
        if g.get("map") is not None:
            L.append("        lattice map: |")
            for line in g["map"].splitlines():
                L.append("            " + line)
        else:
            items = sorted(g.get("contents", {}).items())
            if items:
                L.append("        grid contents:")
                for (i, j), v in items:
                    L.append("            ? [%d, %d]\n            : %s" % (i, j, v))
            else:
                L.append("        grid contents: {}")
    return "\n".join(L) + "\n"


def normalize(spec):
    """JSON round trip turns tuple keys into strings; accept 'i,j' keys as well."""
    spec = copy.deepcopy(spec)
    for g in spec.get("grids", {}).values():
        c = g.get("contents")
        if c:
            g["contents"] = {(tuple(int(x) for x in k.split(",")) if isinstance(k, str) else tuple(k)): v for k, v in c.items()}
    return spec


def jsonable(spec):
    spec = copy.deepcopy(spec)
    for g in spec.get("grids", {}).values():
        c = g.get("contents")
        if c:
            g["contents"] = {("%d,%d" % tuple(k) if not isinstance(k, str) else k): v for k, v in c.items()}
    return spec


# ---------------------------------------------------------------------------------------------
# construction

_CS_CACHE = {}


def settings(**over):
    from armi import settings as S

    key = tuple(sorted((k, repr(v)) for k, v in over.items()))
    if key not in _CS_CACHE:
        base = {"inputHeightsConsideredHot": True, "power": 1.0e6, "nCycles": 1, "burnSteps": 1, "db": False, "verbosity": "error", "branchVerbosity": "error"}
        base.update(over)
        _CS_CACHE[key] = S.Settings().modified(newSettings=base)
    return _CS_CACHE[key]


def blueprints(spec):
    from armi.reactor.blueprints import Blueprints

    return Blueprints.load(io.StringIO(render(normalize(spec))))


def reactor(spec, cs=None, seed=0):
    """Build a real reactor. Deterministic: ``random`` is seeded (provisional assembly names)."""
    from armi.reactor import reactors

    random.seed(seed)
    cs = cs or settings()
    bp = blueprints(spec)
    r = reactors.factory(cs, bp)
    return r


def assembly(spec, name, cs=None, seed=0):
    random.seed(seed)
    cs = cs or settings()
    bp = blueprints(spec)
    a = bp.constructAssem(cs, name=name)
    return a, bp
