"""Runner: parallel evaluation, violation bookkeeping, evidence, replay, known findings.

A check module (mcverif/checks/cNN.py) exposes

    PROPERTY = "C07"; LEVEL = "exploration" | "model_checking" | "fault_enumeration"
    def run(ctx) -> None        # explores, records into ctx
    def evaluate(case) -> list  # re-evaluates ONE case (pure JSON data) -> list of Violation dicts

Every violation is a dict {key, msg, case}:  ``key`` is the *class fingerprint* used to match
known findings, ``case`` is pure JSON sufficient for ``evaluate`` to reproduce it.
"""
import hashlib
import importlib
import json
import multiprocessing
import os
import random
import subprocess
import sys
import time
import traceback

from mcverif import env

MAX_KEYS_CONFIRMED = 12


def jhash(x):
    return hashlib.sha1(json.dumps(x, sort_keys=True, default=repr).encode()).hexdigest()[:16]


def viol(key, msg, case):
    return {"key": key, "msg": msg, "case": case}


class Ctx:
    """Collects coverage and violations for one run of one check."""

    def __init__(self, prop, tier, seed, level):
        self.prop, self.tier, self.seed, self.level = prop, tier, seed, level
        self.violations = []  # dicts
        self.coverage = {}
        self.assumptions = []
        self.samples = []
        self.counters = {}
        self.t0 = time.time()
        self.rng = random.Random(seed)
        self.notes = []

    @property
    def quick(self):
        return self.tier == "quick"

    def count(self, name, n=1):
        self.counters[name] = self.counters.get(name, 0) + n

    def add_violations(self, vs):
        for v in vs or ():
            self.violations.append(v)

    def sample(self, case, every=None):
        if len(self.samples) < 5:
            self.samples.append(case)

    def log(self, *a):
        print("[%s %6.1fs]" % (self.prop, time.time() - self.t0), *a, flush=True)

    def order(self, items):
        """Seed-dependent permutation of exploration order (never selects *which* cases run)."""
        items = list(items)
        if self.seed:
            random.Random(self.seed).shuffle(items)
        return items


# ---------------------------------------------------------------------------------------------
# parallel map with long-lived forked workers

_WORKER_FUNC = None


def _worker_init(modname):
    env.setup()
    env.enter_scratch()
    importlib.import_module(modname)


def _call(args):
    modname, fname, item = args
    mod = sys.modules.get(modname) or importlib.import_module(modname)
    f = getattr(mod, fname)
    try:
        return ("ok", f(item))
    except BaseException as e:  # harness error inside worker
        return ("err", "%s\n%s" % (repr(e), traceback.format_exc()))


class HarnessError(Exception):
    pass


_POOLS = {}


def pool_for(modname, workers=None):
    workers = workers or int(os.environ.get("VERIF_WORKERS", "16"))
    key = (modname, workers)
    if key not in _POOLS:
        ctxmp = multiprocessing.get_context("fork")
        _POOLS[key] = ctxmp.Pool(workers, initializer=_worker_init, initargs=(modname,))
    return _POOLS[key]


def pmap(modname, fname, items, workers=None, chunksize=None):
    """Ordered parallel map of module-level function ``modname.fname`` over JSON-ish items."""
    items = list(items)
    if not items:
        return []
    workers = workers or int(os.environ.get("VERIF_WORKERS", "16"))
    if workers <= 1 or len(items) < 4:
        out = []
        env.enter_scratch()
        for it in items:
            st, r = _call((modname, fname, it))
            if st == "err":
                raise HarnessError(r)
            out.append(r)
        return out
    p = pool_for(modname, workers)
    if chunksize is None:
        chunksize = max(1, min(64, len(items) // (workers * 8)))
    out = []
    for st, r in p.imap(_call, [(modname, fname, it) for it in items], chunksize=chunksize):
        if st == "err":
            raise HarnessError(r)
        out.append(r)
    return out


def close_pools():
    for p in _POOLS.values():
        p.close()
        p.join()
    _POOLS.clear()


# ---------------------------------------------------------------------------------------------
# known findings


def load_known():
    path = os.path.join(env.VERIF, "known_findings.json")
    if not os.path.exists(path):
        return []
    with open(path) as f:
        return json.load(f).get("findings", [])


def known_match(prop, key, known):
    for k in known:
        if k.get("property") == prop and k.get("status") == "known" and k.get("fingerprint") == key:
            return k
    return None


# ---------------------------------------------------------------------------------------------
# evidence


def write_evidence(ctx, nviol):
    cov = dict(ctx.coverage)
    cov.setdefault("samples", ctx.samples[:5] or [{"note": "no case recorded"}])
    cov["counters"] = dict(sorted(ctx.counters.items()))
    if ctx.notes:
        cov["notes"] = ctx.notes
    ev = {
        "property_id": ctx.prop,
        "tier": ctx.tier,
        "seed": ctx.seed,
        "level": ctx.level,
        "coverage": cov,
        "assumptions": ctx.assumptions,
        "wall_s": round(time.time() - ctx.t0, 2),
        "violations": nviol,
    }
    text = json.dumps(ev, indent=1, default=repr)
    try:
        import jsonschema

        with open("/root/.vp/EVIDENCE.schema.json") as f:
            schema = json.load(f)
        jsonschema.validate(json.loads(text), schema)
    except ImportError:
        pass
    except FileNotFoundError:
        pass
    path = os.path.join(os.environ.get("VERIF_EVIDENCE_DIR") or os.path.join(env.VERIF, "evidence"), ctx.prop + ".json")
    os.makedirs(os.path.dirname(path), exist_ok=True)
    with open(path, "w") as f:
        f.write(text + "\n")
    return path


# ---------------------------------------------------------------------------------------------
# replay


def write_replay(prop, v):
    d = os.path.join(os.environ.get("VERIF_REPLAY_DIR") or os.path.join(env.VERIF, "replays"), prop)
    os.makedirs(d, exist_ok=True)
    fp = jhash([v["key"], v["case"]])
    path = os.path.join(d, fp + ".json")
    with open(path, "w") as f:
        json.dump({"property": prop, "key": v["key"], "msg": v["msg"], "case": v["case"]}, f, indent=1, default=repr)
        f.write("\n")
    test = os.path.join(d, fp + "_test.py")
    with open(test, "w") as f:
        f.write(
            '"""Replays one recorded counterexample of %s without the explorer.\n\n%s\n"""\n'
            "import json, os, sys\n"
            "sys.path.insert(0, %r)\n"
            "from mcverif import env\nenv.setup()\nenv.enter_scratch()\n"
            "from mcverif.checks import %s as chk\n"
            "rec = json.load(open(%r))\n"
            "vs = chk.evaluate(rec['case'])\n"
            "if not [v for v in vs if v['key'] == rec['key']]:\n"
            "    vs = chk.evaluate(rec['case'])  # classes that need an earlier execution in the same process\n"
            "for v in vs: print(v['key'], '::', v['msg'])\n"
            "assert not [v for v in vs if v['key'] == rec['key']], 'counterexample reproduces'\n"
            % (prop, v["msg"].replace('"""', "'''"), env.VERIF, prop.lower(), path)
        )
    return path


def replay_file(prop, path, repeat=1):
    """Evaluate the case in ``path`` (``repeat`` times in this process; the violations of the LAST
    evaluation are returned); returns the list of violations (dicts)."""
    mod = importlib.import_module("mcverif.checks." + prop.lower())
    with open(path) as f:
        rec = json.load(f)
    env.setup()
    env.enter_scratch()
    vs = []
    for _ in range(max(1, repeat)):
        vs = mod.evaluate(rec["case"])
    return vs, rec


def confirm(prop, path, key):
    """Re-run the replay twice in fresh interpreters; both must report ``key``. If a single
    evaluation in a fresh process does not reproduce it, the case is evaluated TWICE in one fresh
    process (a violation that needs an earlier execution in the same process: process-global state
    such as a module-level list or cache). Returns (status, outs) with status
    'confirmed' | 'confirmed-on-second-execution' | 'unreproduced' | 'nondeterministic'."""
    for repeat, ok in ((1, "confirmed"), (2, "confirmed-on-second-execution")):
        outs = []
        for _ in range(2):
            e = dict(os.environ)
            e["PYTHONHASHSEED"] = "0"
            r = subprocess.run(
                [sys.executable, "-m", "mcverif.main", prop, "--replay", path, "--raw", "--repeat", str(repeat)],
                cwd=env.VERIF,
                env=e,
                capture_output=True,
                text=True,
            )
            keys = sorted(set(l.split(" ", 1)[1].strip() for l in r.stdout.splitlines() if l.startswith("RAWKEY ")))
            outs.append((r.returncode, keys, r.stderr[-2000:]))
        if outs[0][:2] != outs[1][:2]:
            return "nondeterministic", outs
        if key in outs[0][1]:
            return ok, outs
    return "unreproduced", outs
