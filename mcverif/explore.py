"""Explicit-state breadth-first search over operation histories of the real implementation.

The check module supplies a module-level function ``expand(item)`` executed in worker processes:

    item = {"init": <JSON spec of the initial state>, "hist": [op, ...], "outs": [outcome, ...]}
    returns {"canon": <hashable JSON / str>,      canonical form of the reached state
             "full":  <str digest of the full observation>  (differential oracle; may be None)
             "viols": [violation dicts],
             "ops":   [op, ...]  operations enabled in the reached state, simplest first
             "out":   outcome label of the last operation ("ok" | "refused:..." | ...),
             "terminal": bool (optional)  do not extend this state}

``expand`` must rebuild the state from ``init`` and replay ``hist`` on the real objects; while
replaying the prefix it must find the outcomes recorded in ``outs`` (else raise -> harness error).

The search is level-synchronous; states are de-duplicated by ``(init key, canon)``; two histories
reaching the same canonical state must agree on ``full`` (differential oracle).
"""
import json

from mcverif import core


def _key(x):
    return x if isinstance(x, str) else json.dumps(x, sort_keys=True, default=repr)


def bfs(ctx, modname, inits, depth, fname="expand", prop=None, max_states=None, differential=True, soft_keys=None):
    """Returns stats dict. Violations are added to ctx.

    A state carrying a violation is not extended (its futures are suspect) - unless every violation
    key of that state is *soft*: listed as a known finding of this property (or in ``soft_keys``),
    so that a recorded finding does not shrink the explored space."""
    prop = prop or ctx.prop
    soft = set(soft_keys or ())
    soft |= {k.get("fingerprint") for k in core.load_known() if k.get("property") == prop and k.get("status") == "known"}
    last_new = None
    seen = {}  # (init idx, canon) -> (hist, full)
    frontier = [{"init": init, "hist": [], "outs": [], "_i": i} for i, init in enumerate(inits)]
    states = transitions = traces = 0
    levels = []
    closure = False
    ophist = {}
    outcomes = {}
    capped = False
    for d in range(depth + 1):
        if not frontier:
            closure = True
            break
        frontier = frontier if d == 0 else ctx.order(frontier)
        res = core.pmap(modname, fname, [{k: v for k, v in it.items() if k != "_i"} for it in frontier])
        nxt = []
        new = 0
        for it, r in zip(frontier, res):
            traces += 1
            if it["hist"]:
                transitions += 1
                opn = it["hist"][-1][0] if isinstance(it["hist"][-1], (list, tuple)) else str(it["hist"][-1])
                ophist[opn] = ophist.get(opn, 0) + 1
                o = str(r.get("out", "ok")).split(":")[0]
                outcomes[o] = outcomes.get(o, 0) + 1
            ctx.add_violations(r.get("viols"))
            k = (it["_i"], _key(r["canon"]))
            if k in seen:
                if differential and r.get("full") is not None and seen[k][1] is not None and seen[k][1] != r["full"]:
                    ctx.add_violations(
                        [
                            core.viol(
                                prop.lower() + "/differential",
                                "two histories reach the same canonical state but differ in full observation: %s vs %s" % (seen[k][0], it["hist"]),
                                {"init": it["init"], "hist": it["hist"], "outs": it["outs"] + [r.get("out", "ok")], "other": seen[k][0]},
                            )
                        ]
                    )
                continue
            seen[k] = (it["hist"], r.get("full"))
            new += 1
            states += 1
            if len(ctx.samples) < 4 and it["hist"] and (len(it["hist"]) == d):
                if len(ctx.samples) < d:
                    ctx.samples.append({"init": it["init"] if len(_key(it["init"])) < 400 else "init#%d" % it["_i"], "history": it["hist"], "outcomes": it["outs"] + [r.get("out", "ok")]})
            hard = [v for v in (r.get("viols") or ()) if v["key"] not in soft]
            if d < depth and not r.get("terminal") and not hard:
                outs = it["outs"] + ([r.get("out", "ok")] if it["hist"] else [])
                for op in r["ops"]:
                    nxt.append({"init": it["init"], "hist": it["hist"] + [op], "outs": outs, "_i": it["_i"]})
        levels.append({"depth": d, "executed": len(frontier), "new_states": new})
        last_new = new
        ctx.log("depth %d: executed %d histories, %d new canonical states, next frontier %d" % (d, len(frontier), new, len(nxt)))
        if max_states and states >= max_states and nxt and d < depth:
            capped = True
            ctx.notes.append("state cap %d reached after depth %d; deeper levels not explored" % (max_states, d))
            frontier = []
            break
        frontier = nxt
    else:
        # the depth bound was reached: closed only if the last level found no new canonical state
        closure = last_new == 0
    return {
        "states": states,
        "transitions": transitions,
        "traces": traces,
        "levels": levels,
        "closure": closure and not capped,
        "ops": ophist,
        "outcomes": outcomes,
        "capped": capped,
    }


def merge_stats(total, s):
    for k in ("states", "transitions", "traces"):
        total[k] = total.get(k, 0) + s[k]
    total.setdefault("searches", []).append({k: s[k] for k in ("levels", "closure", "ops", "outcomes", "capped")})
    return total


def finish(ctx, total, extra=None):
    ctx.coverage.update(
        states=total.get("states", 0),
        transitions=total.get("transitions", 0),
        traces_validated_against_impl=total.get("traces", 0),
        searches=total.get("searches", []),
        exhaustive=all(s["closure"] for s in total.get("searches", [])) if total.get("searches") else False,
    )
    if extra:
        ctx.coverage.update(extra)
