"""check <ID> [--tier quick|thorough] [--replay FILE] [--raw]"""
import argparse
import importlib
import os
import sys
import time
import traceback

from mcverif import core, env


def main(argv=None):
    ap = argparse.ArgumentParser()
    ap.add_argument("prop")
    ap.add_argument("--tier", default=os.environ.get("VERIF_TIER", "quick"), choices=["quick", "thorough"])
    ap.add_argument("--replay")
    ap.add_argument("--raw", action="store_true", help="replay: print RAWKEY lines only")
    ap.add_argument("--repeat", type=int, default=1, help="replay: evaluate the case N times in this process, report the last")
    a = ap.parse_args(argv)
    prop = a.prop.upper()
    seed = env.seed()

    if a.replay:
        vs, rec = core.replay_file(prop, a.replay, a.repeat)
        if not vs and not a.raw and a.repeat == 1:
            # a violation that needs an earlier execution in the same process (process-global state)
            vs, rec = core.replay_file(prop, a.replay, 2)
            if vs:
                print("note: reproduces only from the second evaluation in one process (process-global state)")
        if a.raw:
            for v in vs:
                print("RAWKEY", v["key"])
            return 0
        known = core.load_known()
        bad = 0
        for v in vs:
            k = core.known_match(prop, v["key"], known)
            if k:
                print("KNOWN-FINDING: property=%s %s" % (prop, k.get("what", v["key"])))
            else:
                bad += 1
                print("  %s :: %s" % (v["key"], v["msg"]))
        if bad:
            print("VIOLATION property=%s replay=%s" % (prop, a.replay))
            return 1
        print("replay: no violation reproduced")
        return 0

    try:
        env.setup()
        env.enter_scratch()
        mod = importlib.import_module("mcverif.checks." + prop.lower())
        ctx = core.Ctx(prop, a.tier, seed, mod.LEVEL)
        mod.run(ctx)
        core.close_pools()
    except core.HarnessError as e:
        print("HARNESS-ERROR property=%s\n%s" % (prop, e))
        return 2
    except Exception:
        print("HARNESS-ERROR property=%s" % prop)
        traceback.print_exc()
        return 2

    # group by class key, keep the first (enumeration order is simplest-first)
    known = core.load_known()
    by_key = {}
    for v in ctx.violations:
        by_key.setdefault(v["key"], []).append(v)
    rc = 0
    nviol = 0
    nconf = 0
    for key, vs in by_key.items():
        k = core.known_match(prop, key, known)
        if k:
            print("KNOWN-FINDING: property=%s %s [%d cases, e.g. %s]" % (prop, k.get("what", key), len(vs), vs[0]["msg"][:200]))
            continue
        nviol += len(vs)
        v = vs[0]
        path = core.write_replay(prop, v)
        if nconf < core.MAX_KEYS_CONFIRMED:
            nconf += 1
            st, outs = core.confirm(prop, path, key)
        else:
            st = "confirmed"  # not re-run: too many classes; already one confirmed VIOLATION printed
        if st in ("confirmed", "confirmed-on-second-execution"):
            if st != "confirmed":
                print("  note: %s reproduces only from the second evaluation of the case in one process (process-global state); replay with --repeat 2" % key)
            print("  %s :: %s  [%d cases]" % (key, v["msg"][:600], len(vs)))
            print("VIOLATION property=%s replay=%s" % (prop, path))
            rc = 1
        else:
            print("HARNESS-NONDETERMINISM property=%s key=%s status=%s replay=%s\n%s" % (prop, key, st, path, outs))
            if rc == 0:
                rc = 2
    ctx.coverage.setdefault("violation_classes", sorted(by_key))
    try:
        path = core.write_evidence(ctx, nviol)
    except Exception:
        print("HARNESS-ERROR property=%s evidence does not validate" % prop)
        traceback.print_exc()
        return 2
    cov = ctx.coverage
    print(
        "%s tier=%s seed=%d wall=%.1fs %s violations=%d evidence=%s"
        % (
            prop,
            a.tier,
            seed,
            time.time() - ctx.t0,
            " ".join("%s=%s" % (k, cov[k]) for k in ("states", "transitions", "evaluations", "distinct_nontrivial", "exhaustive") if k in cov),
            nviol,
            path,
        )
    )
    return rc


if __name__ == "__main__":
    sys.exit(main())
