"""obs(): canonical observation of a composite (sub)tree through public queries (DESIGN 3.3).

The result is a nested dict/list of JSON-able primitives; ``diff(a, b)`` lists differing paths.
Families (all on by default, select with ``families=``):
  id      class name, getType(), name, flags
  serial  p.serialNum  (raw number; use rank=True to replace by rank in traversal order)
  loc     spatial locator kind + indices (each sub-location of a multi-location) + owner of the grid
  grid    own spatialGrid.reduce()
  params  every defined parameter's current value (persistent_only: only saveToDB ones)
  comp    component: material class, temperatures, dimensions (value or link), number densities,
          volume, mass
  geom    block/assembly: height, volume, mass
Normalisations: sequence containers compared by shape+values, not container type; wall-clock and
id-counter parameters excluded (EXCLUDED_PARAMS); cached volume observed through getVolume().
"""
import json
import math

import numpy as np

ALL = ("id", "serial", "loc", "grid", "params", "comp", "geom")
# wall-clock / monotone id sources (never rewound by a restore, never meaningful in a round trip)
EXCLUDED_PARAMS = {"maxAssemNum", "minutesSinceStart", "timeOfStart"}
# caches of public queries (observed through the query)
CACHE_PARAMS = {"volume"}


def canon_value(v, depth=0):
    """Value -> JSON-able canonical form; container type is normalised away, numeric kind kept."""
    if v is None:
        return None
    if isinstance(v, (bool, np.bool_)):
        return ["b", bool(v)]
    if isinstance(v, (int, np.integer)):
        return int(v)
    if isinstance(v, (float, np.floating)):
        f = float(v)
        if math.isnan(f):
            return "nan"
        if math.isinf(f):
            return "inf" if f > 0 else "-inf"
        return f
    if isinstance(v, (str, np.str_)):
        return str(v)
    if isinstance(v, bytes):
        return ["bytes", v.decode("latin1")]
    if isinstance(v, np.ndarray):
        if v.dtype == object:
            return [canon_value(x, depth + 1) for x in v.tolist()]
        return [canon_value(x, depth + 1) for x in v.tolist()] if v.ndim else canon_value(v.item())
    if isinstance(v, (list, tuple)):
        return [canon_value(x, depth + 1) for x in v]
    if isinstance(v, dict):
        return {"__dict__": {str(k): canon_value(x, depth + 1) for k, x in sorted(v.items(), key=lambda kv: str(kv[0]))}}
    if isinstance(v, (set, frozenset)):
        return {"__set__": sorted(str(x) for x in v)}
    try:
        from armi.utils.flags import Flag

        if isinstance(v, Flag):
            return {"__flag__": sorted(str(v).split(".")[-1].split("|"))}
    except Exception:
        pass
    try:
        from armi.reactor.parameters import NoDefault

        if v is NoDefault:
            return "<NoDefault>"
    except Exception:
        pass
    return "<%s>" % type(v).__name__


def _loc(o):
    from armi.reactor import grids

    sl = getattr(o, "spatialLocator", None)
    if sl is None:
        return None
    owner = None
    g = getattr(sl, "grid", None)
    if g is not None:
        ao = g.armiObject
        owner = None if ao is None else ("parent" if ao is getattr(o, "parent", None) else "%s:%s" % (type(ao).__name__, getattr(ao, "name", "?")))
    if isinstance(sl, grids.MultiIndexLocation):
        return {"kind": "multi", "idx": [[int(x) for x in l.indices] for l in sl], "grid": owner}
    if isinstance(sl, grids.CoordinateLocation):
        return {"kind": "coord", "xyz": [float(x) for x in (sl.i, sl.j, sl.k)], "grid": owner}
    if isinstance(sl, grids.IndexLocation):
        return {"kind": "index", "idx": [int(sl.i), int(sl.j), int(sl.k)], "grid": owner}
    return {"kind": type(sl).__name__}


def _grid(o):
    g = getattr(o, "spatialGrid", None)
    if g is None:
        return None
    try:
        red = g.reduce()
    except Exception as e:
        return {"cls": type(g).__name__, "reduce": "raises " + type(e).__name__}
    return {"cls": type(g).__name__, "reduce": canon_value(tuple(red)), "owner_ok": g.armiObject is o}


def _params(o, persistent_only, exclude):
    out = {}
    p = o.p
    for pd in p.paramDefs:
        n = pd.name
        if n in exclude or n in EXCLUDED_PARAMS or n == "serialNum":
            continue
        if persistent_only and not pd.saveToDB:
            continue
        if n in CACHE_PARAMS:
            continue
        try:
            v = p[n]
        except Exception as e:
            v = "<raises %s>" % type(e).__name__
        out[n] = canon_value(v)
    return out


def _comp(c):
    from armi.reactor.components import Component

    d = {"material": type(c.material).__name__, "Tinput": canon_value(c.inputTemperatureInC), "T": canon_value(c.temperatureInC)}
    dims = {}
    for dn in c.DIMENSION_NAMES:
        raw = c.p[dn]
        if isinstance(raw, tuple) and len(raw) == 2 and isinstance(raw[0], Component):
            dims[dn] = ["link", raw[0].name, raw[1]]
        else:
            dims[dn] = canon_value(raw)
        try:
            dims[dn + "@hot"] = canon_value(c.getDimension(dn))
        except Exception as e:
            dims[dn + "@hot"] = "<raises %s>" % type(e).__name__
    d["dims"] = dims
    try:
        d["nd"] = {k: canon_value(v) for k, v in sorted(c.getNumberDensities().items())}
    except Exception as e:
        d["nd"] = "<raises %s>" % type(e).__name__
    for k, f in (("volume", c.getVolume), ("mass", c.getMass), ("area", c.getArea)):
        try:
            d[k] = canon_value(f())
        except Exception as e:
            d[k] = "<raises %s>" % type(e).__name__
    return d


def obs(o, families=ALL, persistent_only=False, exclude=(), sort_children=False, rank=False, _serials=None):
    """Observation of ``o`` and everything beneath it."""
    from armi.reactor import assemblies, blocks
    from armi.reactor.components import Component

    top = _serials is None
    if top:
        _serials = []
    d = {}
    if "id" in families:
        d["cls"] = type(o).__name__
        try:
            d["type"] = o.getType()
        except AttributeError:
            d["type"] = None
        d["name"] = getattr(o, "name", None)
        try:
            d["flags"] = sorted(str(o.p.flags).split(".")[-1].split("|")) if getattr(o.p, "flags", None) is not None else None
        except Exception:
            d["flags"] = None
    if "serial" in families:
        d["serial"] = int(o.p.serialNum)
        _serials.append(d)
    if "loc" in families:
        d["loc"] = _loc(o)
    if "grid" in families:
        d["grid"] = _grid(o)
    if "params" in families:
        d["params"] = _params(o, persistent_only, set(exclude))
    if isinstance(o, Component):
        if "comp" in families:
            d["comp"] = _comp(o)
    elif "geom" in families and isinstance(o, (blocks.Block, assemblies.Assembly)):
        g = {}
        for k, f in (("height", getattr(o, "getHeight", None) or getattr(o, "getTotalHeight", None)), ("volume", o.getVolume), ("mass", o.getMass)):
            try:
                g[k] = canon_value(f())
            except Exception as e:
                g[k] = "<raises %s>" % type(e).__name__
        d["geom"] = g
    kids = list(o)
    if sort_children:
        kids = sorted(kids)
    d["children"] = [obs(c, families, persistent_only, exclude, sort_children, rank, _serials) for c in kids]
    if top and rank and "serial" in families:
        order = {s: i for i, s in enumerate(sorted(x["serial"] for x in _serials))}
        for x in _serials:
            x["serial"] = order[x["serial"]]
    return d


def diff(a, b, path="", out=None, limit=12, rtol=0.0):
    """Paths at which two observations differ (at most ``limit``)."""
    if out is None:
        out = []
    if len(out) >= limit:
        return out
    if isinstance(a, dict) and isinstance(b, dict):
        for k in list(a.keys()) + [k for k in b if k not in a]:
            if k not in a or k not in b:
                out.append("%s/%s: %s" % (path, k, "missing left" if k not in a else "missing right"))
            else:
                diff(a[k], b[k], "%s/%s" % (path, k), out, limit, rtol)
            if len(out) >= limit:
                break
        return out
    if isinstance(a, list) and isinstance(b, list):
        if len(a) != len(b):
            out.append("%s: length %d vs %d" % (path, len(a), len(b)))
            return out
        for i, (x, y) in enumerate(zip(a, b)):
            diff(x, y, "%s[%d]" % (path, i), out, limit, rtol)
            if len(out) >= limit:
                break
        return out
    if a != b or type(a) is not type(b):
        if rtol and isinstance(a, (int, float)) and isinstance(b, (int, float)) and not isinstance(a, bool) and not isinstance(b, bool):
            if abs(a - b) <= rtol * max(abs(a), abs(b)) + 1e-300:
                return out
        if isinstance(a, (int, float)) and isinstance(b, (int, float)) and not isinstance(a, bool) and not isinstance(b, bool) and a == b:
            return out  # 1 vs 1.0: numeric kind of python scalars is not part of the observation
        out.append("%s: %r vs %r" % (path, a, b))
    return out


def digest(o):
    import hashlib

    return hashlib.sha1(json.dumps(o, sort_keys=True).encode()).hexdigest()[:16]


# ---------------------------------------------------------------------------------------------


def selftest():
    """Sensitivity self-test: a deliberate perturbation of each field family must change obs()."""
    from mcverif import build

    r = build.reactor(build.hex_spec(pins=True, bond=True))
    base = obs(r, rank=True)
    perturbs = []
    b = r.core.getFirstBlock()
    fuel = b.getComponentByName("fuel")
    clad = b.getComponentByName("clad")

    def p_density():
        fuel.setNumberDensity("U235", fuel.getNumberDensity("U235") * (1 + 1e-9))

    def p_param():
        b.p.power = 1.0 + 1e-9

    def p_array():
        b.p.mgFlux = np.array([1.0, 2.0])

    def p_swap():
        kids = list(b)
        b.setChildren([kids[1], kids[0]] + kids[2:])

    def p_dim():
        clad.setDimension("od", 1.0900001, cold=True)

    def p_link():
        bond = [c for c in fuel.parent if c.name == "bond"][0]
        bond.p.id = 0.86  # replaces the link to fuel.od by a number

    def p_temp():
        clad.setTemperature(471.0)

    def p_move():
        a = r.core[0]
        a.spatialLocator = r.core.spatialGrid[5, 5, 0]

    def p_pitch():
        r.core.spatialGrid.changePitch(17.0)

    def p_name():
        b.name = "B9999-000"

    for f in (p_density, p_param, p_array, p_swap, p_dim, p_link, p_temp, p_move, p_pitch, p_name):
        r2 = build.reactor(build.hex_spec(pins=True, bond=True))
        b = r2.core.getFirstBlock()
        fuel = b.getComponentByName("fuel")
        clad = b.getComponentByName("clad")
        r = r2
        before = obs(r2, rank=True)
        if diff(before, base):
            raise SystemExit("selftest: two builds of the same spec differ: %s" % diff(before, base)[:3])
        f()
        after = obs(r2, rank=True)
        if not diff(before, after):
            raise SystemExit("selftest: obs() is blind to perturbation %s" % f.__name__)
        perturbs.append(f.__name__)
    print("selftest: obs() sensitive to %d perturbation families; build deterministic" % len(perturbs))
