"""C10 helpers: generated cross-section libraries, canonical observation, boring merge model.

Everything here that describes *expected* content is plain Python data (lists, dicts, floats);
ARMI objects are only built by ``build_member`` and only read by ``libobs``.

Pool members
------------
``gen``   generated in memory the way the CCCC readers fill a library (default zero vectors from
          ``XSCollection.getDefaultXs`` for absent optional reactions, csr scatter matrices with
          eliminated zeros, ``(groups, moments)`` total/transport arrays, per-nuclide metadata);
``fix``   the repo fixtures ISOAA/ISOAB, AA/AB.gamiso, AA/AB.pmatrx read with the real readers.
A member is always built fresh: ``merge`` cannibalises its argument.
"""
import os

import numpy as np
from scipy import sparse

from mcverif import env

KINDS = ("ISOTXS", "GAMISO", "PMATRX")
PROPS = ("neutronEnergyUpperBounds", "gammaEnergyUpperBounds", "neutronDoseConversionFactors", "gammaDoseConversionFactors")
PMATRX_ATTRS = ("neutronHeating", "neutronDamage", "gammaHeating", "isotropicProduction", "linearAnisotropicProduction", "nOrderProductionMatrix")
# every attribute an XSCollection carries, except ``source`` (a repr of the parent)
COLLECTION_ATTRS = (
    "numGroups transport total nGamma fission neutronsPerFission chi nalph np n2n nd nt strpd elasticScatter "
    "inelasticScatter n2nScatter elasticScatter1stOrder totalScatter absorption diffusionConstants removal nuSigF higherOrderScatter"
).split()

# ---------------------------------------------------------------------------------------------
# canonical values (pure JSON, exact: floats survive json through repr round trip)


def cv(v):
    """Exact canonical value. Arrays: shape + dtype + raw bytes (hex); sparse matrices as dense."""
    if v is None or isinstance(v, (bool, int, float)):
        return v
    if isinstance(v, str):
        return str(v)
    if isinstance(v, np.generic):
        return cv(v.item())
    if isinstance(v, np.ndarray):
        if v.dtype.kind not in "fiub":
            return {"nd": list(v.shape), "obj": cv(v.tolist())}
        return {"nd": list(v.shape), "dt": v.dtype.str, "hex": np.ascontiguousarray(v).tobytes().hex()}
    if sparse.issparse(v):
        return {"sp": 1, "a": cv(v.toarray())}
    if isinstance(v, (list, tuple)):
        return [cv(x) for x in v]
    if isinstance(v, dict):
        if v and all(isinstance(k, tuple) and isinstance(x, (int, np.integer)) and not isinstance(x, bool) for k, x in v.items()):
            # jband / jj tables: (group, block) -> int
            return {"imap": cv(np.array(sorted(list(k) + [int(x)] for k, x in v.items()), dtype=np.int64))}
        try:
            items = sorted(v.items())
        except TypeError:
            items = sorted(v.items(), key=repr)
        return {"map": [[cv(list(k) if isinstance(k, tuple) else k), cv(x)] for k, x in items]}
    return {"repr": repr(v)}


def flat(c):
    """canonical array value -> numpy array / python list (for the arithmetic oracles)."""
    if isinstance(c, dict):
        if "sp" in c:
            return flat(c["a"])
        if "hex" in c:
            return np.frombuffer(bytes.fromhex(c["hex"]), dtype=np.dtype(c["dt"])).reshape(c["nd"]).tolist()
        if "obj" in c:
            return c["obj"]
    return c


def show(c):
    """short human-readable form of a canonical value."""
    try:
        return short(flat(c)) if isinstance(c, dict) and ("hex" in c or "sp" in c) else short(c)
    except Exception:  # noqa: BLE001
        return short(c)


# ---------------------------------------------------------------------------------------------
# generated members

NEUTRON_BOUNDS = {"A2": [1.0e7, 1.0e3], "B2": [1.4e7, 1.0e3], "A1": [1.0e7], "A3": [1.0e7, 1.0e5, 1.0e3]}
NEUTRON_VELOCITY = {"A2": [2.0e9, 1.0e7], "B2": [2.5e9, 1.0e7], "A1": [2.0e9], "A3": [2.0e9, 3.0e8, 1.0e7]}
GAMMA_BOUNDS = {"A2": [2.0e7, 1.0e5], "B2": [1.5e7, 1.0e5], "A1": [2.0e7], "A3": [2.0e7, 1.0e6, 1.0e5]}
NDOSE = {"A2": [0.5, 0.25], "B2": [0.5, 0.25], "A1": [0.5], "A3": [0.5, 0.375, 0.25]}
GDOSE = {"A2": [0.125, 0.0625], "B2": [0.125, 0.0625], "A1": [0.125], "A3": [0.125, 0.09375, 0.0625]}

LABEL_INDEX = {"U235AA": 1, "U235AB": 2, "FE56AA": 3, "FE56AB": 4, "NA23AA": 5, "NA23AB": 6, "DMP1AA": 7, "DMP1AB": 8}
# the presence-pattern family: 8 nuclides, one per subset of {elastic, inelastic, n2n} scatter blocks
PATTERN_NUCS = ["U235", "U238", "FE54", "FE56", "CR52", "NI58", "MN55", "NA23"]
LABEL_INDEX.update({"P:" + n: 16 + i for i, n in enumerate(PATTERN_NUCS)})


def _pattern_traits():
    """Nuclide i holds scatter block b (elastic, inelastic, n2n) iff bit b of i is set, and for
    gamma data iff bit b of 7-i is set; each optional reaction is present for some nuclides and
    absent for others, independently of the scatter blocks."""
    out = {}
    for i, n in enumerate(PATTERN_NUCS):
        j = (3 * i + 1) % 8

        def ords(k):
            el, inel, n2n = k & 1, (k >> 1) & 1, (k >> 2) & 1
            return [el, el & inel, inel, n2n]  # block order: elastic P0, elastic P1, inelastic, n2n

        out[n] = dict(fis=1 if i in (0, 1, 6) else 0, chi=1 if i in (0, 1, 6) else 0, nalph=j & 1, np=(j >> 1) & 1, nd=(j >> 2) & 1, n2n=1 if i % 3 == 0 else 0,
                      nt=1 if i % 2 == 0 else 0, ltot=2, ltrn=2, ords=ords(i), gords=ords(7 - i), amass=50.0 + i, efiss=2.0 ** -35 if i in (0, 1, 6) else 0.0, ecapt=(1.0 + i / 8.0) * 2.0 ** -40)
    return out


# per base nuclide: which optional reactions / scatter blocks exist (the readers branch on each)
TRAITS = {
    "U235": dict(fis=1, chi=1, nalph=0, np=0, n2n=1, nd=0, nt=0, ltot=2, ltrn=2, ords=[1, 1, 1, 1], amass=235.0439453125, efiss=2.0 ** -35, ecapt=2.0 ** -40),
    "FE56": dict(fis=0, chi=0, nalph=1, np=1, n2n=0, nd=0, nt=0, ltot=2, ltrn=2, ords=[1, 0, 1, 0], amass=55.9375, efiss=0.0, ecapt=1.25 * 2.0 ** -40),
    "NA23": dict(fis=0, chi=0, nalph=0, np=0, n2n=1, nd=1, nt=0, ltot=2, ltrn=2, ords=[1, 1, 0, 0], amass=22.984375, efiss=0.0, ecapt=1.125 * 2.0 ** -40),
    "DMP1": dict(fis=0, chi=0, nalph=0, np=0, n2n=0, nd=0, nt=1, ltot=2, ltrn=2, ords=[1, 0, 0, 0], amass=10.0, efiss=0.0, ecapt=0.0),
    "BA38": dict(fis=0, chi=0, nalph=1, np=0, n2n=1, nd=0, nt=0, ltot=2, ltrn=2, ords=[1, 1, 1, 1], amass=137.90625, efiss=0.0, ecapt=1.375 * 2.0 ** -40),
}
SCAT_FLAGS = [100, 101, 200, 300]  # elastic P0, elastic P1, inelastic, n2n
SCAT_ATTR = ["elasticScatter", "elasticScatter1stOrder", "inelasticScatter", "n2nScatter"]
PATTERN_TRAITS = _pattern_traits()


def traits_of(spec, label, gamma=False):
    t = dict((PATTERN_TRAITS if spec and spec.get("pattern") else TRAITS)[label[:-2]])
    if gamma and "gords" in t:
        t["ords"] = t["gords"]
    return t


def index_of(spec, label):
    base = LABEL_INDEX["P:" + label[:-2]] if spec and spec.get("pattern") else LABEL_INDEX[label]
    return base + 100 * (spec.get("variant", 0) if spec else 0)  # a variant holds the same labels with different numbers


# name -> spec. ``kinds`` data held; ``n``/``g`` neutron/gamma structure keys; labels in file order.
GEN_POOL = [
    {"name": "isoA1", "kinds": ["ISOTXS"], "n": "A2", "labels": ["U235AA", "FE56AA", "DMP1AA"]},
    {"name": "isoA2", "kinds": ["ISOTXS"], "n": "A2", "labels": ["U235AB", "NA23AA"]},
    {"name": "gamA1", "kinds": ["GAMISO"], "g": "A2", "labels": ["U235AA", "FE56AA", "DMP1AA"]},
    {"name": "pmxA1", "kinds": ["PMATRX"], "n": "A2", "g": "A2", "labels": ["U235AA", "FE56AA"]},
    {"name": "gpA2", "kinds": ["GAMISO", "PMATRX"], "n": "A2", "g": "A2", "labels": ["U235AB", "NA23AA"]},
    {"name": "isoB", "kinds": ["ISOTXS"], "n": "B2", "labels": ["FE56AB"]},  # other neutron group bounds
    {"name": "iso1g", "kinds": ["ISOTXS"], "n": "A1", "labels": ["NA23AB"]},  # other group count
    {"name": "isoA3", "kinds": ["ISOTXS"], "n": "A2", "labels": ["NA23AA", "FE56AA"]},  # overlaps isoA1 (2nd label) and isoA2 (1st)
    {"name": "gamA2", "kinds": ["GAMISO"], "g": "A2", "labels": ["FE56AB", "U235AA"]},  # overlaps gamA1 on its 2nd label
    {"name": "pmxB", "kinds": ["PMATRX"], "n": "B2", "g": "A2", "labels": ["DMP1AB"]},  # other neutron bounds, carries dose factors
    {"name": "pmxGB", "kinds": ["PMATRX"], "n": "A2", "g": "B2", "labels": ["NA23AB"]},  # other gamma bounds
    {"name": "isoA4", "kinds": ["ISOTXS"], "n": "A2", "labels": ["DMP1AB", "NA23AB"], "filemeta": {"fileId": 1}},  # other file-wide metadata
]
# exact duplicates (independently built, value-identical, same labels), one per kind of data: the
# same kind of data for the same label from a second source must be refused even when the numbers agree
GEN_POOL += [
    {"name": "isoA1dup", "kinds": ["ISOTXS"], "n": "A2", "labels": ["U235AA", "FE56AA", "DMP1AA"]},
    {"name": "gamA1dup", "kinds": ["GAMISO"], "g": "A2", "labels": ["U235AA", "FE56AA", "DMP1AA"]},
    {"name": "pmxA1dup", "kinds": ["PMATRX"], "n": "A2", "g": "A2", "labels": ["U235AA", "FE56AA"]},
]
GEN_POOL_THOROUGH_EXTRA = []
# libraries for the macroscopic part: merge sequences over these give every kind for every nuclide
MACRO_MEMBERS = {
    "gen1": [
        {"name": "m1iso", "kinds": ["ISOTXS"], "n": "A1", "labels": ["U235AA", "FE56AA", "NA23AA", "DMP1AA", "U235AB"]},
        {"name": "m1gam", "kinds": ["GAMISO"], "g": "A1", "labels": ["U235AA", "FE56AA", "NA23AA", "DMP1AA", "U235AB"]},
        {"name": "m1pmx", "kinds": ["PMATRX"], "n": "A1", "g": "A1", "labels": ["U235AA", "FE56AA", "NA23AA", "U235AB"]},
    ],
    "gen2": [
        {"name": "m2isoa", "kinds": ["ISOTXS"], "n": "A2", "labels": ["U235AA", "FE56AA", "DMP1AA"]},
        {"name": "m2isob", "kinds": ["ISOTXS"], "n": "A2", "labels": ["NA23AA", "U235AB"]},
        {"name": "m2gam", "kinds": ["GAMISO"], "g": "A2", "labels": ["U235AA", "FE56AA", "NA23AA", "DMP1AA", "U235AB"]},
        {"name": "m2pmx", "kinds": ["PMATRX"], "n": "A2", "g": "A2", "labels": ["U235AA", "FE56AA", "NA23AA", "U235AB"]},
    ],
    "gen3": [
        {"name": "m3iso", "kinds": ["ISOTXS"], "n": "A3", "labels": ["U235AA", "FE56AA", "NA23AA", "DMP1AA", "U235AB"]},
        {"name": "m3gp", "kinds": ["GAMISO", "PMATRX"], "n": "A3", "g": "A2", "labels": ["U235AA", "FE56AA", "NA23AA", "U235AB"]},
    ],
}
PATTERN_LABELS = [n + "AA" for n in PATTERN_NUCS]
# colliding XS IDs: a label is <nuclide label><XS ID> by plain concatenation, so XS IDs made of the letters of
# nuclide labels held under ANOTHER XS ID of the same library ("NA" next to NA23AA, "FE" next to FE56AA, "BA"
# next to BA38AB), XS IDs that are each other's reversal (AB/BA) and XS IDs sharing one character (AA/AB/BA/NA)
# the colliding nuclide is held under both XS IDs (NA23AA and NA23NA ...): a foreign nuclide only shows when the
# composition holds a density for its name
COLLIDE_LABELS = ["U235AA", "NA23AA", "FE56AA", "BA38AA", "U235NA", "NA23NA", "FE56NA", "FE56FE", "NA23FE", "U235FE", "BA38BA", "U235BA", "BA38AB", "NA23AB", "U235AB"]
COLLIDE_SUFFIXES = ["AA", "NA", "FE", "BA", "AB"]
LABEL_INDEX.update({lab: 40 + i for i, lab in enumerate(COLLIDE_LABELS) if lab not in LABEL_INDEX})
MACRO_MEMBERS["col2"] = [
    {"name": "c2iso", "kinds": ["ISOTXS"], "n": "A2", "labels": COLLIDE_LABELS},
    {"name": "c2gam", "kinds": ["GAMISO"], "g": "A2", "labels": COLLIDE_LABELS},
]
MACRO_MEMBERS["pat2"] = [
    {"name": "p2iso", "kinds": ["ISOTXS"], "n": "A2", "labels": PATTERN_LABELS, "pattern": True},
    {"name": "p2gam", "kinds": ["GAMISO"], "g": "A2", "labels": PATTERN_LABELS, "pattern": True},
]
MACRO_MEMBERS["pat3"] = [
    {"name": "p3iso", "kinds": ["ISOTXS"], "n": "A3", "labels": PATTERN_LABELS, "pattern": True},
    {"name": "p3gam", "kinds": ["GAMISO"], "g": "A3", "labels": PATTERN_LABELS, "pattern": True},
]
# macroscopic history search: a library that starts with half of the pattern nuclides and can grow by the
# other half, and a second library ("variant") holding the same labels with different data
HIST_FAMILIES = {}
for _fam, _n, _g in (("h2", "A2", "A2"), ("h3", "A3", "A2")):
    _mem = {}
    for _half, _labels in (("a", PATTERN_LABELS[:4]), ("b", PATTERN_LABELS[4:])):
        for _v in (0, 1):
            _name = "%s%s%s" % (_fam, _half, "v" if _v else "")
            _mem[(_half, _v)] = _name
            MACRO_MEMBERS.setdefault("_hist", []).append({"name": _name, "kinds": ["ISOTXS", "GAMISO", "PMATRX"], "n": _n, "g": _g, "labels": list(_labels), "pattern": True, "variant": _v})
    HIST_FAMILIES[_fam] = _mem
HIST_DELETE_ORDER = ["FE54AA", "CR52AA", "U235AA"]
FIXTURES = {
    "ISOAA": ("ISOTXS", "ISOAA"),
    "ISOAB": ("ISOTXS", "ISOAB"),
    "gamAA": ("GAMISO", "AA.gamiso"),
    "gamAB": ("GAMISO", "AB.gamiso"),
    "pmxAA": ("PMATRX", "AA.pmatrx"),
    "pmxAB": ("PMATRX", "AB.pmatrx"),
}
# the same fixture file read a second time
FIXTURE_DUPS = {k + "#2": v for k, v in FIXTURES.items()}
COMBINED = {"ISOTXS": "combined-AA-AB.isotxs", "GAMISO": "combined-AA-AB.gamiso", "PMATRX": "combined-AA-AB.pmatrx"}


def fixture_dir():
    return os.path.join(env.REPO, "armi", "nuclearDataIO", "tests", "fixtures")


def _specs():
    d = {}
    for s in GEN_POOL + GEN_POOL_THOROUGH_EXTRA:
        d[s["name"]] = s
    for lst in MACRO_MEMBERS.values():
        for s in lst:
            d[s["name"]] = s
    return d


SPECS = _specs()


def pool_members(pool, quick=True):
    if pool == "gen":
        return [s["name"] for s in GEN_POOL] + ([] if quick else [s["name"] for s in GEN_POOL_THOROUGH_EXTRA])
    if pool == "fix":
        return list(FIXTURES)
    if pool == "cross":
        return [s["name"] for s in GEN_POOL] + list(FIXTURES)
    if pool == "fixdup":
        return list(FIXTURES) + list(FIXTURE_DUPS)
    raise ValueError(pool)


def val(idx, r, g, scale=1.0):
    """A dyadic rational (exact in float32 and float64), distinct per (label, reaction, group)."""
    return scale * (idx * 512 + r * 16 + g + 1) / 4096.0


def gen_collection(label, ng, gamma, spec=None):
    """Expected content of one XSCollection as plain lists (None = attribute stays None)."""
    t = traits_of(spec, label, gamma)
    idx = index_of(spec, label) + (32 if gamma else 0)
    zero = [0.0] * ng
    fis = t["fis"] and not gamma
    c = {a: None for a in COLLECTION_ATTRS}
    c["higherOrderScatter"] = {}
    c["transport"] = [[val(idx, 1, g * 4 + m) + 1.0 for m in range(t["ltrn"])] for g in range(ng)]
    c["total"] = [[val(idx, 2, g * 4 + m) + 1.0 for m in range(t["ltot"])] for g in range(ng)]
    c["nGamma"] = [val(idx, 3, g) for g in range(ng)]
    c["fission"] = [val(idx, 4, g) for g in range(ng)] if fis else zero
    c["neutronsPerFission"] = [2.0 + val(idx, 5, g) for g in range(ng)] if fis else zero
    c["chi"] = {1: [1.0], 2: [0.75, 0.25], 3: [0.5, 0.375, 0.125]}[ng] if fis else zero
    for k, r in enumerate(["nalph", "np", "n2n", "nd", "nt"]):
        c[r] = [val(idx, 6 + k, g) for g in range(ng)] if t[r] else zero
    c["strpd"] = zero
    for b, attr in enumerate(SCAT_ATTR):
        if not t["ords"][b]:
            continue
        m = [[0.0] * ng for _ in range(ng)]
        for to in range(ng):
            for fr in range(to + 1):
                if attr == "inelasticScatter" and fr == to and ng > 1:
                    continue  # pure down-scatter: a sparse pattern with an empty diagonal
                if attr == "n2nScatter" and to - fr > 1:
                    continue
                m[to][fr] = val(idx, 12 + b, to * ng + fr)
        c[attr] = m
    return c


def gen_nuclide_meta(label, ng, gamma, spec=None):
    t = traits_of(spec, label, gamma)
    fis = t["fis"] and not gamma
    md = {
        "nuclideId": label[:-2] + ("_7" if label[:-2] != "DMP1" else ""),
        "libName": "ENDF7" if not gamma else "GAM7",
        "isoIdent": label[:-2],
        "amass": t["amass"],
        "efiss": t["efiss"],
        "ecapt": t["ecapt"],
        "temp": 873.0,
        "sigPot": 10.0 + index_of(spec, label),
        "adens": 0.0009765625,
        "classif": 0,
        "chiFlag": 1 if fis else 0,
        "fisFlag": 1 if fis else 0,
        "nalph": t["nalph"],
        "np": t["np"],
        "n2n": t["n2n"],
        "nd": t["nd"],
        "nt": t["nt"],
        "ltot": t["ltot"],
        "ltrn": t["ltrn"],
        "strpd": 0,
        "scatFlag": list(SCAT_FLAGS),
        "ords": list(t["ords"]),
        "jband": {(j, n): j + 1 for n in range(4) for j in range(ng)},
        "jj": {(j, n): 1 for n in range(4) for j in range(ng)},
    }
    return md


def gen_file_meta(kind, spec):
    if kind in ("ISOTXS", "GAMISO"):
        ng = len(NEUTRON_BOUNDS[spec["n"]]) if kind == "ISOTXS" else len(GAMMA_BOUNDS[spec["g"]])
        md = {
            "label": "ISOTXS",  # the GAMISO reader normalises its label to this one too
            "fileId": 0,
            "numGroups": ng,
            "maxUpScatterGroups": 0,
            "maxDownScatterGroups": ng - 1,
            "maxScatteringOrder": 1,
            "fileWideChiFlag": 0,
            "maxScatteringBlocks": 4,
            "subblockingControl": 1,
            "libraryLabel": "c10 generated",
            "minimumNeutronEnergy": 0.125,
        }
        if kind == "GAMISO":
            md["gammaVelocity..NOT"] = [0.0] * ng
        return md
    return {
        "numberCollapsingSpatialRegions": 0,
        "numGammaGroups": len(GAMMA_BOUNDS[spec["g"]]),
        "numNeutronGroups": len(NEUTRON_BOUNDS[spec["n"]]),
        "hasInPlateData": False,
        "hasDoseConversionFactor": True,
        "maxScatteringOrder": 1,
        "maxNumberOfCompositions": 0,
        "maxMaterials": 0,
        "maxNumberOfRegions": 0,
        "maxNumberOfCollapsingRegions": 0,
        "_dummy1": 0,
        "_dummy2": 0,
        "minimumNeutronEnergy": 0.125,
        "minimumGammaEnergy": 4096.0,
    }


def gen_pmatrx(label, ng, gg, spec=None):
    idx = index_of(spec, label) + 64
    return {
        "meta": {
            "hasNeutronHeatingAndDamage": True,
            "maxScatteringOrder": 1,
            "hasGammaHeating": True,
            "numberNeutronXS": 0,
            "collapsingRegionNumber": 0,
            "activationXS": [],
            "activationMT": [],
            "activationMTU": [],
        },
        "neutronHeating": [val(idx, 1, g, 1024.0) for g in range(ng)],
        "neutronDamage": [val(idx, 2, g, 16.0) for g in range(ng)],
        "gammaHeating": [val(idx, 3, g, 2048.0) for g in range(gg)],
        "isotropicProduction": [[val(idx, 4, gam * 4 + g) for g in range(ng)] for gam in range(gg)],
    }


def _fill_collection(coll, data, ng):
    import numpy as np
    from scipy import sparse

    for attr, v in data.items():
        if v is None or attr == "higherOrderScatter":
            continue
        if attr in SCAT_ATTR:
            m = sparse.csr_matrix(np.array(v, dtype=float))
            m.eliminate_zeros()
            coll[attr] = m
        elif attr not in ("transport", "total") and not any(v):
            coll[attr] = coll.getDefaultXs(ng)  # as the reader does for an absent optional reaction
        else:
            coll[attr] = np.array(v, dtype=float)


def build_generated(spec):
    import numpy as np

    from armi.nuclearDataIO import xsLibraries, xsNuclides
    from armi.utils import properties

    lib = xsLibraries.IsotxsLibrary()
    kinds = spec["kinds"]
    ng = len(NEUTRON_BOUNDS[spec["n"]]) if "n" in spec else 0
    gg = len(GAMMA_BOUNDS[spec["g"]]) if "g" in spec else 0
    properties.unlockImmutableProperties(lib)
    try:
        if "ISOTXS" in kinds:
            lib.neutronVelocity = np.array(NEUTRON_VELOCITY[spec["n"]])
            lib.neutronEnergyUpperBounds = np.array(NEUTRON_BOUNDS[spec["n"]])
        if "GAMISO" in kinds:
            lib.gammaEnergyUpperBounds = np.array(GAMMA_BOUNDS[spec["g"]])
        if "PMATRX" in kinds:
            lib.neutronEnergyUpperBounds = np.array(NEUTRON_BOUNDS[spec["n"]])
            lib.gammaEnergyUpperBounds = np.array(GAMMA_BOUNDS[spec["g"]])
            lib.neutronDoseConversionFactors = np.array(NDOSE[spec["n"]])
            lib.gammaDoseConversionFactors = np.array(GDOSE[spec["g"]])
    finally:
        properties.lockImmutableProperties(lib)
    for kind in kinds:
        md = getattr(lib, kind.lower() + "Metadata")
        fm = gen_file_meta(kind, spec)
        fm.update(spec.get("filemeta", {}))
        for k, v in fm.items():
            md[k] = np.array(v) if isinstance(v, list) else v
        md.fileNames.append(spec["name"] + "." + kind.lower())
    for label in spec["labels"]:
        nuc = xsNuclides.XSNuclide(lib, label)
        lib[label] = nuc
        if "ISOTXS" in kinds:
            for k, v in gen_nuclide_meta(label, ng, False, spec).items():
                nuc.isotxsMetadata[k] = np.array(v) if k in ("scatFlag", "ords") else v
            _fill_collection(nuc.micros, gen_collection(label, ng, False, spec), ng)
        if "GAMISO" in kinds:
            for k, v in gen_nuclide_meta(label, gg, True, spec).items():
                nuc.gamisoMetadata[k] = np.array(v) if k in ("scatFlag", "ords") else v
            _fill_collection(nuc.gammaXS, gen_collection(label, gg, True, spec), gg)
        if "PMATRX" in kinds:
            p = gen_pmatrx(label, ng, gg, spec)
            for k, v in p["meta"].items():
                nuc.pmatrxMetadata[k] = list(v) if isinstance(v, list) else v
            for attr in ("neutronHeating", "neutronDamage", "gammaHeating", "isotropicProduction"):
                setattr(nuc, attr, np.array(p[attr], dtype=float))
        nuc.updateBaseNuclide()
    return lib


def build_member(name):
    """A fresh library for pool member ``name`` (never cached: merge guts its argument)."""
    if name in FIXTURES or name in FIXTURE_DUPS:
        from armi.nuclearDataIO.cccc import gamiso, isotxs, pmatrx

        kind, fname = (FIXTURES.get(name) or FIXTURE_DUPS[name])
        reader = {"ISOTXS": isotxs.readBinary, "GAMISO": gamiso.readBinary, "PMATRX": pmatrx.readBinary}[kind]
        return reader(os.path.join(fixture_dir(), fname))
    return build_generated(SPECS[name])


def read_combined(kind):
    from armi.nuclearDataIO.cccc import gamiso, isotxs, pmatrx

    reader = {"ISOTXS": isotxs.readBinary, "GAMISO": gamiso.readBinary, "PMATRX": pmatrx.readBinary}[kind]
    return reader(os.path.join(fixture_dir(), COMBINED[kind]))


# ---------------------------------------------------------------------------------------------
# observation of a real library through its public surface


def _prop(lib, name):
    from armi.utils import properties

    try:
        return cv(getattr(lib, name))
    except properties.ImmutablePropertyError:
        return None


def _meta(md):
    # md[k] answers None for an absent key, so a key holding None is indistinguishable from no key
    return {str(k): cv(v) for k, v in md.items() if v is not None}


def _collection(coll):
    out = {}
    for a in COLLECTION_ATTRS:
        v = coll.__dict__.get(a, None)
        out[a] = cv(v) if a != "higherOrderScatter" else cv(v or {})
    return out


def _empty_collection(c):
    return all(v is None for k, v in c.items() if k != "higherOrderScatter") and c["higherOrderScatter"] == {"map": []}


def nucobs(nuc):
    o = {"xsId": nuc.xsId, "base": None if nuc._base is None else nuc._base.name, "nucLabel": nuc.nucLabel, "key": str(nuc.containerKey)}
    im, gm, pm = _meta(nuc.isotxsMetadata), _meta(nuc.gamisoMetadata), _meta(nuc.pmatrxMetadata)
    mi, ga = _collection(nuc.micros), _collection(nuc.gammaXS)
    pa = {a: cv(getattr(nuc, a)) for a in PMATRX_ATTRS}
    o["ISOTXS"] = {"meta": im, "xs": mi} if (im or not _empty_collection(mi)) else None
    o["GAMISO"] = {"meta": gm, "xs": ga} if (gm or not _empty_collection(ga)) else None
    has_p = pm or any(v not in (None, {"map": []}) for v in pa.values())
    o["PMATRX"] = {"meta": pm, "data": pa} if has_p else None
    return o


def libobs(lib):
    o = {"props": {p: _prop(lib, p) for p in PROPS}, "neutronVelocity": _prop(lib, "neutronVelocity")}
    o["numGroups"] = lib.numGroups
    o["numGroupsGamma"] = lib.numGroupsGamma
    o["meta"] = {}
    o["files"] = {}
    for kind in KINDS:
        md = getattr(lib, kind.lower() + "Metadata")
        o["meta"][kind] = _meta(md)
        o["files"][kind] = [os.path.basename(str(f)) for f in md.fileNames]
    o["labels"] = [str(x) for x in lib.nuclideLabels]
    o["nuc"] = {}
    o["foreign_container"] = []
    for label, nuc in lib.items():
        o["nuc"][str(label)] = nucobs(nuc)
        if nuc.container is not lib:
            o["foreign_container"].append(str(label))
    if sorted(o["nuc"]) != sorted(o["labels"]) or len(lib) != len(o["labels"]):
        o["inconsistent_index"] = True
    return o


def order_free(o):
    """The part of an observation the statement calls 'content': label order, the order of the
    source-file list and the library-wide neutron velocity ('use the first one' by design, checked
    against the model instead) are taken out."""
    d = dict(o)
    d["labels"] = sorted(o["labels"])
    d["files"] = {k: sorted(v) for k, v in o["files"].items()}
    d.pop("neutronVelocity")
    return d


# ---------------------------------------------------------------------------------------------
# the boring model: a library is the field-wise union of its sources

SKIPPED_FILE_KEYS = ("chi", "libraryLabel")


def model_empty():
    return {
        "props": {p: None for p in PROPS},
        "neutronVelocity": None,
        "numGroups": 0,
        "numGroupsGamma": 0,
        "meta": {k: {} for k in KINDS},
        "files": {k: [] for k in KINDS},
        "labels": [],
        "nuc": {},
        "foreign_container": [],
    }


def model_conflict(T, M):
    """Reason why merging source observation M into model state T must be refused, or None."""
    for p in PROPS:
        if T["props"][p] is not None and M["props"][p] is not None and T["props"][p] != M["props"][p]:
            return "group-structure:" + p
    for kind in KINDS:
        a, b = T["meta"][kind], M["meta"][kind]
        if a and b:
            for k in sorted(set(a) | set(b)):
                if k in SKIPPED_FILE_KEYS:
                    continue
                if a.get(k) != b.get(k):
                    return "file-metadata:%s:%s" % (kind, k)
    for label in M["labels"]:
        if label in T["nuc"]:
            for kind in KINDS:
                if T["nuc"][label][kind] is not None and M["nuc"][label][kind] is not None:
                    return "overlap:%s:%s" % (kind, label)
    return None


def model_merge(T, M):
    """Union (assumes model_conflict is None). Pure data in, pure data out; leaf values are shared,
    never modified."""
    R = dict(T)
    R["props"] = {p: (T["props"][p] if T["props"][p] is not None else M["props"][p]) for p in PROPS}
    if R["neutronVelocity"] is None:  # documented: the first neutron velocity is kept
        R["neutronVelocity"] = M["neutronVelocity"]
    nb, gb = R["props"]["neutronEnergyUpperBounds"], R["props"]["gammaEnergyUpperBounds"]
    R["numGroups"] = nb["nd"][0] if nb is not None else 0
    R["numGroupsGamma"] = gb["nd"][0] if gb is not None else 0
    R["meta"], R["files"] = {}, {}
    for kind in KINDS:
        a, b = T["meta"][kind], M["meta"][kind]
        if a and b:
            a = dict(a)
            if not a.get("libraryLabel") and b.get("libraryLabel"):
                a["libraryLabel"] = b.get("libraryLabel")
            R["meta"][kind] = a
        else:
            R["meta"][kind] = dict(a or b)
        R["files"][kind] = list(T["files"][kind]) + list(M["files"][kind])
    R["labels"] = list(T["labels"])
    R["nuc"] = dict(T["nuc"])
    for label in M["labels"]:
        if label not in R["nuc"]:
            R["labels"].append(label)
            R["nuc"][label] = M["nuc"][label]
        else:
            n = dict(R["nuc"][label])
            for kind in KINDS:
                if M["nuc"][label][kind] is not None:
                    n[kind] = M["nuc"][label][kind]
            R["nuc"][label] = n
    R["foreign_container"] = []
    return R


def first_diff(a, b, path=""):
    """First differing path between two JSON-ish values, as (path, a, b) or None."""
    if type(a) is not type(b) and not (isinstance(a, (int, float)) and isinstance(b, (int, float)) and not isinstance(a, bool) and not isinstance(b, bool)):
        return (path, a, b)
    if isinstance(a, (dict, list)) and a == b:
        return None
    if isinstance(a, dict):
        for k in sorted(set(a) | set(b), key=str):
            if k not in a or k not in b:
                return (path + "/" + str(k), a.get(k, "<absent>"), b.get(k, "<absent>"))
            d = first_diff(a[k], b[k], path + "/" + str(k))
            if d:
                return d
        return None
    if isinstance(a, list):
        if len(a) != len(b):
            return (path + "/len", len(a), len(b))
        for i, (x, y) in enumerate(zip(a, b)):
            d = first_diff(x, y, path + "/%d" % i)
            if d:
                return d
        return None
    if a != b:
        return (path, a, b)
    return None


def short(x, n=160):
    s = repr(x)
    return s if len(s) <= n else s[: n - 3] + "..."
