"""C09 helpers that know nothing about armi: an independent struct-based reader of FORTRAN
sequential record framing, an independent reader of the ASCII record form, a tiny reference
record writer, and a canonical observation / diff of data containers.

Nothing in this file imports armi.
"""
import re
import struct

# ---------------------------------------------------------------------------------------------
# binary framing


def frames(data):
    """Split ``data`` (bytes) into records.  Returns (payloads, error) where error is None or a
    string naming the first framing fault; parsing stops at the first fault."""
    out, pos, n = [], 0, len(data)
    while pos < n:
        if pos + 4 > n:
            return out, "record %d: %d stray bytes where a leading count should be" % (len(out), n - pos)
        (lead,) = struct.unpack_from("i", data, pos)
        if lead < 0 or pos + 4 + lead + 4 > n:
            return out, "record %d: leading count %d runs past the end of the file (%d bytes left)" % (len(out), lead, n - pos - 4)
        payload = data[pos + 4 : pos + 4 + lead]
        (trail,) = struct.unpack_from("i", data, pos + 4 + lead)
        if trail != lead:
            return out, "record %d: leading count %d, trailing word %d" % (len(out), lead, trail)
        out.append(payload)
        pos += 8 + lead
    return out, None


SIZES = {"i": 4, "q": 8, "f": 4, "d": 8}


def pack_fields(flat):
    """flat: list of (code, value) with code in i,q,f,d or ('s', value, length)."""
    parts = []
    for f in flat:
        if f[0] == "s":
            parts.append(struct.pack("%ds" % f[2], f[1].ljust(f[2]).encode("ascii")))
        else:
            parts.append(struct.pack(f[0], f[1]))
    return b"".join(parts)


def frame(payload):
    return struct.pack("i", len(payload)) + payload + struct.pack("i", len(payload))


# ---------------------------------------------------------------------------------------------
# ASCII record form:  " %+10d" count, fields, count again, newline.
# int: 11 columns; real: 24 columns (sign, 17 significant digits, E+XX); string: 1 + length columns.

INT_W, REAL_W = 11, 24
_INT_RE = re.compile(r"^ *[+-]\d+$")
_REAL_RE = re.compile(r"^ [+-]\d\.\d{16}E[+-]\d\d$")


def ascii_record(text, pos, widths):
    """Parse one ASCII record starting at text[pos] whose fields have the given kinds
    (list of 'i' | 'r' | ('s', n)).  Returns (count, values, newpos, error)."""

    def take(w):
        nonlocal pos
        s = text[pos : pos + w]
        pos += w
        return s

    def as_int(s, what):
        if len(s) != INT_W or not _INT_RE.match(s):
            raise ValueError("%s: %r is not an %d-column integer" % (what, s, INT_W))
        return int(s)

    vals = []
    try:
        head = as_int(take(INT_W), "leading count")
        for k, w in enumerate(widths):
            if w == "i":
                vals.append(as_int(take(INT_W), "field %d" % k))
            elif w == "r":
                s = take(REAL_W)
                if not _REAL_RE.match(s):
                    raise ValueError("field %d: %r is not a %d-column real" % (k, s, REAL_W))
                vals.append(float(s))
            else:
                s = take(1 + w[1])
                if len(s) != 1 + w[1] or s[0] != " ":
                    raise ValueError("field %d: %r is not a blank plus %d characters" % (k, s, w[1]))
                vals.append(s[1:].rstrip())
        tail = as_int(take(INT_W), "trailing count")
        nl = take(1)
        if nl != "\n":
            raise ValueError("record not ended by a newline but %r" % nl)
        if tail != head:
            raise ValueError("leading count %d, trailing count %d" % (head, tail))
    except ValueError as e:
        return None, vals, pos, str(e)
    return head, vals, pos, None


def ascii_counts(text):
    """Leading/trailing counts of every line of an ASCII CCCC file (fields not interpreted).
    Returns (counts, error)."""
    counts = []
    for k, line in enumerate(text.split("\n")):
        if line == "" and k == len(text.split("\n")) - 1:
            break
        if len(line) < 2 * INT_W or not _INT_RE.match(line[:INT_W]) or not _INT_RE.match(line[-INT_W:]):
            return counts, "line %d does not start and end with an %d-column count" % (k, INT_W)
        a, b = int(line[:INT_W]), int(line[-INT_W:])
        if a != b:
            return counts, "line %d: leading count %d, trailing count %d" % (k, a, b)
        counts.append(a)
    if not text.endswith("\n") and text:
        return counts, "file does not end with a newline"
    return counts, None


# ---------------------------------------------------------------------------------------------
# canonical observation


def f32(x):
    try:
        return struct.unpack("f", struct.pack("f", x))[0]
    except (OverflowError, struct.error):
        return x


def canon(o, depth=0):
    """JSON-able canonical form: arrays/lists/tuples -> nested lists, sparse -> dense lists,
    dict-likes -> dict with string keys, numpy scalars -> python scalars."""
    if depth > 12:
        return "<deep>"
    if o is None or isinstance(o, (bool, str)):
        return o
    if isinstance(o, int):
        return o
    if isinstance(o, float):
        return o
    if isinstance(o, bytes):
        return o.decode("latin1")
    tn = type(o).__module__ + "." + type(o).__name__
    if tn.startswith("numpy."):
        import numpy as np

        if isinstance(o, np.ndarray):
            if o.ndim == 0:
                return canon(o.item(), depth + 1)
            return {"shape": list(o.shape), "v": [canon(x, depth + 1) for x in o.ravel().tolist()]}
        if isinstance(o, np.generic):
            return canon(o.item(), depth + 1)
    if tn.startswith("scipy.sparse"):
        a = o.toarray()
        return {"shape": list(a.shape), "v": a.ravel().tolist()}
    if isinstance(o, (list, tuple)):
        items = [canon(x, depth + 1) for x in o]
        if all(not isinstance(x, (dict, list)) for x in items):
            return {"shape": [len(items)], "v": items}
        return items
    if isinstance(o, dict):
        return {_k(k): canon(v, depth + 1) for k, v in o.items()}
    if hasattr(o, "_data") and isinstance(getattr(o, "_data"), dict):  # nuclearFileMetadata._Metadata
        return {_k(k): canon(v, depth + 1) for k, v in o._data.items()}
    if hasattr(o, "makeSparse") and hasattr(o, "indptr"):
        return {"pending": canon(list(o.data), depth + 1)}
    return "<%s>" % tn


def _k(k):
    if isinstance(k, tuple):
        return ",".join(str(x) for x in k)
    return str(k)


def num_eq(a, b, single):
    """a: written, b: read back."""
    if isinstance(a, bool) or isinstance(b, bool):
        return a == b and isinstance(a, bool) == isinstance(b, bool)
    if isinstance(a, (int, float)) and isinstance(b, (int, float)):
        if a == b:
            return True
        if single and isinstance(a, float):
            return f32(a) == b
        return False
    return a == b


def diff(a, b, single=False, path=""):
    """First difference between canonical forms ``a`` (written) and ``b`` (read): returns
    (path-with-indices, path-without-indices, a-part, b-part) or None."""
    if isinstance(a, dict) and isinstance(b, dict):
        if set(a) == {"shape", "v"} and set(b) == {"shape", "v"}:
            if a["shape"] != b["shape"]:
                return path + ".shape", path + ".shape", a["shape"], b["shape"]
            for i, (x, y) in enumerate(zip(a["v"], b["v"])):
                if not num_eq(x, y, single):
                    return "%s[%d]" % (path, i), path, x, y
            return None
        for k in sorted(set(a) | set(b)):
            if k not in a:
                return path + "." + k, path + "." + _strip(k), "<absent>", b[k]
            if k not in b:
                return path + "." + k, path + "." + _strip(k), a[k], "<absent>"
            d = diff(a[k], b[k], single, path + "." + k)
            if d:
                return d[0], _stripidx(d[1], path, k), d[2], d[3]
        return None
    if isinstance(a, list) and isinstance(b, list):
        if len(a) != len(b):
            return path + ".len", path + ".len", len(a), len(b)
        for i, (x, y) in enumerate(zip(a, b)):
            d = diff(x, y, single, "%s[%d]" % (path, i))
            if d:
                return d[0], re.sub(r"\[\d+\]", "[]", d[1]), d[2], d[3]
        return None
    if type(a) in (dict, list) or type(b) in (dict, list):
        return path, re.sub(r"\[\d+\]", "[]", path), _short(a), _short(b)
    if not num_eq(a, b, single):
        return path, re.sub(r"\[\d+\]", "[]", path), a, b
    return None


def _strip(k):
    """Generalise keys that are pure counters so that the class key does not carry an index."""
    if re.fullmatch(r"\d+(,\d+)*", k):
        return re.sub(r"\d+", "N", k)
    m = re.fullmatch(r"(OMEGA|ZCMRC|NZINTS)\d+", k)
    if m:
        return m.group(1) + "N"
    return k


def _stripidx(p, path, k):
    # keys that embed counters (OMEGA3, "1,0") are generalised so the class key stays stable
    return re.sub(r"\[\d+\]", "[]", p.replace(path + "." + k, path + "." + _strip(k), 1))


def _short(x):
    s = repr(x)
    return s if len(s) < 120 else s[:117] + "..."
