"""C02 reference model: mass / volume / number-density accounting on a plain tree of dicts.

Deliberately boring: no armi import, no numpy.  A *tree* is

    component : {"lvl": "component", "name": str, "nd": {nuc: N}, "V": full volume, "w": in-model volume
                 (V / symmetry factor of the owning block), "sym": bool, "det": list|None}
    block     : {"lvl": "block", "name": str, "sf": symmetry factor, "h": height, "sym": bool, "kids": [...]}
    assembly  : {"lvl": "assembly", "name": str, "kids": [...]}
    core      : {"lvl": "core", "name": str, "kids": [...]}

Units as in ARMI: N in atoms/(barn cm), V in cm^3, mass in g.  ``W(nuc)`` (atomic weight, g/mol)
and ``C`` (mol/cm^3 -> atoms/(barn cm)) are injected by the check (trusted nuclide directory data).

State queries (what every public getter must agree with)
  vol(node)        component: V; block: sum V / sf; above: sum over children
  atoms(node, n)   sum over leaves of N * w                  (in units of 1e24 atoms)
  N(node, n)       atoms / sum of leaf w                     (volume-weighted mean)
  mass(node, ns)   sum_n atoms(n) * W(n) / C

Transition functions mirror the *documented* de-homogenisation of the composite setters
("distributes evenly across all children that contain the nuclide", volume fractions of the direct
children), so that after every operation the predicted per-component densities can be compared
with the implementation.  Mass <-> density conversions use the in-model volume (the volume that
``mass`` uses), which is what read-back-what-you-set requires at every level.
"""
import copy

TRACE = 1e-50


class Refusal(Exception):
    """The documented refusal of an operation (name of the exception class the API raises)."""

    def __init__(self, exc):
        Exception.__init__(self, exc)
        self.exc = exc


class Model:
    def __init__(self, W, C):
        self.W = W
        self.C = C

    # ------------------------------------------------------------------ queries
    def leaves(self, node, path=()):
        if node["lvl"] == "component":
            yield path, node
        else:
            for i, k in enumerate(node["kids"]):
                for x in self.leaves(k, path + (i,)):
                    yield x

    def at(self, tree, path):
        n = tree
        for i in path:
            n = n["kids"][i]
        return n

    def nucs(self, node):
        if node["lvl"] == "component":
            return list(node["nd"])
        s = []
        seen = set()
        for _p, l in self.leaves(node):
            for n in l["nd"]:
                if n not in seen:
                    seen.add(n)
                    s.append(n)
        return s

    def vol(self, node):
        if node["lvl"] == "component":
            return node["V"]
        if node["lvl"] == "block":
            return sum(k["V"] for k in node["kids"]) / node["sf"]
        return sum(self.vol(k) for k in node["kids"])

    def wvol(self, node):
        """In-model volume: the volume mass and atoms are counted with."""
        if node["lvl"] == "component":
            return node["w"]
        return sum(l["w"] for _p, l in self.leaves(node))

    def atoms(self, node, n):
        return sum(l["nd"].get(n, 0.0) * l["w"] for _p, l in self.leaves(node))

    def N(self, node, n):
        if node["lvl"] == "component":
            return node["nd"].get(n, 0.0)
        w = self.wvol(node)
        if w == 0.0:
            return 0.0
        return self.atoms(node, n) / w

    def Ns(self, node):
        return {n: self.N(node, n) for n in self.nucs(node)}

    def mass(self, node, nucs=None):
        if nucs is None:
            nucs = self.nucs(node)
        return sum(self.atoms(node, n) * self.W(n) / self.C for n in nucs)

    def density(self, node):
        return sum(self.N(node, n) * self.W(n) / self.C for n in self.nucs(node))

    def massfracs(self, node):
        ns = self.Ns(node)
        tot = sum(v * self.W(n) for n, v in ns.items())
        if tot == 0:
            return {n: 0.0 for n in ns}
        return {n: v * self.W(n) / tot for n, v in ns.items()}

    # ------------------------------------------------------------------ transitions (mutate in place)
    def setND(self, node, n, v):
        if node["lvl"] == "component":
            node["nd"][n] = v
            return
        kids = node["kids"]
        active = [k for k in kids if n in self.nucs(k)]
        if not active:
            if v:
                raise Refusal("ValueError")
            return
        vols = [self.vol(k) for k in kids]
        tot = sum(vols)
        frac = sum(vo for k, vo in zip(kids, vols) if any(k is a for a in active)) / tot
        for k in active:
            self.setND(k, n, v / frac)

    def updNDs(self, node, d):
        if node["lvl"] == "component":
            node["nd"].update(d)
            return
        kids = node["kids"]
        vols = [self.vol(k) for k in kids]
        tot = sum(vols)
        fr = [vo / tot for vo in vols]
        knucs = [set(self.nucs(k)) for k in kids]
        per = [dict() for _ in kids]
        for n, dens in d.items():
            idx = [i for i, s in enumerate(knucs) if n in s]
            if not idx:
                if dens == 0:
                    continue
                idx = list(range(len(kids)))
            de = dens / sum(fr[i] for i in idx)
            for i in idx:
                per[i][n] = de
        for k, dd in zip(kids, per):
            if dd:
                self.updNDs(k, dd)

    def setNDs(self, node, d):
        if node["lvl"] == "component":
            node["nd"] = dict(d)
            return
        d = dict(d)
        for n in self.nucs(node):
            d.setdefault(n, 0.0)
        self.updNDs(node, d)

    def scale(self, node, f):
        if node["lvl"] == "component":
            node["nd"] = {n: v * f for n, v in node["nd"].items()}
            if node.get("det") is not None:
                node["det"] = [x * f for x in node["det"]]
            return
        self.setNDs(node, {n: v * f for n, v in self.Ns(node).items()})

    def clear(self, node):
        self.setNDs(node, {n: TRACE for n in self.nucs(node)})

    def dN(self, node, n, mass):
        """Number density equivalent to ``mass`` grams of n spread over the in-model volume of node."""
        return self.C * mass / (self.wvol(node) * self.W(n))

    def addMass(self, node, n, m):
        self.setND(node, n, self.N(node, n) + self.dN(node, n, m))

    def setMass(self, node, n, m):
        self.setND(node, n, self.dN(node, n, m))

    def addMasses(self, node, d):
        for n, m in d.items():
            if m:
                self.addMass(node, n, m)

    def setMasses(self, node, d):
        self.clear(node)
        for n, m in d.items():
            self.setMass(node, n, m)

    def setMassFracs(self, node, d):
        rho = self.density(node)
        if not rho:
            raise Refusal("ValueError")
        old = self.massfracs(node)
        tot = 0.0
        for n, mf in d.items():
            self.setND(node, n, mf * rho * self.C / self.W(n))
            old.pop(n, None)
            tot += mf
        other = sum(old.values())
        if other:
            for n, v in old.items():
                self.setND(node, n, (1.0 - tot) * (v / other) * rho * self.C / self.W(n))

    def adjusted_fracs(self, node, adjust, const, val):
        """New mass-fraction vector after adjusting the set ``adjust`` to total ``val`` holding
        ``const`` fixed and scaling everything else uniformly (the docstring's 'theory')."""
        old = self.massfracs(node)
        adjust = [n for n in old if n in adjust]
        const = [n for n in old if n in const and n not in adjust]
        A = sum(old[n] for n in adjust)
        Cs = sum(old[n] for n in const)
        new = {}
        for n in adjust:
            new[n] = old[n] * val / A if A else val / len(adjust)
        newA = sum(new.values())
        O = 1.0 - A - Cs
        f2 = (1.0 - newA - Cs) / O if O else 1.0
        for n in old:
            if n not in adjust and n not in const:
                new[n] = old[n] * f2
        return new, old, adjust, const

    def setHeight(self, block, f, conserve):
        assert block["lvl"] == "block"
        if conserve:
            for n, v in self.Ns(block).items():
                if v:
                    self.setND(block, n, v / f + TRACE)
        block["h"] *= f
        for k in block["kids"]:
            k["V"] *= f
            k["w"] *= f

    def clone(self, tree):
        return copy.deepcopy(tree)
