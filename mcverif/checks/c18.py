"""C18 - the reactor built from blueprints is the reactor the blueprints describe.

Part 1 (documents, deviation-bounded): every blueprint document with <= 1 (quick) / <= 2 (thorough)
deviations from two base documents (hex third-core, Cartesian full-core) over the dimensions of
``c18_doc`` is rendered to YAML, loaded with ``Blueprints.load`` and built with
``reactors.factory``; the result is compared with the independent evaluator of ``c18_model``
(placements, designs, block order/heights/xs/mesh/flags, component shape/material/temperatures/
multiplicity/cold and hot dimensions/links/areas/composition).  Invalid deviations must be
refused.  Two constructions of the same text give equal ``obs(rank=True)``; the blueprints written
back by ``saveToStream(tryMap=True)`` reload to the same grid contents.

Part 2 (lattice maps, exhaustive): see ``c18_maps``.
Part 3 (lattice-map text -> grid contents of a GridBlueprint, exhaustive): see ``c18_gridtext``.
"""
import io
import random

from mcverif import core
from mcverif.checks import c18_doc, c18_gridtext, c18_maps, c18_model

PROPERTY = "C18"
LEVEL = "exploration"
MOD = "mcverif.checks.c18"


# invalid deviations that exercise the same refusal mechanism share a class key
SAME_MECHANISM = {"duct-overlap": "duct-beyond-pitch"}


def _case_id(case):
    return "%s+%s" % (case["base"], "+".join("%s:%s" % (d, a) for d, a in case["devs"]) or "base")


def _build(text, seed):
    from armi.reactor import reactors
    from armi.reactor.blueprints import Blueprints
    from mcverif import build

    random.seed(seed)
    bp = Blueprints.load(io.StringIO(text))
    return reactors.factory(build.settings(), bp), bp


def _refusal_key(case, reasons):
    """Class key of an accepted-but-inconsistent document: the invalid deviation's name, else
    the evaluator's reason class."""
    inv = [SAME_MECHANISM.get(a, a) for d, a in case["devs"] if d == "invalid"]
    return "c18/accepts-inconsistent-" + (inv[0] if inv else reasons[0].split(":")[0].replace(" ", "-"))


def eval_doc(case):
    """-> (violations, info)"""
    from mcverif import observe

    vs = []
    cid = _case_id(case)
    try:
        spec, declared = c18_doc.make_spec(case)
        text = c18_doc.render(spec)
        reasons = c18_model.validate(spec)
    except (KeyError, IndexError, ValueError) as e:
        if len(case["devs"]) < 2:
            raise
        # the second deviation edits something the first one removed: not a document
        return [], {"outcome": "inapplicable", "invalid": False, "why": repr(e)}
    if bool(reasons) != bool(declared) and len(case["devs"]) < 2:
        raise RuntimeError("harness: evaluator finds %s for %s declared %s" % (reasons, cid, declared))
    # (with two deviations the evaluator's judgement decides: one deviation may neutralise or
    # cause an inconsistency of the other)
    info = {"outcome": None, "invalid": bool(reasons), "declared": bool(declared)}
    try:
        r, bp = _build(text, 0)
        err = None
    except Exception as e:  # any exception is a refusal
        r, err = None, e
    if reasons:
        if err is None:
            vs.append(core.viol(_refusal_key(case, reasons), "document %s is inconsistent (%s) but is accepted: a reactor with %d assemblies is built" % (cid, "; ".join(reasons)[:300], len(r.core)), case))
            info["outcome"] = "accepted-invalid"
        else:
            info["outcome"] = "refused:" + type(err).__name__
        return vs, info
    if err is not None and spec.get("_may_refuse"):
        info["outcome"] = "refused-yaml-typed-token:" + type(err).__name__
        return vs, info
    if err is not None:
        vs.append(core.viol("c18/refuses-wellformed-" + _dims(case), "well-formed document %s is refused: %r" % (cid, err), case))
        info["outcome"] = "refused-valid"
        return vs, info
    info["outcome"] = "built"
    info["assemblies"] = len(r.core)
    diffs = c18_model.compare(spec, r)
    if diffs and spec.get("_keytag"):
        # one class per token kind / field (the mechanism), the differences go into the message
        vs.append(core.viol("c18/built-differs-%s" % spec["_keytag"], "%s: %s" % (cid, " | ".join("[%s] %s" % d for d in diffs[:3])), case))
    else:
        for cls, msg in diffs:
            vs.append(core.viol("c18/built-differs-%s" % cls, "%s: %s" % (cid, msg), case))
    # determinism: the same text built again
    o1 = observe.obs(r, rank=True)
    r2, _ = _build(text, 7919)  # the state of ``random`` (provisional names) must not matter either
    o2 = observe.obs(r2, rank=True)
    d = observe.diff(o1, o2)
    if d:
        vs.append(core.viol("c18/construction-nondeterministic", "%s: two constructions of the same text differ: %s" % (cid, d[:3]), case))
    info["digest"] = observe.digest(o1)
    # saved blueprints reload to the same grid contents
    if all(d in ("grid", "pins") for d, _ in case["devs"]):
        vs += _save_roundtrip(case, cid, spec, text)
    return vs, info


def _dims(case):
    return "+".join(sorted(d for d, _ in case["devs"])) or "base"


def _yaml_text(v):
    return "true" if v is True else "false" if v is False else "null" if v is None else str(v)


def _save_roundtrip(case, cid, spec, text):
    from armi.reactor.blueprints import Blueprints, gridBlueprint

    vs = []
    bp = Blueprints.load(io.StringIO(text))
    for gd in bp.gridDesigns:
        gd._readGridContents()
    s = io.StringIO()
    try:
        gridBlueprint.saveToStream(s, bp, full=True, tryMap=True)
        bp2 = Blueprints.load(io.StringIO(s.getvalue()))
    except Exception as e:
        return [core.viol("c18/saveToStream-raises", "%s: saving/reloading the blueprints raises %r" % (cid, e), case)]
    for gname, g in spec["grids"].items():
        want = {tuple(k): v for k, v in g["contents"].items()}
        gd = bp2.gridDesigns[gname]
        gd._readGridContents()
        # (explicit grid contents are YAML values: an unquoted 1 reloads as the integer 1 - same text)
        got = {tuple(k): _yaml_text(v) for k, v in (gd.gridContents or {}).items()}
        if got != want:
            form = "lattice map" if gd.latticeMap else "grid contents"
            vs.append(
                core.viol(
                    "c18/saved-blueprints-lose-grid-contents-%s" % g.get("map_kind", "grid"),
                    "%s: grid %r %s is written by saveToStream(tryMap=True) as a %s that reloads as %s (missing %s, unexpected %s)" % (cid, gname, sorted(want.items()), form, sorted(got.items()), sorted(set(want) - set(got)), sorted(set(got) - set(want))),
                    case,
                )
            )
    return vs


def evaluate(case):
    if case.get("kind") == "maps":
        return c18_maps.eval_chunk(case)[0]
    if case.get("kind") == "gridtext":
        return c18_gridtext.eval_chunk(case)[0]
    return eval_doc(case)[0]


def _run_item(case):
    if case.get("kind") == "maps":
        vs, st = c18_maps.eval_chunk(case)
        return vs, {"maps": st, "cls": case["cls"]}
    if case.get("kind") == "gridtext":
        vs, st = c18_gridtext.eval_chunk(case)
        return vs, {"maps": st, "cls": "gridtext_" + case["family"]}
    return eval_doc(case)


def run(ctx):
    docs = c18_doc.enumerate_cases(1 if ctx.quick else 2)
    maps = c18_maps.cases(ctx.quick)
    gtexts = c18_gridtext.cases(ctx.quick)
    items = ctx.order(docs) + ctx.order(maps) + ctx.order(gtexts)
    res = core.pmap(MOD, "_run_item", items, chunksize=2)
    ndocs = nmaps = nontrivial = 0
    digests = set()
    for case, (vs, info) in zip(items, res):
        ctx.add_violations(vs)
        if "maps" in info:
            st = info["maps"]
            nmaps += st["n"]
            nontrivial += st["nontrivial"]
            for k, v in st.items():
                ctx.count("maps_%s_%s" % (info["cls"], k.replace("viol:c18/asciimap-", "viol-").replace("viol:c18/gridtext-", "viol-")), v)
        else:
            ctx.count("docs_" + info["outcome"].split(":")[0])
            if info["outcome"] == "inapplicable":
                continue
            ndocs += 1
            nontrivial += bool(case["devs"])
            if info.get("invalid") != info.get("declared"):
                ctx.count("docs_validity_changed_by_combination")
            if info["outcome"].startswith("refused:"):
                ctx.count("docs_refusal_" + info["outcome"].split(":")[1])
            for d, _ in case["devs"]:
                ctx.count("docs_dim_" + d)
            if info.get("digest"):
                digests.add(info["digest"])
    ctx.count("docs_distinct_reactors", len(digests))
    ctx.samples = [docs[0], docs[len(docs) // 3], docs[-1], maps[-1], gtexts[len(gtexts) // 2]]
    ctx.coverage.update(
        evaluations=ndocs + nmaps,
        distinct_nontrivial=nontrivial,
        rule="a document is distinct by (base, set of deviations), non-trivial when it has >= 1 deviation; a lattice-map evaluation is distinct by (map class, cell universe, label scheme, subset), non-trivial when the subset has >= 2 cells",
        exhaustive=True,
        documents=ndocs,
        lattice_map_subsets=nmaps,
        max_deviations=1 if ctx.quick else 2,
        deviation_alternatives={b: {d: len(v) for d, v in c18_doc.DEVS[b].items()} for b in c18_doc.DEVS},
    )
    ctx.assumptions += [
        "documents: <= %d deviations from two base documents over the dimensions of c18_doc (finite alternatives per dimension); theta-R-Z grids, component groups, 3-D shapes, mergeWith, inputHeightsConsideredHot=False and custom density on library materials are not generated" % (1 if ctx.quick else 2),
        "trusted: material library (default mass fractions, reference densities, expansion correlations), nuclide directory (weights, abundances), units.AVOGADROS_NUMBER; default settings (xs kernel MC2v3 element expansion rules)",
        "lattice-map texts through GridBlueprint: every non-empty occupancy pattern of every Cartesian text map of nx x ny tokens (full core: nx*ny <= %d, quarter core <= %d), as full rectangle and with trailing placeholders trimmed, incl. all maps whose outer rows/columns hold only placeholders; hex third/full/tips-up patterns within 2-3 (third: 3-4) rings with and without an outer ring of placeholders; construct() of the grid for every pattern of <= 9 cells and every 16th otherwise" % ((16, 9) if ctx.quick else (20, 12)),
        "lattice maps: all non-empty subsets of the stated cell universes (hex: 2 rings, 3 rings restricted to |S|<=3 or >=17 in quick / all in thorough; third-core 3 rings + 3 out-of-domain cells, 4 rings, and in thorough 5 rings with |S|<=4 or >=18; Cartesian 3x3/4x4 patches incl. negative indices), distinct labels of 1/3 (and mixed) characters",
    ]
