"""C15 - a run visits every time node once, in order, calling hooks in stack order.

Deviation-bounded enumeration of *run configurations* (cycle history x restart point x interface
stack x coupling settings).  Every configuration is executed on the real ``armi.operators.Operator``
(a bare operator on a one-assembly reactor built by ``mcverif.build``) carrying a stack of
recording ``Interface`` subclasses; every hook appends what it sees.  An independent ~60-line
reference scheduler (``reference``) produces the expected trace from the configuration alone and
the two traces are compared element by element.  In addition, for every configuration the
(cycle, node) <-> cumulative node / cumulative step conversion functions of ``armi.utils`` are
checked to be mutually inverse, to number the nodes in the order the run visited them, and the
step lengths to sum to availability x cycle length.

state       = one run configuration executed to completion
transition  = one hook event compared against the reference
"""
import itertools
import json
import os
import shutil
import traceback

from mcverif import core, env

PROPERTY = "C15"
LEVEL = "model_checking"
MOD = "mcverif.checks.c15"

RTOL = 1e-10  # step lengths / cycle lengths are a handful of multiply-divides of O(100) numbers
NAMES = {"A": "recA", "B": "recB", "C": "recC"}
FUNCS = {"recA": "fA", "recB": "fB", "recC": "fC", "recD": "fD"}
EVENTS = ("BOL", "BOC", "EveryNode", "Coupled", "EOC", "EOL")

# =============================================================================================
# 1. configuration space: a base configuration plus a set of (dimension, alternative) deviations
# =============================================================================================

BASE = {
    "fmt": "simple",  # cycle-history input format
    "nCycles": 2,
    "steps": "u2",  # burn steps per cycle: uK = K in every cycle, vXYZ = X,Y,Z in cycles 0,1,2
    "avail": "none",
    "pf": "none",
    "clen": "s100",
    "pw": "power",  # rated power given directly, or as power density x heavy-metal mass
    "start": 0,  # restart point = k-th node of the run from (0,0)
    "pA": "plain",
    "pB": "plain",
    "pC": "plain",
    "order": "ABC",
    "nIf": 3,
    "build": "append",
    "dep": "none",
    "tc": False,
    "maxIters": 2,
    "skip": "none",
    "defer": 0,
}

PROFILES = (
    ["disabled", "disabled+bolForce", "bolForce", "reverseAtEOL", "deferred", "halt@0", "halt@1", "halt@2"]
    + ["coupled:1", "coupled:2", "coupled:3", "coupled:never", "coupled:alt"]
    + ["truthy@BOL", "truthy@EveryNode", "truthy@Coupled", "truthy@EOC", "truthy@EOL"]
)

ALTS = {
    "fmt": ["stepdays", "stepdaysR", "cumdays", "bslen", "mixed", "mixed2"],
    "nCycles": [1, 3],
    "steps": ["u0", "u1", "u3", "v021", "v310", "v102"],
    "avail": ["s05", "s0", "lvar", "rep", "long", "short"],
    "pf": ["cvar", "svar", "rep", "long", "short"],
    "clen": ["s50", "lvar", "long", "short"],
    "pw": ["density"],
    "start": list(range(1, 12)),
    "pA": PROFILES,
    "pB": PROFILES,
    "pC": PROFILES,
    "order": ["ACB", "BAC", "BCA", "CAB", "CBA"],
    "nIf": [2, 1],
    "build": ["insert0"],
    "dep": ["first", "last"],
    "tc": [True],
    "maxIters": [1, 3, 0],
    "skip": ["c0", "c1"],
    "defer": [1, 2],
}

# secondary bases (abstract configurations) explored to a smaller deviation radius
SECONDARY = {
    "coupled": {"tc": True, "maxIters": 3, "pA": "coupled:2", "pB": "coupled:1"},
    "coupled-never": {"tc": True, "pC": "coupled:never", "skip": "c0", "nCycles": 3},
    "detailed-restart": {"fmt": "mixed", "nCycles": 3, "steps": "v102", "start": 2, "pB": "reverseAtEOL", "pA": "reverseAtEOL"},
    "deferred-halt": {"pB": "deferred", "defer": 1, "pC": "halt@1", "pA": "disabled+bolForce", "nCycles": 3},
}

_DAYS = [10.0, 20.0, 30.0]
_AF = [0.5, 1.0, 0.75]
_PFC = [1.0, 0.5, 0.0]
_PFS = [1.0, 0.5, 0.25]
_LEN = [100.0, 200.0, 50.0]


def _steps_of(ab):
    p, n = ab["steps"], ab["nCycles"]
    if p[0] == "u":
        return [int(p[1])] * n
    return [int(ch) for ch in p[1:]][:n]


def _profile(name, p):
    d = {"name": name, "enabled": True, "bolForce": False, "reverseAtEOL": False, "deferred": False, "haltAt": None, "coupled": None, "truthy": None}
    if p == "plain":
        pass
    elif p == "disabled":
        d["enabled"] = False
    elif p == "disabled+bolForce":
        d["enabled"], d["bolForce"] = False, True
    elif p == "bolForce":
        d["bolForce"] = True
    elif p == "reverseAtEOL":
        d["reverseAtEOL"] = True
    elif p == "deferred":
        d["deferred"] = True
    elif p.startswith("halt@"):
        d["haltAt"] = int(p[5:])
    elif p.startswith("coupled:"):
        j = p[8:]
        d["coupled"] = int(j) if j.isdigit() else j
    elif p.startswith("truthy@"):
        d["truthy"] = p[7:]
    else:
        raise ValueError(p)
    return d


def materialize(ab, power=1.0e6):
    """abstract configuration (dimension -> value) -> explicit configuration (settings + stack),
    or None when the combination does not denote a configuration (e.g. per-cycle step counts with
    the simple input, a restart point beyond the last node)."""
    n = ab["nCycles"]
    steps = _steps_of(ab)
    if len(steps) < n:
        return None
    fmt = ab["fmt"]
    s = {"nCycles": n, "power": power}
    if ab["pw"] == "density":
        s = {"nCycles": n, "power": 0.0, "powerDensity": power / 1.0e6}
    if fmt == "simple":
        if len(set(steps)) > 1 or ab["pf"] == "svar":
            return None
        s["burnSteps"] = steps[0]
        cl = ab["clen"]
        if cl == "s100":
            s["cycleLength"] = 100.0
        elif cl == "s50":
            s["cycleLength"] = 50.0
        elif cl == "lvar":
            s["cycleLengths"] = _LEN[:n]
        elif cl == "long":
            s["cycleLengths"] = (_LEN + [75.0])[: n + 1]
        else:
            if n < 2:
                return None
            s["cycleLengths"] = _LEN[: n - 1]
        av = ab["avail"]
        if av == "s05":
            s["availabilityFactor"] = 0.5
        elif av == "s0":
            s["availabilityFactor"] = 0.0
        elif av == "lvar":
            s["availabilityFactors"] = _AF[:n]
        elif av == "rep":
            s["availabilityFactors"] = [0.5] + (["%dR" % (n - 1)] if n > 1 else [])
        elif av == "long":
            s["availabilityFactors"] = (_AF + [1.0])[: n + 1]
        elif av == "short":
            if n < 2:
                return None
            s["availabilityFactors"] = _AF[: n - 1]
        pf = ab["pf"]
        if pf == "cvar":
            s["powerFractions"] = _PFC[:n]
        elif pf == "rep":
            s["powerFractions"] = [0.5] + (["%dR" % (n - 1)] if n > 1 else [])
        elif pf == "long":
            s["powerFractions"] = (_PFC + [1.0])[: n + 1]
        elif pf == "short":
            if n < 2:
                return None
            s["powerFractions"] = _PFC[: n - 1]
    else:
        kinds = {
            "stepdays": ["sd"] * 3,
            "stepdaysR": ["sdR"] * 3,
            "cumdays": ["cd"] * 3,
            "bslen": ["bl"] * 3,
            "mixed": ["sd", "cd", "bl"],
            "mixed2": ["bl", "sdR", "cd"],
        }[fmt][:n]
        if ab["avail"] in ("rep", "long", "short") or (ab["avail"] == "s0" and set(kinds) != {"bl"}):
            return None  # positive at-power days with zero availability is contradictory input: outside the alphabet
        if ab["clen"] != "s100" and "bl" not in kinds:
            return None
        if ab["clen"] in ("long", "short"):
            return None
        cycles = []
        for i in range(n):
            k = steps[i]
            c = {}
            if fmt.startswith("mixed"):
                c["name"] = "cyc%d" % i
            if kinds[i] == "sd":
                c["step days"] = _DAYS[:k]
            elif kinds[i] == "sdR":
                c["step days"] = _DAYS[:k] if k < 2 else [15.0, "%dR" % (k - 1)]
            elif kinds[i] == "cd":
                c["cumulative days"] = [sum(_DAYS[: j + 1]) for j in range(k)]
            else:
                c["burn steps"] = k
                c["cycle length"] = {"s100": 100.0, "s50": 50.0}.get(ab["clen"], _LEN[i])
            av = ab["avail"]
            if av == "s05":
                c["availability factor"] = 0.5
            elif av == "s0":
                c["availability factor"] = 0.0
            elif av == "lvar":
                c["availability factor"] = _AF[i]
            pf = ab["pf"]
            if pf == "cvar":
                c["power fractions"] = [_PFC[i]] * k
            elif pf == "svar":
                c["power fractions"] = _PFS[:k]
            elif pf == "rep":
                c["power fractions"] = [0.5][:k] if k < 2 else [0.5, "%dR" % (k - 1)]
            elif pf in ("long", "short") and i == n - 1:
                if pf == "short" and k < 2:
                    return None
                c["power fractions"] = (_PFS + [1.0])[: k + 1 if pf == "long" else k - 1]
            cycles.append(c)
        s["cycles"] = cycles
    visited = [(c, nd) for c in range(n) for nd in range(steps[c] + 1)]
    if ab["start"] >= len(visited):
        return None
    s["startCycle"], s["startNode"] = visited[ab["start"]]
    # stack
    order = ab["order"][: ab["nIf"]]
    for L in "ABC":
        if L not in order and ab["p" + L] != "plain":
            return None
    stack = [_profile(NAMES[L], ab["p" + L]) for L in order]
    if ab["dep"] != "none":
        stack[0 if ab["dep"] == "first" else -1]["dependsOn"] = "recD"
    s["tightCoupling"] = bool(ab["tc"])
    s["tightCouplingMaxNumIters"] = ab["maxIters"]
    s["cyclesSkipTightCouplingInteraction"] = {"none": [], "c0": [0], "c1": [1]}[ab["skip"]]
    s["deferredInterfacesCycle"] = ab["defer"]
    s["deferredInterfaceNames"] = [p["name"] for p in stack if p["deferred"]]
    s["tightCouplingSettings"] = {FUNCS[p["name"]]: {"parameter": "power", "convergence": 0.5} for p in stack if p["coupled"] is not None}
    return {"settings": s, "stack": stack, "build": ab["build"]}


def _abstract(devs, base=None):
    ab = dict(BASE)
    ab.update(base or {})
    for d, a in devs:
        ab[d] = a
    return ab


def enumerate_configs(maxdev, base=None, power=1.0e6, seen=None, only_dims=None):
    """All explicit configurations with <= maxdev deviations from the (abstract) base, simplest
    first, de-duplicated by their explicit form."""
    seen = seen if seen is not None else set()
    dims = [d for d in ALTS if only_dims is None or d in only_dims]
    b = _abstract([], base)
    out = []
    for k in range(maxdev + 1):
        for ds in itertools.combinations(dims, k):
            for alts in itertools.product(*[[a for a in ALTS[d] if a != b[d]] for d in ds]):
                devs = list(zip(ds, alts))
                cfg = materialize(_abstract(devs, base), power)
                if cfg is None:
                    continue
                h = core.jhash(cfg)
                if h in seen:
                    continue
                seen.add(h)
                cfg["devs"] = [[d, a] for d, a in devs]
                cfg["ndev"] = k
                out.append(cfg)
    return out


# =============================================================================================
# 2. the reference: history expansion + scheduler (independent of armi, deliberately boring)
# =============================================================================================


def ref_floats(v):
    """'R' repeat syntax: [150, 200, '2R'] = 150, 200, 200, 200."""
    out = []
    for x in v:
        if isinstance(x, str) and x.strip().upper().endswith("R"):
            out += [out[-1]] * int(x.strip()[:-1])
        else:
            out.append(float(x))
    return out


def ref_history(s):
    """settings -> ([{steps, pf, af, L, name}], None) or (None, reason the input must be refused)."""
    n = s["nCycles"]
    H = []
    if s.get("cycles"):
        if len(s["cycles"]) != n:
            return None, "cycles-length"
        for c in s["cycles"]:
            af = float(c.get("availability factor", 1.0))
            if "step days" in c:
                steps = ref_floats(c["step days"])
                L = sum(steps) / af
            elif "cumulative days" in c:
                cd = [0.0] + [float(x) for x in c["cumulative days"]]
                steps = [b - a for a, b in zip(cd, cd[1:])]
                L = sum(steps) / af
            else:
                k, L = int(c["burn steps"]), float(c["cycle length"])
                steps = [L * af / k] * k if k else []
            pf = ref_floats(c["power fractions"]) if "power fractions" in c else [1.0] * len(steps)
            if len(pf) != len(steps):
                return None, "power-fractions-length"
            H.append({"steps": steps, "pf": pf, "af": af, "L": L, "name": c.get("name")})
        return H, None
    k = int(s.get("burnSteps", 4))
    Ls = ref_floats(s["cycleLengths"]) if s.get("cycleLengths") else [float(s.get("cycleLength", 365.242199))] * n
    afs = ref_floats(s["availabilityFactors"]) if s.get("availabilityFactors") else [float(s.get("availabilityFactor", 1.0))] * n
    pfs = ref_floats(s["powerFractions"]) if s.get("powerFractions") else [1.0] * n
    for nm, v in (("cycleLengths", Ls), ("availabilityFactors", afs), ("powerFractions", pfs)):
        if len(v) != n:
            return None, nm + "-length"
    if k == 0 and n > 1:
        return None, "multi-cycle-zero-burn-steps"  # documented restriction of the simple input
    for i in range(n):
        H.append({"steps": [Ls[i] * afs[i] / k] * k if k else [], "pf": [pfs[i]] * k, "af": afs[i], "L": Ls[i], "name": None})
    return H, None


def ref_active(stack, event, cycle, defer_cycle, excluded=()):
    """names of the interfaces to be called at ``event``, in call order."""
    act = []
    for p in stack:
        on = p["enabled"] or (event == "BOL" and p["bolForce"])
        if event == "BOL" and p["deferred"]:
            on = False
        if event == "BOC" and p["deferred"] and cycle < defer_cycle:
            on = False
        if event in ("BOL", "EveryNode", "EOC", "EOL") and p["name"] in excluded:
            on = False
        if on:
            act.append(p)
    if event == "EOL":
        act = [p for p in act if not p["reverseAtEOL"]] + [p for p in reversed(act) if p["reverseAtEOL"]]
    return act


def _conv_iter(p, cycle, node):
    j = p["coupled"]
    if j == "never":
        return 10**9
    if j == "alt":
        return 1 + (cycle + node) % 3
    return j


def reference(cfg, H):
    """Expected trace: list of records {i,e,a,cycle,node,step,power,it,L,af}; None = unconstrained."""
    s = cfg["settings"]
    stack = list(cfg["stack"])
    for p in cfg["stack"]:
        if p.get("dependsOn"):  # dependencies are attached at the end, disabled, forced at BOL
            stack.append(dict(_profile(p["dependsOn"], "disabled+bolForce")))
    real = cfg.get("kind") == "db"  # real MainInterface/DatabaseInterface around the recorders (not recorded)
    if s["tightCoupling"] and not real:
        stack.append(_profile("database", "plain"))
    defer = s["deferredInterfacesCycle"]
    P = s["power"] or s["powerDensity"] * cfg["hmMass"]  # rated power: given, or power density x heavy-metal mass
    c0, n0 = s["startCycle"], s["startNode"]
    T = []

    def emit(event, args, cyc_, **kw):
        halted = False
        for p in ref_active(stack, event, cyc_, defer):
            T.append(dict({"i": p["name"], "e": event, "a": list(args)}, **kw))
            halted = halted or (event == "BOC" and p["haltAt"] == cyc_)
        return halted

    if real and n0 == 0 and c0 > 0:
        # documented restart prologue (MainInterface.interactBOL): the state loaded from the database is the
        # last node of the previous cycle *before* its end-of-cycle interactions, which are therefore run now
        emit("EOC", [c0 - 1], c0 - 1, cycle=c0 - 1, node=len(H[c0 - 1]["steps"]))
    emit("BOL", [], c0, cycle=c0, node=n0)
    last = (c0, n0)
    for c in range(c0, s["nCycles"]):
        h = H[c]
        first = n0 if c == c0 else 0
        last = (c, first)
        cyc = {"cycle": c, "L": h["L"], "af": h["af"]}
        if emit("BOC", [c], c, node=first, it=0, **cyc):
            break
        k = len(h["steps"])
        for nd in range(first, k + 1):
            st = dict(cyc, node=nd, power=P * (h["pf"][min(nd, k - 1)] if k else 1.0), step=h["steps"][nd] if nd < k else None)
            emit("EveryNode", [c, nd], c, **st)
            if s["tightCoupling"]:
                if c not in s["cyclesSkipTightCouplingInteraction"]:
                    couplers = [p for p in ref_active(stack, "Coupled", c, defer) if p["coupled"] is not None]
                    need = max([_conv_iter(p, c, nd) for p in couplers] + [1])
                    for it in range(min(need, s["tightCouplingMaxNumIters"])):
                        emit("Coupled", [it], c, it=it + 1, **st)
                if not real:
                    T.append(dict({"i": "database", "e": "writeDB", "a": []}, **st))
            last = (c, nd)
        emit("EOC", [c], c, node=k, **cyc)
    emit("EOL", [], 0, cycle=last[0], node=last[1])
    return T


# =============================================================================================
# 3. the driver: real Operator, recording interfaces
# =============================================================================================

_CUR = {"trace": None}
_CLS = {}


def _classes():
    if _CLS:
        return _CLS
    from armi import interfaces

    class _Rec(interfaces.Interface):
        name = None
        prof = None
        value = 0.0

        def _rec(self, ev, args):
            r = self.r
            _CUR["trace"].append(
                {
                    "i": self.name,
                    "e": ev,
                    "a": [int(x) for x in args],
                    "cycle": r.p.cycle,
                    "node": r.p.timeNode,
                    "step": r.p.stepLength,
                    "power": r.core.p.power,
                    "it": r.core.p.coupledIteration,
                    "L": r.p.cycleLength,
                    "af": r.p.availabilityFactor,
                }
            )
            if self.prof and self.prof["truthy"] == ev:
                return "done"  # an interface that happens to return something
            return None

        def interactBOL(self):
            return self._rec("BOL", [])

        def interactBOC(self, cycle=None):
            self._rec("BOC", [cycle])
            if self.prof and self.prof["haltAt"] == cycle:
                return True  # the documented way to request a halt
            return None

        def interactEveryNode(self, cycle, node):
            return self._rec("EveryNode", [cycle, node])

        def interactCoupled(self, iteration):
            out = self._rec("Coupled", [iteration])
            if self.prof and self.prof["coupled"] is not None:
                if iteration + 1 < _conv_iter(self.prof, self.r.p.cycle, self.r.p.timeNode):
                    self.value += 1.0  # not converged yet: the coupled value still moves
            return out

        def getTightCouplingValue(self):
            return float(self.value)

        def interactEOC(self, cycle=None):
            return self._rec("EOC", [cycle])

        def interactEOL(self):
            return self._rec("EOL", [])

    for nm, fn in FUNCS.items():
        _CLS[nm] = type("Rec_" + nm, (_Rec,), {"name": nm, "function": fn})

    class _RecDB(_Rec):
        name = "database"
        function = None

        def writeDBEveryNode(self):
            self._rec("writeDB", [])

    _CLS["database"] = _RecDB
    return _CLS


_SPEC = []


def _spec():
    if not _SPEC:
        from mcverif import build

        _SPEC.append(build.hex_spec(rings=1, third=False, two_designs=False, sfp=False))
    return _SPEC[0]


def _armi_frame(tb):
    fn = "?"
    for fr in traceback.extract_tb(tb):
        if "/armi/" in fr.filename.replace("\\", "/"):
            fn = fr.name
    return fn


def _drive(cfg, cs, r, cls, obs):
    from armi.operators.operator import Operator

    s = cfg["settings"]
    real = cfg.get("kind") == "db"
    obs["hmMass"] = float(r.core.getHMMass())
    o = Operator(cs)
    o.r = r
    r.o = o
    if real:
        from armi.bookkeeping.mainInterface import MainInterface

        o.addInterface(MainInterface(r, cs), reverseAtEOL=True)  # as bookkeeping.describeInterfaces registers it
    made = []
    for p in cfg["stack"]:
        i = cls[p["name"]](r, cs)
        i.prof = p
        if p.get("dependsOn"):
            i.getDependencies = lambda _cs, k=cls[p["dependsOn"]]: [k]
        made.append((i, p))
    kw = lambda p: {"reverseAtEOL": p["reverseAtEOL"], "enabled": p["enabled"], "bolForce": p["bolForce"]}
    if cfg.get("build") == "insert0":
        for i, p in reversed(made):
            o.addInterface(i, index=1 if real else 0, **kw(p))
    else:
        for i, p in made:
            o.addInterface(i, **kw(p))
    if any(p.get("dependsOn") for p in cfg["stack"]):
        o._processInterfaceDependencies()
    if real:
        from armi.bookkeeping.db.databaseInterface import DatabaseInterface

        o.addInterface(DatabaseInterface(r, cs))
    elif s["tightCoupling"]:
        o.addInterface(cls["database"](r, cs))
    obs["stack"] = [i.name for i in o.getInterfaces()]
    obs["couplers"] = [i.name for i in o.getInterfaces() if i.coupler is not None]
    # active-interface selection, queried directly (exclusions cannot be reached through operate())
    act = {}
    for ev in EVENTS:
        for ex in ((), ("recA",), ("recB", "recC")):
            for cyc in (0, 1, 2):
                act["%s|%s|%d" % (ev, ",".join(ex), cyc)] = [i.name for i in o.getActiveInterfaces(ev, excludedInterfaceNames=ex, cycle=cyc)]
    obs["active"] = act
    o.operate()
    if real:
        from armi.bookkeeping.db import Database

        o.getInterface("database").database.close()
        with Database(cs.caseTitle + ".h5", "r") as db:
            nodes = [list(x) for x in db.genTimeSteps()]
            # the end-of-life snapshot is stored under the last node's stamp + "EOL" and is listed again
            obs["dbnodes"] = [x for k, x in enumerate(nodes) if k == 0 or x != nodes[k - 1]]


def _quiet_banner():
    """Operator.__init__ prints a machine-information banner that spawns four shell subprocesses
    (hostname, uname, lscpu-like queries) - half the cost of a run and irrelevant to scheduling."""
    from armi.bookkeeping.report import reportingUtils

    if getattr(reportingUtils, "_c15_quiet", False):
        return
    reportingUtils.getSystemInfo = lambda: ""
    reportingUtils.getNodeName = lambda: "verif"
    reportingUtils._c15_quiet = True


def execute(cfg):
    """Run one explicit configuration on the real operator.  Returns a JSON-able observation."""
    from armi import context
    from mcverif import build

    _classes()
    _quiet_banner()
    d = env.fresh_dir("c15")
    old_cwd, old_app = os.getcwd(), context.APP_DATA
    os.chdir(d)
    context.APP_DATA = d  # Operator.__init__ creates its fast path below APP_DATA (default /tmp/.armi)
    try:
        if cfg.get("kind") == "reuse":
            return _execute_reuse(cfg)
        if cfg.get("kind") != "db":
            return _execute_one(cfg, {})
        # restart through the real MainInterface + DatabaseInterface: a complete first run writes the
        # database, the run under test restarts from it
        with open("bp.yaml", "w") as f:
            f.write(build.render(build.normalize(_spec())))
        first = dict(cfg, settings=dict(cfg["settings"], startCycle=0, startNode=0))
        o1 = _execute_one(first, {"db": True, "loadingFile": "bp.yaml"}, title="first")
        if o1["status"] != "ok" or (cfg["settings"]["startCycle"], cfg["settings"]["startNode"]) == (0, 0):
            return o1
        o2 = _execute_one(cfg, {"db": True, "loadingFile": "bp.yaml", "loadStyle": "fromDB", "reloadDBName": os.path.join(d, "first.h5")}, title="second")
        o2["first"] = o1
        return o2
    finally:
        _CUR["trace"] = None
        os.chdir(old_cwd)
        context.APP_DATA = old_app
        shutil.rmtree(d, ignore_errors=True)


_QUIET = {"inputHeightsConsideredHot": True, "db": False, "verbosity": "error", "branchVerbosity": "error"}


def _execute_one(cfg, extra, title=None, cs=None):
    import random

    from armi import settings as S
    from mcverif import build

    cls = _classes()
    obs = {"trace": [], "status": "ok"}
    _CUR["trace"] = obs["trace"]
    s = dict(cfg["settings"])
    new = dict(_QUIET)
    new.update(s)
    new.update(extra)
    try:
        cs = cs if cs is not None else S.Settings().modified(newSettings=new)
    except Exception as e:  # schema refusal
        obs["status"] = "settings-refused"
        obs["exc"] = [type(e).__name__, str(e)[:300], _armi_frame(e.__traceback__)]
        return obs
    if title:
        cs.path = os.path.join(os.getcwd(), title + ".yaml")
    random.seed(0)
    r = build.reactor(_spec(), cs)
    if cfg.get("kind") != "db":
        # what MainInterface.interactBOL does for a restart: continue at (startCycle, startNode)
        r.p.cycle, r.p.timeNode = s["startCycle"], s["startNode"]
    try:
        _drive(cfg, cs, r, cls, obs)
    except Exception as e:
        obs["status"] = "raised"
        obs["exc"] = [type(e).__name__, str(e)[:300], _armi_frame(e.__traceback__)]
    obs["conv"] = _conversions(cs)
    return obs


def _conversions(cs):
    """Query the armi.utils cycle arithmetic for this settings object (values only, judged later)."""
    from armi import utils

    out = {}

    def q(name, f):
        try:
            v = f()
            out[name] = json.loads(json.dumps(v))
        except Exception as e:
            out[name] = {"raised": type(e).__name__, "in": _armi_frame(e.__traceback__), "msg": str(e)[:200]}

    q("burnSteps", lambda: utils.getBurnSteps(cs))
    q("nodesPerCycle", lambda: utils.getNodesPerCycle(cs))
    q("stepLengths", lambda: utils.getStepLengths(cs))
    q("cycleLengths", lambda: utils.getCycleLengths(cs))
    q("availabilityFactors", lambda: utils.getAvailabilityFactors(cs))
    q("powerFractions", lambda: utils.getPowerFractions(cs))
    q("cycleNames", lambda: utils.getCycleNames(cs))
    q("maxBurnSteps", lambda: utils.getMaxBurnSteps(cs))
    q("hasBurnup", lambda: bool(utils.hasBurnup(cs)))
    bs = out["burnSteps"]
    if isinstance(bs, list) and len(bs) == cs["nCycles"]:
        nodes = [(c, n) for c in range(len(bs)) for n in range(bs[c] + 1)]
        q("cumNode", lambda: [utils.getCumulativeNodeNum(c, n, cs) for c, n in nodes])
        q("fromCumNode", lambda: [list(utils.getCycleNodeFromCumulativeNode(k, cs)) for k in range(len(nodes))])
        q("fromCumStep", lambda: [list(utils.getCycleNodeFromCumulativeStep(k, cs)) for k in range(1, sum(bs) + 1)])
        q("prev", lambda: [list(utils.getPreviousTimeNode(c, n, cs)) for c, n in nodes[1:]])
        q("prev00", lambda: utils.getPreviousTimeNode(0, 0, cs))
        q("fromCumNode-1", lambda: utils.getCycleNodeFromCumulativeNode(-1, cs))
        q("fromCumStep0", lambda: utils.getCycleNodeFromCumulativeStep(0, cs))
    return out


# ---------------------------------------------------------------------------------------------
# re-use search: ONE Settings object taken through a sequence of cycle histories (in-place
# assignment, or cs.modified copies of a used source); every conversion helper is called after each
# change and must answer for the CURRENT history.

HIST_KEYS = ("nCycles", "burnSteps", "cycleLength", "cycleLengths", "availabilityFactor", "availabilityFactors", "powerFractions", "cycles")
HIST_DIMS = ("fmt", "nCycles", "steps", "avail", "pf", "clen")
_PLAIN_STACK = [_profile(NAMES[L], "plain") for L in "ABC"]


def _step_cfg(cfg, k):
    """the ordinary explicit configuration that step k of a re-use sequence stands for."""
    return {"settings": dict(cfg["other"], **cfg["seq"][k]), "stack": _PLAIN_STACK, "build": "append"}


def _assign_history(cs, h):
    """in-place assignment of every history setting (absent = the setting's default); reading a simple
    history setting back is refused by Settings while detailed cycles are entered, so nothing is compared."""
    for key in HIST_KEYS:
        cs[key] = h[key] if key in h else cs.getSetting(key).default


def _execute_reuse(cfg):
    from armi import settings as S

    cs = S.Settings().modified(newSettings=dict(_QUIET, **cfg["other"]))
    out = []
    n = len(cfg["seq"])
    for k, h in enumerate(cfg["seq"]):
        src = None
        if cfg["mode"] == "inplace" or k == 0:
            _assign_history(cs, h)
        else:
            src = cs
            cs = src.modified(newSettings={key: (h[key] if key in h else src.getSetting(key).default) for key in HIST_KEYS})
        if cfg.get("run") and k == n - 1:
            o = _execute_one(_step_cfg(cfg, k), {}, cs=cs)  # a complete operator run on the re-used object
        else:
            o = {"status": "norun", "trace": [], "conv": _conversions(cs)}
        if src is not None:
            o["source_conv"] = _conversions(src)  # the copy must not have disturbed its source either
        out.append(o)
    return {"status": "reuse", "trace": [], "steps": out}


def _judge_reuse(cfg, obs):
    vs, events = [], 0
    case = {k: cfg[k] for k in ("kind", "mode", "seq", "other", "run") if k in cfg}
    seqtxt = " -> ".join(json.dumps(h, sort_keys=True) for h in cfg["seq"])
    tag = "reused-settings" if cfg["mode"] == "inplace" else "modified-copy"
    for k, o in enumerate(obs["steps"]):
        sc = _step_cfg(cfg, k)
        H, refuse = ref_history(sc["settings"])
        where = "step %d of ONE Settings object taken through the histories %s (%s)" % (k, seqtxt, "assigned in place" if cfg["mode"] == "inplace" else "cs.modified copy of the used object")
        got = []
        if o["status"] != "norun":
            got, info = judge(sc, o)
            events += info["events"]
        elif not refuse:
            got = _judge_conversions(sc, H, o, case, where)
        for v in got:
            vs.append(core.viol(v["key"].replace("c15/", "c15/%s-" % tag, 1), v["msg"].split(" :: ")[0] + " :: " + where, case))
        if "source_conv" in o and k > 0:
            sp = _step_cfg(cfg, k - 1)
            Hs, rs = ref_history(sp["settings"])
            if not rs:
                for v in _judge_conversions(sp, Hs, {"status": "norun", "trace": [], "conv": o["source_conv"]}, case, where):
                    vs.append(core.viol(v["key"].replace("c15/", "c15/modified-source-", 1), v["msg"].split(" :: ")[0] + " (asked of the SOURCE after copying) :: " + where, case))
        if vs:
            break
    return vs, {"refused": False, "events": events}


def _histories(power):
    """history settings with <= 1 history deviation from the base plus three detailed multi-deviation ones."""
    devss = [[]] + [[(d, a)] for d in HIST_DIMS for a in ALTS[d]]
    devss += [[("fmt", "mixed"), ("nCycles", 3), ("steps", "v102")], [("fmt", "mixed2"), ("nCycles", 3), ("steps", "v310")], [("fmt", "bslen"), ("steps", "u0")], [("nCycles", 1), ("steps", "u0")]]
    out, seen = [], set()
    for devs in devss:
        cfg = materialize(_abstract(devs), power)
        if cfg is None:
            continue
        h = {k: cfg["settings"][k] for k in HIST_KEYS if k in cfg["settings"]}
        if core.jhash(h) not in seen:
            seen.add(core.jhash(h))
            out.append(h)
    return out


def _reuse_configs(ctx, power):
    hs = _histories(power)
    base = materialize(_abstract([]), power)
    other = {k: v for k, v in base["settings"].items() if k not in HIST_KEYS}
    valid = [h for h in hs if not ref_history(dict(other, **h))[1]]
    core_set = [hs[0]] + [h for h in valid if h.get("burnSteps") == 3 or h.get("nCycles") == 3][:3] + [h for h in hs if h not in valid][:1] + [h for h in valid if h.get("cycles")][:1]
    out = []
    # one representative history per node layout (steps per cycle): the operator run after a change is
    # made for these targets in quick (conversions are asked after EVERY change), for every target in thorough
    layouts = {}
    for h in valid:
        layouts.setdefault(tuple(len(c["steps"]) for c in ref_history(dict(other, **h))[0]), h)
    run_set = list(layouts.values()) if ctx.quick else valid
    copy_set = core_set if ctx.quick else hs

    def add(mode, seq, run):
        out.append({"kind": "reuse", "mode": mode, "seq": list(seq), "other": other, "run": run, "settings": dict(other, **seq[-1]), "stack": _PLAIN_STACK, "devs": [["reuse", mode, len(seq)]], "ndev": -3})

    for a in hs:
        for b in hs:
            if a is not b:
                add("inplace", [a, b], any(b is x for x in run_set))
                if any(a is x for x in copy_set) or any(b is x for x in copy_set):
                    add("modified", [a, b], False)
    third = core_set if ctx.quick else hs
    for a in third:
        for b in third:
            for c in third:
                if a is not b and b is not c:  # c may be a again: back to an earlier history
                    add("inplace", [a, b, c], (not ctx.quick) and any(c is x for x in valid))
    return out


# =============================================================================================
# 4. the oracle
# =============================================================================================


def _close(a, b):
    try:
        return abs(float(a) - float(b)) <= RTOL * max(1.0, abs(float(a)), abs(float(b)))
    except (TypeError, ValueError):
        return False


def _closel(a, b):
    return isinstance(a, list) and isinstance(b, list) and len(a) == len(b) and all((_closel(x, y) if isinstance(y, list) else _close(x, y)) for x, y in zip(a, b))


def _short(cfg):
    s = cfg["settings"]
    hist = s["cycles"] if s.get("cycles") else {k: s[k] for k in ("burnSteps", "cycleLength", "cycleLengths", "availabilityFactor", "availabilityFactors", "powerFractions") if k in s}
    st = []
    for p in cfg["stack"]:
        fl = [k for k in ("bolForce", "reverseAtEOL", "deferred") if p[k]] + ([] if p["enabled"] else ["disabled"])
        fl += ["%s=%s" % (k, p[k]) for k in ("haltAt", "coupled", "truthy", "dependsOn") if p.get(k) is not None]
        st.append(p["name"] + ("[" + ",".join(fl) + "]" if fl else ""))
    tc = "tightCoupling(maxIters=%s,skip=%s)" % (s["tightCouplingMaxNumIters"], s["cyclesSkipTightCouplingInteraction"]) if s["tightCoupling"] else "no coupling"
    return "nCycles=%d history=%s start=(%d,%d) stack=%s %s deferCycle=%s" % (s["nCycles"], json.dumps(hist), s["startCycle"], s["startNode"], st, tc, s["deferredInterfacesCycle"])


def _sig(rec):
    return (rec["i"], rec["e"], tuple(rec["a"]))


def _fmt(rec):
    return "none" if rec is None else "%s.%s%s@c%sn%s" % (rec["i"], rec["e"], tuple(rec["a"]), rec.get("cycle"), rec.get("node"))


def judge(cfg, obs):
    """Compare one observation with the reference.  Returns (violations, info)."""
    vs = []
    case = {k: cfg[k] for k in ("settings", "stack", "build", "kind") if k in cfg}
    where = _short(cfg)
    real = cfg.get("kind") == "db"

    def bad(key, msg):
        vs.append(core.viol("c15/" + key, msg + " :: " + where, case))

    s = cfg["settings"]
    H, refuse = ref_history(s)
    info = {"refused": bool(refuse), "events": 0}
    if real and obs.get("first"):
        # the complete first run that wrote the restart database is judged like any other run
        v1, i1 = judge(dict(cfg, settings=dict(s, startCycle=0, startNode=0)), obs["first"])
        if v1:
            return v1, i1
        info["events"] += i1["events"]
    if obs["status"] == "settings-refused":
        bad("settings-refused-" + obs["exc"][0], "the settings object refuses a cycle history of the alphabet: %s" % obs["exc"][1])
        return vs, info
    # --- refusals
    if refuse:
        if obs["status"] == "ok":
            bad("inconsistent-history-not-refused-" + refuse, "the run completed (%d events) although the cycle history is inconsistent (%s)" % (len(obs["trace"]), refuse))
        elif obs["exc"][0] != "ValueError":
            bad("inconsistent-history-raises-%s-%s" % (obs["exc"][0], refuse), "inconsistent cycle history (%s) is not refused with ValueError but %s in %s: %s" % (refuse, obs["exc"][0], obs["exc"][2], obs["exc"][1]))
        return vs, info
    if obs["status"] == "raised":
        tags = ""
        if any("burn steps" in c and not c["burn steps"] for c in s.get("cycles") or []):
            tags += "-with-zero-burn-steps-cycle"
        if any(h["af"] == 0 for h in H):
            tags += "-with-zero-availability"
        if s["tightCoupling"] and s["tightCouplingMaxNumIters"] == 0:
            tags += "-with-zero-iteration-cap"
        bad("run-raises-%s-in-%s%s" % (obs["exc"][0], obs["exc"][2], tags), "the run raised %s in %s: %s (after %d hook events)" % (obs["exc"][0], obs["exc"][2], obs["exc"][1], len(obs["trace"])))
        vs += _judge_conversions(cfg, H, obs, case, where)
        return vs, info
    # --- stack construction and active-interface selection
    stack = list(cfg["stack"])
    exp_stack = [p["name"] for p in stack] + [p["dependsOn"] for p in stack if p.get("dependsOn")] + (["database"] if s["tightCoupling"] and not real else [])
    if real:
        # real MainInterface first, dependencies are attached before the driver adds the database interface last
        exp_stack = ["main"] + exp_stack + ["database"]
    if obs.get("stack") != exp_stack:
        bad("stack-construction", "stack is %s, expected %s" % (obs.get("stack"), exp_stack))
        return vs, info
    full = stack + [_profile(p["dependsOn"], "disabled+bolForce") for p in stack if p.get("dependsOn")] + ([_profile("database", "plain")] if s["tightCoupling"] and not real else [])
    if real:
        # main is flagged reverse-at-EOL and sits first: it must come out last at EOL
        full = [_profile("main", "reverseAtEOL")] + full + [_profile("database", "plain")]
    exp_couplers = [p["name"] for p in full if p["coupled"] is not None and s["tightCoupling"]]
    if obs.get("couplers") != exp_couplers:
        bad("couplers", "interfaces owning a coupler: %s, expected %s" % (obs.get("couplers"), exp_couplers))
    for key, got in sorted(obs.get("active", {}).items()):
        ev, ex, cyc = key.split("|")
        ex = tuple(x for x in ex.split(",") if x)
        if ev in ("BOC", "Coupled") and ex:
            continue  # these events take no exclusion list in the operator's public interactAll* methods
        want = [p["name"] for p in ref_active(full, ev, int(cyc), s["deferredInterfacesCycle"], ex)]
        if got != want:
            bad("active-interfaces-" + ev, "getActiveInterfaces(%s, excluded=%s, cycle=%s) = %s, expected %s" % (ev, list(ex), cyc, got, want))
            break
    # --- trace, element by element
    E, O = reference(dict(cfg, hmMass=obs.get("hmMass")), H), obs["trace"]
    info["events"] += len(E)
    i = 0
    while i < len(E) and i < len(O) and _sig(E[i]) == _sig(O[i]):
        i += 1
    if i < len(E) or i < len(O):
        e = E[i] if i < len(E) else None
        o = O[i] if i < len(O) else None
        restE, restO = [_sig(x) for x in E[i:]], [_sig(x) for x in O[i:]]
        if e is not None and restO.count(_sig(e)) < restE.count(_sig(e)):
            kind, ev = "missing-call", e["e"]
        elif o is not None and restO.count(_sig(o)) > restE.count(_sig(o)):
            kind, ev = "extra-call", o["e"]
        else:
            kind, ev = "order", (e or o)["e"]
        key = "trace-%s-%s" % (kind, ev)
        why = ""
        if kind == "missing-call":
            # did an earlier interface of this very event return something truthy?
            j = i - 1
            while j >= 0 and O[j]["e"] == e["e"] and O[j]["a"] == e["a"]:
                p = [q for q in full if q["name"] == O[j]["i"]][0]
                if (e["e"] == "BOC" and p["haltAt"] == e["a"][0]) or p["truthy"] == e["e"]:
                    key = "halt-request-at-BOC-skips-later-interfaces" if e["e"] == "BOC" and p["haltAt"] == e["a"][0] else "truthy-return-skips-later-interfaces"
                    why = " (after %s returned a truthy value from the same event)" % O[j]["i"]
                    break
                j -= 1
        bad(key, "event %d: expected %s, observed %s%s; expected %d events, observed %d" % (i, _fmt(e), _fmt(o), why, len(E), len(O)))
    else:
        found = False
        for k, (e, o) in enumerate(zip(E, O)):
            for f in ("cycle", "node", "it", "step", "power", "L", "af"):
                if e.get(f) is None:
                    continue
                ok = (e[f] == o[f]) if f in ("cycle", "node", "it") else _close(e[f], o[f])
                if not ok:
                    nm = {"cycle": "r.p.cycle", "node": "r.p.timeNode", "it": "coupledIteration", "step": "r.p.stepLength", "power": "core.p.power", "L": "r.p.cycleLength", "af": "r.p.availabilityFactor"}[f]
                    bad("state-%s-at-%s" % (f, e["e"]), "event %d %s: %s is %r, expected %r" % (k, _fmt(o), nm, o[f], e[f]))
                    found = True
                    break
            if found:
                break
    if real and "dbnodes" in obs:
        want = [[c, n] for c in range(s["nCycles"]) for n in range(len(H[c]["steps"]) + 1)]
        if obs["dbnodes"] != want:
            bad("database-time-nodes", "the database written by the run holds time nodes %s, the run (with the merged restart history) visited %s" % (obs["dbnodes"], want))
    vs += _judge_conversions(cfg, H, obs, case, where)
    return vs, info


def _judge_conversions(cfg, H, obs, case, where):
    vs = []
    cv = obs.get("conv") or {}

    def bad(key, msg):
        vs.append(core.viol("c15/" + key, msg + " :: " + where, case))

    run_exc = tuple(obs["exc"][::2]) if obs.get("exc") else None
    for name, v in cv.items():
        if isinstance(v, dict) and "raised" in v and name not in ("prev00", "fromCumNode-1", "fromCumStep0"):
            if (v["raised"], v["in"]) != run_exc and not vs:  # else: the same failure the run already reported
                bad("conv-raises-%s-in-%s" % (v["raised"], v["in"]), "armi.utils cycle arithmetic (%s) raised %s in %s: %s" % (name, v["raised"], v["in"], v["msg"]))
            return vs
    steps = [len(h["steps"]) for h in H]
    nodes = [(c, n) for c in range(len(H)) for n in range(steps[c] + 1)]
    want = {
        "burnSteps": steps,
        "nodesPerCycle": [k + 1 for k in steps],
        "maxBurnSteps": max(steps),
        "hasBurnup": sum(steps) > 0,
        "cycleNames": [h["name"] for h in H],
        "cumNode": list(range(len(nodes))),
        "fromCumNode": [list(x) for x in nodes],
        "fromCumStep": [[c, n] for c in range(len(H)) for n in range(steps[c])],
        "prev": [list(x) for x in nodes[:-1]],
    }
    for name, w in want.items():
        if cv.get(name) != w:
            bad("conv-" + name, "armi.utils %s gives %s, expected %s (burn steps per cycle %s)" % (name, cv.get(name), w, steps))
    for name in ("prev00", "fromCumNode-1", "fromCumStep0"):
        v = cv.get(name)
        if not (isinstance(v, dict) and v.get("raised") == "ValueError"):
            bad("conv-%s-not-refused" % name, "out-of-range argument is not refused with ValueError: %s" % (v,))
    zero_simple = not cfg["settings"].get("cycles") and steps == [0]
    fl = {"stepLengths": [h["steps"] for h in H], "powerFractions": [h["pf"] for h in H], "availabilityFactors": [h["af"] for h in H], "cycleLengths": [h["L"] for h in H]}
    for name, w in fl.items():
        if not _closel(cv.get(name), w):
            bad("conv-" + name, "armi.utils %s gives %s, expected %s" % (name, cv.get(name), w))
    sl, cl, af = cv.get("stepLengths"), cv.get("cycleLengths"), cv.get("availabilityFactors")
    if isinstance(sl, list) and isinstance(cl, list) and isinstance(af, list) and len(sl) == len(cl) == len(af) and not zero_simple:
        for c in range(len(sl)):
            if sl[c] and not _close(sum(sl[c]), af[c] * cl[c]):  # a cycle without steps has no at-power time to account for
                bad("steps-sum-availability-times-length", "cycle %d: sum(stepLengths)=%r but availability x cycle length = %r x %r" % (c, sum(sl[c]), af[c], cl[c]))
    # the conversions number the nodes in the order the run visited them
    if obs["status"] == "ok" and isinstance(cv.get("cumNode"), list):
        s = cfg["settings"]
        seq = []
        for r in obs["trace"]:
            if r["e"] == "EveryNode" and (not seq or seq[-1] != r["a"]):
                seq.append(r["a"])
        try:
            k0 = nodes.index((s["startCycle"], s["startNode"]))
            for j, (c, n) in enumerate(seq):
                if cv["cumNode"][nodes.index((c, n))] != k0 + j or cv["fromCumNode"][k0 + j] != [c, n]:
                    bad("conv-visit-order", "the %d-th node visited by the run is (%d,%d) but the conversions number it %s / name node %d as %s" % (j, c, n, cv["cumNode"][nodes.index((c, n))], k0 + j, cv["fromCumNode"][k0 + j]))
                    break
        except (ValueError, IndexError):
            bad("conv-visit-order", "the run visited nodes %s that the node numbering %s does not contain" % (seq, nodes))
    return vs


# =============================================================================================
# 5. check entry points
# =============================================================================================


def run_one(cfg):
    obs = execute(cfg)
    vs, info = _judge_reuse(cfg, obs) if cfg.get("kind") == "reuse" else judge(cfg, obs)
    info["digest"] = core.jhash([[_sig(r), r["cycle"], r["node"]] for r in obs["trace"]])
    info["status"] = obs["status"] if not info["refused"] else "refused"
    info["observed"] = len(obs["trace"])
    hist = {}
    for r in obs["trace"]:
        hist[r["e"]] = hist.get(r["e"], 0) + 1
    info["hist"] = hist
    return {"viols": vs[:6], "info": info}


def evaluate(case):
    return run_one(case)["viols"]


def _product_configs(ctx, power, seen):
    """thorough: the full product of interface profiles for 3-interface stacks x a few histories."""
    out = []
    profs = ["plain"] + PROFILES
    for hname, hb in (("2x2", {}), ("detailed", {"fmt": "mixed", "nCycles": 3, "steps": "v102"})):
        for tc in (False, True):
            for pa, pb, pc in itertools.product(profs, repeat=3):
                ab = _abstract([], dict(hb, tc=tc, pA=pa, pB=pb, pC=pc))
                cfg = materialize(ab, power)
                h = core.jhash(cfg)
                if h in seen:
                    continue
                seen.add(h)
                cfg["devs"] = [["product", hname], ["tc", tc], ["pA", pa], ["pB", pb], ["pC", pc]]
                cfg["ndev"] = -1
                out.append(cfg)
    return out


DB_BASES = {
    "2x2": {"pA": "reverseAtEOL"},
    "detailed": {"fmt": "mixed", "nCycles": 3, "steps": "v102", "pB": "disabled+bolForce"},
    "coupled": {"tc": True, "maxIters": 2, "pC": "coupled:2", "skip": "c1"},
}
DB_DIMS = ["pA", "pB", "pC", "order", "defer", "build", "dep"]


def _db_configs(ctx, power):
    """Restarts through the real MainInterface + DatabaseInterface (loadStyle fromDB): every restart
    point of three bases; thorough adds one further stack deviation."""
    out, seen = [], set()
    for name, b in DB_BASES.items():
        for k in range(0, 12):
            got = enumerate_configs(0 if ctx.quick else 1, dict(b, start=k), power, seen, only_dims=DB_DIMS)
            for c in got:
                if any(p["haltAt"] is not None or p["truthy"] for p in c["stack"]):
                    continue  # halting / value-returning interfaces are covered by the bare-operator runs
                c["kind"] = "db"
                c["devs"] = [["db-restart", name], ["start", k]] + c["devs"]
                c["ndev"] = -2
                out.append(c)
    return out


def configs(ctx):
    power = 1.0e6 * (1 + ctx.seed % 3)  # any positive rated power is an equivalent representative
    seen = set()
    radius = 2 if ctx.quick else 3
    cfgs = enumerate_configs(radius, None, power, seen)
    for name, b in SECONDARY.items():
        extra = enumerate_configs(radius - 1, b, power, seen)
        for c in extra:
            c["devs"] = [["base", name]] + c["devs"]
        cfgs += extra
    if not ctx.quick:
        cfgs += _product_configs(ctx, power, seen)
    cfgs += _db_configs(ctx, power)
    cfgs += _reuse_configs(ctx, power)
    return cfgs


def run(ctx):
    cfgs = configs(ctx)
    ctx.log("%d configurations" % len(cfgs))
    todo = ctx.order(cfgs)
    res = core.pmap(MOD, "run_one", todo)
    events = 0
    digests = set()
    for cfg, r in zip(todo, res):
        info = r["info"]
        events += info["events"]
        digests.add(info["digest"])
        ctx.count("configs_%s" % ({-1: "full_product", -2: "db_restart", -3: "settings_reuse_sequences"}.get(cfg["ndev"], "with_%s_deviations" % cfg["ndev"])))
        ctx.count("status_" + info["status"])
        for e, n in info["hist"].items():
            ctx.count("observed_" + e, n)
        ctx.add_violations(r["viols"])
    pick = [c for c in cfgs if c["ndev"] == 0][:1] + [c for c in cfgs if c["ndev"] == 2][:: max(1, len(cfgs) // 3)][:3]
    ctx.samples = [{"devs": c["devs"], "settings": c["settings"], "stack": [p["name"] + ":" + json.dumps({k: v for k, v in p.items() if k != "name" and v not in (None, False)}) for p in c["stack"]]} for c in pick]
    ctx.coverage.update(
        states=len(cfgs),
        transitions=events,
        traces_validated_against_impl=len(cfgs),
        exhaustive=True,
        deviation_radius=2 if ctx.quick else 3,
        dimensions={d: [BASE[d]] + list(a) for d, a in ALTS.items()},
        secondary_bases=SECONDARY,
        distinct_observed_traces=len(digests),
        settings_reuse_sequences=sum(1 for c in cfgs if c.get("kind") == "reuse"),
        settings_reuse_histories=len(_histories(1.0e6)),
    )
    ctx.assumptions += [
        "configurations = all combinations of <= %d deviations (listed in coverage.dimensions) from the plain 2-cycle/2-step 3-interface stack, <= %d from each secondary base%s; combinations that do not denote a configuration (per-cycle step counts in the simple input, restart point beyond the last node, zero availability with explicit at-power days) are not runs"
        % (2 if ctx.quick else 3, 1 if ctx.quick else 2, "" if ctx.quick else ", plus the full product of 19 profiles^3 x 2 histories x coupling on/off"),
        "bare Operator (no plugin interfaces): the restart point is placed in r.p.cycle/timeNode by the driver as MainInterface.interactBOL does; exclusion lists are checked on getActiveInterfaces only (operate() never passes one)",
        "fields a hook may see that the property does not fix (step length at the last node of a cycle, power outside node events, coupled-iteration counter outside BOC/Coupled) are unconstrained in the reference",
        "deferred = not called at BOL nor at BOC before deferredInterfacesCycle (the documented and upstream-tested meaning); every-node/EOC/EOL hooks of deferred interfaces run",
        "floating-point comparisons (step lengths, power, cycle length) relative 1e-10",
        "settings re-use search: one Settings object per sequence of 2 (all ordered pairs of 30 histories) or 3 (quick: 6 representative histories, thorough: all) histories assigned in place, every conversion helper asked after every change and judged against the reference expansion of the CURRENT history, an operator run on the re-used object after the last change (quick: targets of each distinct node layout, thorough: every consistent target); cs.modified copies of a used object are judged for copy and source. A new Operator is built per run: changing settings under a live Operator is outside the property",
    ]
