"""Helper of C01: a generic composite class (a plain ``Composite`` has no ``type`` parameter, so
``getType``/``getChildrenOfType`` cannot be asked of it; ARMI's own tests use the same device).

Imported lazily (needs armi configured); lives in its own module so that instances pickle.
"""
from armi import utils
from armi.reactor import composites, parameters


def _defs():
    d = parameters.ParameterDefinitionCollection()
    with d.createBuilder() as pb:
        pb.defParam("type", units=utils.units.UNITLESS, description="type name of a generic composite")
    return d


class Generic(composites.Composite):
    """Generic interior node / leaf of shape (a)."""

    pDefs = _defs()
