"""Helper of C01: a generic composite class (a plain ``Composite`` has no ``type`` parameter, so
``getType``/``getChildrenOfType`` cannot be asked of it; ARMI's own tests use the same device).

Imported lazily (needs armi configured); lives in its own module so that instances pickle.
"""
from armi import utils
from armi.reactor import composites, parameters


def _defs():
    d = parameters.ParameterDefinitionCollection()
    with d.createBuilder() as pb:
        pb.defParam("type", units=utils.units.UNITLESS, description="type name of a generic composite")
    return d


class Generic(composites.Composite):
    """Generic interior node / leaf of shape (a)."""

    pDefs = _defs()


class Group(Generic):
    """A composite that groups leaf Components inside a block (``Block.add`` allows that).  It orders
    itself among components the way components do (bounding circle), so that a block holding it can
    still be sorted."""

    def __lt__(self, other):
        return self.getBoundingCircleOuterDiameter(cold=True) < other.getBoundingCircleOuterDiameter(cold=True)

    # what Block and Component code asks of a block's children / of a component's parent
    def getDimension(self, key, Tc=None, cold=False):
        if key == "mult":
            return 1
        raise parameters.UnknownParameterError("a group has no dimension %r" % key, "")

    def getHeight(self):
        return self.parent.getHeight() if self.parent is not None and hasattr(self.parent, "getHeight") else 1.0
