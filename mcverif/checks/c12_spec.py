"""C12 helper: init (small JSON dict) -> blueprint spec -> real pin-type assembly with a top dummy block.

Extends the block tables of ``mcverif.build`` with what C12 needs and build.py lacks:
* one block blueprint per axial position (so every block can carry its own explicit
  ``axial expansion target component``), flags given explicitly;
* the ``axial expansion target component`` key (build.render does not emit it; added by a
  post-pass over the rendered text);
* fuel / cladding material choices, a sodium bond, a "tight" pin (fuel od just below clad id cold,
  above it hot: distinguishes cold from hot linkage), flat or varied hot temperatures.

An *init* is::

    {"stack": "SFD" | "GFFPD",          shield-fuel-dummy | grid-fuel-fuel-plenum-dummy
     "heights": [..],                    one per block, dummy last
     "fuel_mat": "UZr" | "UraniumOxide", "clad_mat": "HT9" | "Inconel625",
     "bond": bool, "tight": bool,
     "duct_mat": None | "Custom", "grid_mat": None | "Molybdenum",   (fuel_mat / clad_mat may be "Custom" too)
     "fat": None | "solid" | "hollow",   fuel od 0.98 with id 0.0 / 0.92 (a hollow pellet does not reach the slug below)
     "multi": bool,                      fuel od 1.05: overlaps two solids of the block below (linkage must be refused)
     "shield_mult": float | None,        other pin multiplicity in the shield block (fuel block unlinked from it)
     "targets": {"<block index>": "<component name>"},   explicit targets (others: default rule)
     "thot": "varied" | "flat",          flat: every component enters at 450 C
     "reuse": bool}                      also drive a twin assembly with ONE reused changer
"""
from mcverif import build

PITCH = 16.75
NPINS = 7.0
FLAT_T = 450.0

STACKS = {"SFD": ["shield", "fuel", "dummy"], "GFFPD": ["grid plate", "fuel", "fuel", "plenum", "dummy"]}
# designated target component under ARMI's default rule, by block kind (ExpansionData._setTargetComponents)
DEFAULT_TARGET = {"shield": "shield", "fuel": "fuel", "grid plate": "grid", "plenum": "clad"}
FLUIDS = ("Sodium", "Void")
# material class kinds the expansion code branches on, each in a solid role:
CUSTOM = "Custom"  # solid, given by custom isotopics; never expands thermally (Component.getThermalExpansionFactor)
NOCORR = ("Molybdenum",)  # solids without a linear-expansion correlation: a temperature change must be refused
CUSTOM_ISOTOPICS = {
    "customfuel": {"input format": "number densities", "U235": 0.004, "U238": 0.03, "ZR": 0.01},
    "customsteel": {"input format": "number densities", "FE": 0.07, "CR": 0.01},
}


def _comp(init, name, shape, mat, Tin, Thot, **dims):
    """build.comp with the per-material-kind particulars (isotopics of Custom; Tinput == Thot without correlation)."""
    if mat == CUSTOM:
        dims["isotopics"] = "customfuel" if name == "fuel" else "customsteel"
    if mat in NOCORR:
        Tin = Thot
    return build.comp(name, shape, mat, Tin, Thot, **dims)


def _T(init, hot):
    return FLAT_T if init.get("thot") == "flat" else hot


def block_table(init, kind):
    """Component table of one block of kind ``kind`` (list of build.comp dicts)."""
    clad = init.get("clad_mat", "HT9")
    fuelm = init.get("fuel_mat", "UZr")
    duct = _comp(init, "duct", "Hexagon", init.get("duct_mat") or "HT9", 25.0, _T(init, 450.0), ip=16.0, op=16.6, mult=1.0)
    inter = build.comp("intercoolant", "Hexagon", "Sodium", 450.0, _T(init, 450.0), ip="duct.op", op=PITCH, mult=1.0)
    cool = build.comp("coolant", "DerivedShape", "Sodium", 450.0, _T(init, 450.0))
    if kind == "fuel":
        od = 0.999 if init.get("tight") else (1.05 if init.get("multi") else 0.86)
        fid = 0.0
        if init.get("fat"):  # thick pellet, solid or with a central hole wider than the shield slug (od 0.9) below
            od, fid = 0.98, (0.92 if init["fat"] == "hollow" else 0.0)
        cs = [_comp(init, "fuel", "Circle", fuelm, 25.0, _T(init, 600.0), id=fid, od=od, mult=NPINS)]
        if init.get("bond"):
            cs.append(build.comp("bond", "Circle", "Sodium", 450.0, _T(init, 450.0), id="fuel.od", od="clad.id", mult="fuel.mult"))
        cs.append(_comp(init, "clad", "Circle", clad, 25.0, _T(init, 470.0), id=1.0, od=1.09, mult="fuel.mult"))
        return cs + [cool, duct, inter]
    if kind == "plenum":
        return [
            build.comp("gap", "Circle", "Void", 25.0, _T(init, 600.0), id=0.0, od="clad.id", mult="clad.mult"),
            _comp(init, "clad", "Circle", clad, 25.0, _T(init, 470.0), id=1.0, od=1.09, mult=NPINS),
            cool,
            duct,
            inter,
        ]
    if kind == "shield":
        return [
            build.comp("shield", "Circle", "HT9", 25.0, _T(init, 600.0), id=0.0, od=0.9, mult=float(init.get("shield_mult") or NPINS)),
            _comp(init, "clad", "Circle", clad, 25.0, _T(init, 470.0), id=1.0, od=1.09, mult="shield.mult"),
            cool,
            duct,
            inter,
        ]
    if kind == "grid plate":
        return [_comp(init, "grid", "Hexagon", init.get("grid_mat") or "HT9", 25.0, _T(init, 450.0), ip=0.0, op=14.4, mult=1.0), cool, duct, inter]
    if kind == "dummy":
        return [build.comp("coolant", "Hexagon", "Sodium", 25.0, _T(init, 450.0), ip=0.0, op=PITCH, mult=1.0)]
    raise ValueError(kind)


def kinds(init):
    return list(STACKS[init["stack"]])


def make_spec(init):
    ks = kinds(init)
    heights = init["heights"]
    assert len(heights) == len(ks)
    blocks = {}
    names = []
    for i, k in enumerate(ks):
        name = "b%d %s" % (i, k)
        b = {"components": block_table(init, k), "flags": k}
        t = (init.get("targets") or {}).get(str(i))
        if t:
            b["target"] = t
        blocks[name] = b
        names.append(name)
    n = len(ks)
    fuel_idx = [i for i, k in enumerate(ks) if k == "fuel"]
    if init.get("fuel_mat", "UZr") == CUSTOM:
        mm = None
    elif init.get("fuel_mat", "UZr") == "UZr":
        mm = {"U235_wt_frac": [0.11 if i in fuel_idx else "" for i in range(n)], "ZR_wt_frac": [0.06 if i in fuel_idx else "" for i in range(n)]}
    else:
        mm = {"U235_wt_frac": [0.11 if i in fuel_idx else "" for i in range(n)]}
    a = build.assem("IC", names, heights, ["A"] * n, mm)
    return {
        "nuclide flags": build.NUCFLAGS + ["P", "TI", "TA", "S", "CO", "NB"],  # Inconel625 constituents
        "custom isotopics": CUSTOM_ISOTOPICS,
        "blocks": blocks,
        "assemblies": {"igniter fuel": a},
        "grids": {"core": {"geom": "hex", "symmetry": "full", "contents": {(0, 0): "IC"}}},
        "systems": {"core": {"grid name": "core", "origin": [0.0, 0.0, 0.0]}},
    }


def render(spec):
    """build.render + the ``axial expansion target component`` key of blocks that carry "target"."""
    txt = build.render(build.normalize(spec))
    out = []
    heads = {"    %s: &block_%s" % (bn, bn.replace(" ", "_")): b.get("target") for bn, b in spec["blocks"].items()}
    for line in txt.split("\n"):
        out.append(line)
        t = heads.get(line)
        if t:
            out.append("        axial expansion target component: %s" % t)
    return "\n".join(out)


def assembly(init, seed=0):
    """Fresh real assembly (never cached). detailedAxialExpansion on, input heights considered hot."""
    import io
    import random

    from armi.reactor.blueprints import Blueprints

    random.seed(seed)
    cs = build.settings(detailedAxialExpansion=True)
    bp = Blueprints.load(io.StringIO(render(make_spec(init))))
    return bp.constructAssem(cs, name="igniter fuel")


# ---------------------------------------------------------------------------------------------
# structural facts the reference model needs, read from the *spec* (not from the built objects)


def _resolve(table, comp, dim):
    v = comp["dims"][dim]
    seen = 0
    while isinstance(v, str):
        other, d = v.split(".")
        v = [c for c in table if c["name"] == other][0]["dims"][d]
        seen += 1
        if seen > 5:
            raise ValueError("dimension link loop")
    return float(v)


def solids(init, kind, over=None):
    """[(name, shape, mult, lo, hi)] of the solid components of a block kind, child order, cold dims.
    ``over``: {(component name, dimension): value} cold dimensions edited since construction."""
    import copy

    table = copy.deepcopy(block_table(init, kind))
    for (cname, dim), val in (over or {}).items():
        for c in table:
            if c["name"] == cname:
                c["dims"][dim] = float(val)
    out = []
    for c in table:
        if c["material"] in FLUIDS:
            continue
        if c["shape"] == "Circle":
            a, b = _resolve(table, c, "id"), _resolve(table, c, "od")
        elif c["shape"] == "Hexagon":
            a, b = _resolve(table, c, "ip"), _resolve(table, c, "op")
        else:
            raise ValueError(c["shape"])
        out.append((c["name"], c["shape"], _resolve(table, c, "mult"), min(a, b), max(a, b)))
    return out


def all_names(init, kind):
    return [c["name"] for c in block_table(init, kind)]


def designated_target(init, i):
    ks = kinds(init)
    if ks[i] == "dummy":
        return None
    return (init.get("targets") or {}).get(str(i)) or DEFAULT_TARGET[ks[i]]
