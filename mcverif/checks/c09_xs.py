"""C09: the cross-section family (ISOTXS, GAMISO, PMATRX, DLAYXS, COMPXS).

Containers are built from nothing (pure-JSON spec -> python model -> real armi library objects) over
the header-flag lattices; ISOTXS/GAMISO/PMATRX/DLAYXS have a full independent reference writer,
COMPXS a reference of the record lengths (its container cannot express every word of the file:
the word-perturbation pass of c09.py covers that).

Also: reduction of the repo fixtures to sub-libraries (subsets of nuclides / regions), and the
save/restore of the global nuclide label table.
"""
import itertools

from mcverif.checks import c09_wire as W
from mcverif.checks.c09_formats import Vals, _pk, _S

NUC_POOL = [("U235AA", "U235_7"), ("FE56AA", "FE56_7"), ("NA23AB", "NA23_7")]
RX = ["nalph", "np", "n2n", "nd", "nt"]


def _np():
    import numpy as np

    return np


# ---------------------------------------------------------------------------------------------
# global nuclide label table


def snapshot_tables():
    from armi.nucDirectory import nuclideBases

    return dict(nuclideBases.byLabel), {id(b): (b, b.label) for b in nuclideBases.instances}


def restore_tables(snap):
    """-> True if something had to be restored"""
    from armi.nucDirectory import nuclideBases
    from armi.nuclearDataIO.xsCollections import XSCollection

    XSCollection._zeroes.clear()
    by, labels = snap
    changed = False
    if nuclideBases.byLabel != by:
        nuclideBases.byLabel.clear()
        nuclideBases.byLabel.update(by)
        changed = True
    for b, lab in labels.values():
        if b.label != lab:
            b.label = lab
            changed = True
    return changed


# =============================================================================================
# ISOTXS / GAMISO


def band_layouts(ng):
    """every valid (jband, jj) per group: row g holds columns [g+jj-jband, g+jj) ; jj in 1..jband"""
    per_group = []
    for g in range(ng):
        opts = [(0, 1)]
        for jj in range(1, ng - g + 1):
            for jband in range(jj, g + jj + 1):
                opts.append((jband, jj))
        per_group.append(opts)
    return [list(map(list, combo)) for combo in itertools.product(*per_group)]


def full_band(ng):
    """lower-triangular (down-scatter) band: row g holds columns 0..g"""
    return [[g + 1, 1] for g in range(ng)]


def diag_band(ng):
    return [[1, 1] for _ in range(ng)]


def _nuc(fis=1, chi=1, rx=(0, 0, 1, 0, 0), strpd=0, ltrn=1, ltot=1, blocks=None):
    return {"fis": fis, "chi": chi, "rx": list(rx), "strpd": strpd, "ltrn": ltrn, "ltot": ltot, "blocks": blocks or []}


def isotxs_specs(quick, fmt="isotxs"):
    out = []

    def add(ng, nucs, fwchi=0, nsblok=1, tag=""):
        out.append({"fmt": fmt, "ng": ng, "fwchi": fwchi, "nsblok": nsblok, "nucs": nucs, "tag": tag})

    gam = fmt == "gamiso"
    # A. principal-cross-section flags, one nuclide, one full elastic block
    for ng in ((2,) if quick or gam else (1, 2, 3)):
        for fw, fis, chi in itertools.product((0, 1), repeat=3):
            if fis and not chi and not fw:
                continue  # refused by design: fissile nuclide without any chi
            for rx in itertools.product((0, 1), repeat=5):
                for strpd in (0, 2):
                    for ltrn, ltot in ((1, 1), (2, 2)) if quick or gam else ((1, 1), (2, 1), (1, 2), (3, 2)):
                        if (quick or gam) and sum(rx) not in (0, 1, 5) and (strpd or ltrn > 1):
                            continue
                        add(ng, [_nuc(fis, chi, rx, strpd, ltrn, ltot, [[100, 1, full_band(ng)]])], fwchi=fw, tag="flags")
    # B. one scatter block: every kind x every band layout x sub-blocking
    kinds = (100, 102) if gam and quick else (100, 101, 200, 300, 0, 102)
    for ng in (1, 2, 3):
        for kind in kinds:
            for lay in band_layouts(ng):
                for nsblok in (1, 2, 3):
                    # quick: sub-blocked files for three block kinds; 3 sub-blocks for 1 group (sub-blocks
                    # wholly beyond the last group) and, ISOTXS only, for 3 groups
                    if quick and nsblok > 1 and (kind not in (100, 200, 102) or (nsblok == 3 and (ng == 2 or (gam and ng == 3)))):
                        continue
                    add(ng, [_nuc(blocks=[[kind, 1, lay]])], nsblok=nsblok, tag="band")
    # C. several blocks / nuclides, absent blocks (ords 0), no blocks at all
    for ng in (2, 3):
        for nsblok in (1, 2):
            add(ng, [_nuc(blocks=[])], nsblok=nsblok, tag="noblocks")
            for kinds_ in ((100, 101), (100, 200, 300), (0, 102, 103), (200, 300)):
                for ords in itertools.product((0, 1), repeat=len(kinds_)):
                    b1 = [[k, o, full_band(ng) if i % 2 == 0 else diag_band(ng)] for i, (k, o) in enumerate(zip(kinds_, ords))]
                    b2 = [[k, 1 - o, diag_band(ng)] for k, o in zip(kinds_, ords)]
                    add(ng, [_nuc(1, 1, (0, 0, 1, 0, 0), 0, 2, 1, b1), _nuc(0, 0, (1, 0, 0, 0, 1), 2, 1, 2, b2)], nsblok=nsblok, tag="multi")
                    if not quick:
                        add(ng, [_nuc(0, 0, (0, 0, 0, 0, 0), 0, 1, 1, b2), _nuc(1, 0, (0, 1, 0, 1, 0), 0, 1, 1, b1), _nuc(1, 1, (1, 1, 1, 1, 1), 2, 2, 2, b1)],
                            fwchi=1, nsblok=nsblok, tag="multi3")
    if True:  # one record (the scatter block) beyond io.DEFAULT_BUFFER_SIZE fields (both tiers: cheap)
        add(130, [_nuc(1, 1, (0, 0, 1, 0, 0), 0, 2, 1, [[100, 1, full_band(130)], [200, 1, diag_band(130)]])], tag="big")
        out[-1]["big"] = True
    return out


def _iso_model(s, rot=0):
    v = Vals(rot)
    ng = s["ng"]
    nsc = max([len(n["blocks"]) for n in s["nucs"]] + [0])
    m = {"fileId": v.i(), "ng": ng, "maxup": 0, "maxdn": ng - 1, "maxord": 1, "fwchi": s["fwchi"], "nsc": nsc, "nsblok": s["nsblok"],
         "liblabel": "C09 GENERATED LIBRARY", "chi": v.reals(ng) if s["fwchi"] else None, "vel": [x * 1e7 for x in v.reals(ng)],
         "emax": [x * 1e5 for x in v.reals(ng)], "emin": v.r(), "nucs": []}
    for k, n in enumerate(s["nucs"]):
        label, nid = NUC_POOL[k]
        q = {"label": label, "id": nid, "libName": "ENDFB7", "isoIdent": "ISO %d" % k, "six": v.reals(6), "classif": v.i(), "chiFlag": n["chi"], "fisFlag": n["fis"],
             "rx": dict(zip(RX, n["rx"])), "ltot": n["ltot"], "ltrn": n["ltrn"], "strpd": n["strpd"]}
        blocks = list(n["blocks"]) + [[900 + i, 0, [[0, 1]] * ng] for i in range(nsc - len(n["blocks"]))]
        q["scatFlag"] = [b[0] for b in blocks]
        q["ords"] = [b[1] for b in blocks]
        q["jband"] = {(g, b): blocks[b][2][g][0] for b in range(nsc) for g in range(ng)}
        q["jj"] = {(g, b): blocks[b][2][g][1] for b in range(nsc) for g in range(ng)}
        q["transport"] = {(g, l): v.r() for l in range(n["ltrn"]) for g in range(ng)}
        q["total"] = {(g, l): v.r() for l in range(n["ltot"]) for g in range(ng)}
        q["ngamma"] = v.reals(ng)
        q["fission"] = v.reals(ng) if n["fis"] else None
        q["nu"] = v.reals(ng) if n["fis"] else None
        q["chi"] = v.reals(ng) if n["chi"] == 1 else None
        q["rxdata"] = {name: (v.reals(ng) if q["rx"][name] else None) for name in RX}
        q["strpdData"] = {(g, i): v.r() for i in range(n["strpd"]) for g in range(ng)}
        q["scat"] = {}
        for b in range(nsc):
            if q["ords"][b] > 0:
                rows = {}
                for g in range(ng):
                    jup = g + q["jj"][g, b]
                    for c in range(jup - q["jband"][g, b], jup):
                        rows[g, c] = v.r()
                q["scat"][b] = rows
        m["nucs"].append(q)
    return m


def _scat_attr(flag, micros, b, value=None, get=False):
    names = {100: "elasticScatter", 200: "inelasticScatter", 300: "n2nScatter", 0: "totalScatter", 101: "elasticScatter1stOrder"}
    if flag in names:
        if get:
            return getattr(micros, names[flag])
        setattr(micros, names[flag], value)
    else:
        if get:
            return micros.higherOrderScatter.get(b)
        micros.higherOrderScatter[b] = value


def isotxs_build(s, rot=0):
    np = _np()
    from scipy import sparse

    from armi.nuclearDataIO import xsLibraries, xsNuclides

    gam = s["fmt"] == "gamiso"
    m = _iso_model(s, rot)
    ng = m["ng"]
    lib = xsLibraries.IsotxsLibrary()
    md = lib.gamisoMetadata if gam else lib.isotxsMetadata
    md["label"] = "ISOTXS"
    for a, b in (("fileId", "fileId"), ("numGroups", "ng"), ("maxUpScatterGroups", "maxup"), ("maxDownScatterGroups", "maxdn"), ("maxScatteringOrder", "maxord"),
                 ("fileWideChiFlag", "fwchi"), ("maxScatteringBlocks", "nsc"), ("subblockingControl", "nsblok"), ("libraryLabel", "liblabel"), ("minimumNeutronEnergy", "emin")):
        md[a] = m[b]
    if m["fwchi"]:
        md["chi"] = np.array(m["chi"])
    if gam:
        md["gammaVelocity..NOT"] = np.array(m["vel"])
        lib.gammaEnergyUpperBounds = np.array(m["emax"])
    else:
        lib.neutronVelocity = np.array(m["vel"])
        lib.neutronEnergyUpperBounds = np.array(m["emax"])
    for q in m["nucs"]:
        nuc = xsNuclides.XSNuclide(lib, q["label"])
        lib[q["label"]] = nuc
        nmd = nuc.gamisoMetadata if gam else nuc.isotxsMetadata
        mic = nuc.gammaXS if gam else nuc.micros
        nmd["nuclideId"], nmd["libName"], nmd["isoIdent"] = q["id"], q["libName"], q["isoIdent"]
        for name, val in zip(["amass", "efiss", "ecapt", "temp", "sigPot", "adens"], q["six"]):
            nmd[name] = val
        nmd["classif"], nmd["chiFlag"], nmd["fisFlag"] = q["classif"], q["chiFlag"], q["fisFlag"]
        for name in RX:
            nmd[name] = q["rx"][name]
        nmd["ltot"], nmd["ltrn"], nmd["strpd"] = q["ltot"], q["ltrn"], q["strpd"]
        nmd["scatFlag"], nmd["ords"] = np.array(q["scatFlag"], dtype=int), np.array(q["ords"], dtype=int)
        nmd["jband"], nmd["jj"] = dict(q["jband"]), dict(q["jj"])

        def table(d, n2):
            a = np.zeros((ng, n2))
            for idx, val in d.items():
                a[idx] = val
            return a

        mic.transport, mic.total = table(q["transport"], q["ltrn"]), table(q["total"], q["ltot"])
        mic.nGamma = np.array(q["ngamma"])
        mic.fission = np.array(q["fission"]) if q["fisFlag"] else np.zeros(ng)
        mic.neutronsPerFission = np.array(q["nu"]) if q["fisFlag"] else np.zeros(ng)
        if q["chiFlag"] == 1:
            mic.chi = np.array(q["chi"])
        elif q["fisFlag"]:
            mic.chi = md["chi"]
        else:
            mic.chi = np.zeros(ng)
        for name in RX:
            setattr(mic, name, np.array(q["rxdata"][name]) if q["rx"][name] else np.zeros(ng))
        mic.strpd = table(q["strpdData"], q["strpd"]) if q["strpd"] else np.zeros(ng)
        for b, rows in q["scat"].items():
            dense = np.zeros((ng, ng))
            for idx, val in rows.items():
                dense[idx] = val
            _scat_attr(q["scatFlag"][b], mic, b, sparse.csr_matrix(dense))
    return lib


def isotxs_ref(s, rot=0):
    m = _iso_model(s, rot)
    ng, nsc, nsb = m["ng"], m["nsc"], m["nsblok"]
    recs = [("file-id", _pk([_S("ISOTXS", 24), ("i", m["fileId"])])),
            ("1D-file-control", _pk([("i", x) for x in (ng, len(m["nucs"]), m["maxup"], m["maxdn"], m["maxord"], m["fwchi"], nsc, nsb)]))]
    loca, acc = [], 0
    for q in m["nucs"]:
        loca.append(acc)
        acc += 2 + (1 if q["chiFlag"] > 1 else 0) + nsb * sum(1 for o in q["ords"] if o > 0)
    flat = [_S(m["liblabel"], 96)] + [_S(q["label"], 8) for q in m["nucs"]]
    if m["fwchi"] == 1:
        flat += [("f", x) for x in m["chi"]]
    flat += [("f", x) for x in m["vel"] + m["emax"] + [m["emin"]]] + [("i", x) for x in loca]
    recs.append(("2D-file-data", _pk(flat)))
    for q in m["nucs"]:
        flat = [_S(q["id"], 8), _S(q["libName"], 8), _S(q["isoIdent"], 8)] + [("f", x) for x in q["six"]]
        flat += [("i", x) for x in [q["classif"], q["chiFlag"], q["fisFlag"]] + [q["rx"][n] for n in RX] + [q["ltot"], q["ltrn"], q["strpd"]]]
        flat += [("i", x) for x in q["scatFlag"] + q["ords"]]
        flat += [("i", q["jband"][g, b]) for b in range(nsc) for g in range(ng)] + [("i", q["jj"][g, b]) for b in range(nsc) for g in range(ng)]
        recs.append(("4D-isotope-control", _pk(flat)))
        flat = [("f", q["transport"][g, l]) for l in range(q["ltrn"]) for g in range(ng)] + [("f", q["total"][g, l]) for l in range(q["ltot"]) for g in range(ng)]
        flat += [("f", x) for x in q["ngamma"]]
        if q["fisFlag"] > 0:
            flat += [("f", x) for x in q["fission"] + q["nu"]]
        if q["chiFlag"] == 1:
            flat += [("f", x) for x in q["chi"]]
        for n in RX:
            if q["rx"][n]:
                flat += [("f", x) for x in q["rxdata"][n]]
        flat += [("f", q["strpdData"][g, i]) for i in range(q["strpd"]) for g in range(ng)]
        recs.append(("5D-principal-cross-sections", _pk(flat)))
        for b in range(nsc):
            if q["ords"][b] > 0:
                for sb in range(1, nsb + 1):
                    x = (ng - 1) // nsb + 1
                    jl, ju = (sb - 1) * x + 1, min(ng, sb * x)
                    flat = []
                    for g in range(jl - 1, ju):
                        jup = g + q["jj"][g, b]
                        flat += [("f", q["scat"][b][g, c]) for c in range(jup - 1, jup - q["jband"][g, b] - 1, -1)]
                    recs.append(("7D-scattering-sub-block", _pk(flat)))
    return recs


def isotxs_io(s):
    from armi.nuclearDataIO.cccc import gamiso, isotxs

    mod = gamiso if s["fmt"] == "gamiso" else isotxs
    return mod.writeBinary, mod.readBinary, mod.writeAscii, mod.readAscii


def _xs_obs(xs):
    d = {k: v for k, v in vars(xs).items() if k not in ("source", "numGroups")}
    return W.canon(d)


def isotxs_observe(lib, which=("isotxs", "gamiso", "pmatrx")):
    o = {"libmd": {}, "nuclides": []}
    for w in which:
        o["libmd"][w] = W.canon(getattr(lib, w + "Metadata"))
    for name in ("neutronVelocity", "neutronEnergyUpperBounds", "gammaEnergyUpperBounds", "neutronDoseConversionFactors", "gammaDoseConversionFactors"):
        o[name] = W.canon(getattr(lib, "_" + name, None))
    for label in lib.nuclideLabels:
        nuc = lib[label]
        q = {"label": str(label), "isotxsMetadata": W.canon(nuc.isotxsMetadata), "gamisoMetadata": W.canon(nuc.gamisoMetadata), "pmatrxMetadata": W.canon(nuc.pmatrxMetadata),
             "micros": _xs_obs(nuc.micros), "gammaXS": _xs_obs(nuc.gammaXS)}
        for a in ("neutronHeating", "neutronDamage", "gammaHeating", "isotropicProduction", "linearAnisotropicProduction", "nOrderProductionMatrix"):
            q[a] = W.canon(getattr(nuc, a))
        o["nuclides"].append(q)
    return o


# =============================================================================================
# PMATRX


def pmatrx_specs(quick):
    out = []
    for nn, ngam in itertools.product((1, 2), (1, 2, 3)) if not quick else ((1, 1), (2, 3), (2, 1)):
        for dose in (False, True):
            for heat, gheat in itertools.product((False, True), repeat=2):
                for order in (0, 1, 2, 3):
                    for nxs in (0, 1):
                        for nnuc in (1, 2):
                            out.append({"fmt": "pmatrx", "nn": nn, "ngam": ngam, "dose": dose,
                                        "nucs": [{"heat": heat, "gheat": gheat, "order": order, "nxs": nxs}] + ([{"heat": not heat, "gheat": not gheat, "order": max(0, 2 - order), "nxs": 0}] if nnuc == 2 else [])})
    if True:  # one record beyond io.DEFAULT_BUFFER_SIZE fields (both tiers: cheap)
        out.append({"fmt": "pmatrx", "big": True, "nn": 95, "ngam": 90, "dose": True, "nucs": [{"heat": True, "gheat": True, "order": 2, "nxs": 0}]})
    return out


def _pm_model(s, rot=0):
    v = Vals(rot)
    nn, ngam = s["nn"], s["ngam"]
    m = {"ints": {"numberCollapsingSpatialRegions": v.i(), "numGammaGroups": ngam, "numNeutronGroups": nn, "maxScatteringOrder": max(n["order"] for n in s["nucs"]),
                  "maxNumberOfCompositions": v.i(), "maxMaterials": v.i(), "maxNumberOfRegions": v.i(), "maxNumberOfCollapsingRegions": v.i(), "_dummy1": v.i(), "_dummy2": v.i()},
         "inplate": False, "dose": s["dose"], "nemax": [x * 1e5 for x in v.reals(nn)], "nemin": v.r(), "gemax": [x * 1e6 for x in v.reals(ngam)], "gemin": v.r(),
         "ndose": v.reals(nn) if s["dose"] else None, "gdose": v.reals(ngam) if s["dose"] else None, "nucs": []}
    for k, n in enumerate(s["nucs"]):
        q = {"label": NUC_POOL[k][0], "heat": n["heat"], "gheat": n["gheat"], "order": n["order"], "nxs": n["nxs"], "region": v.i()}
        q["nheat"] = v.reals(nn) if n["heat"] else None
        q["ndam"] = v.reals(nn) if n["heat"] else None
        q["act"] = [(v.reals(nn), v.i(), v.i()) for _ in range(n["nxs"])]
        q["gh"] = v.reals(ngam) if n["gheat"] else None
        q["prod"] = {o: {(g, n_): v.r() for n_ in range(nn) for g in range(ngam)} for o in range(1, n["order"] + 1)}
        m["nucs"].append(q)
    return m


def pmatrx_build(s, rot=0):
    np = _np()
    from armi.nuclearDataIO import xsLibraries, xsNuclides

    m = _pm_model(s, rot)
    lib = xsLibraries.IsotxsLibrary()
    md = lib.pmatrxMetadata
    for k, val in m["ints"].items():
        md[k] = val
    md["hasInPlateData"], md["hasDoseConversionFactor"] = m["inplate"], m["dose"]
    md["minimumNeutronEnergy"], md["minimumGammaEnergy"] = m["nemin"], m["gemin"]
    lib.neutronEnergyUpperBounds = np.array(m["nemax"])
    lib.gammaEnergyUpperBounds = np.array(m["gemax"])
    if m["dose"]:
        lib.neutronDoseConversionFactors = np.array(m["ndose"])
        lib.gammaDoseConversionFactors = np.array(m["gdose"])
    for q in m["nucs"]:
        nuc = xsNuclides.XSNuclide(lib, q["label"])
        lib[q["label"]] = nuc
        p = nuc.pmatrxMetadata
        p["hasNeutronHeatingAndDamage"], p["maxScatteringOrder"], p["hasGammaHeating"] = q["heat"], q["order"], q["gheat"]
        p["numberNeutronXS"], p["collapsingRegionNumber"] = q["nxs"], q["region"]
        p["activationXS"] = [np.array(a[0]) for a in q["act"]]
        p["activationMT"] = [a[1] for a in q["act"]]
        p["activationMTU"] = [a[2] for a in q["act"]]
        if q["heat"]:
            nuc.neutronHeating, nuc.neutronDamage = np.array(q["nheat"]), np.array(q["ndam"])
        if q["gheat"]:
            nuc.gammaHeating = np.array(q["gh"])
        for o, tab in q["prod"].items():
            a = np.zeros((s["ngam"], s["nn"]))
            for idx, val in tab.items():
                a[idx] = val
            if o == 1:
                nuc.isotropicProduction = a
            elif o == 2:
                nuc.linearAnisotropicProduction = a
            else:
                nuc.nOrderProductionMatrix[o] = a
    return lib


def pmatrx_ref(s, rot=0):
    m = _pm_model(s, rot)
    i_ = m["ints"]
    nn, ngam = s["nn"], s["ngam"]
    head = [i_["numberCollapsingSpatialRegions"], i_["numGammaGroups"], i_["numNeutronGroups"], int(m["inplate"]), len(m["nucs"]), int(m["dose"])]
    head += [i_[k] for k in ("maxScatteringOrder", "maxNumberOfCompositions", "maxMaterials", "maxNumberOfRegions", "maxNumberOfCollapsingRegions", "_dummy1", "_dummy2")]
    recs = [("file-control", _pk([("i", x) for x in head])),
            ("group-structure", _pk([("f", x) for x in m["nemax"] + [m["nemin"]] + m["gemax"] + [m["gemin"]]]))]
    if m["dose"]:
        recs.append(("dose-conversion-factors", _pk([("f", x) for x in m["ndose"] + m["gdose"]])))
    recs.append(("isotope-labels", _pk([_S(q["label"], 8) for q in m["nucs"]] + [("i", 1000)] * len(m["nucs"]))))
    for q in m["nucs"]:
        recs.append(("isotope-heading", _pk([("i", x) for x in (int(q["heat"]), q["order"], int(q["gheat"]), q["nxs"], q["region"])])))
        if q["heat"]:
            recs.append(("neutron-heating-and-damage", _pk([("f", x) for x in q["nheat"] + q["ndam"]])))
        for xs, mt, mtu in q["act"]:
            recs.append(("activation-cross-section", _pk([("f", x) for x in xs] + [("i", mt), ("i", mtu)])))
        if q["gheat"]:
            recs.append(("gamma-heating", _pk([("f", x) for x in q["gh"]])))
        for o in range(1, q["order"] + 1):
            recs.append(("production-matrix-order-%s" % ("1" if o == 1 else "2" if o == 2 else "3+"), _pk([("f", q["prod"][o][g, n_]) for n_ in range(nn) for g in range(ngam)])))
    return recs


def pmatrx_io(s):
    from armi.nuclearDataIO.cccc import pmatrx

    return pmatrx.writeBinary, pmatrx.readBinary, pmatrx.writeAscii, pmatrx.readAscii


# =============================================================================================
# DLAYXS

DLAY_POOL = ["U235_7", "PU2397", "U238_7"]


def dlayxs_specs(quick):
    out = []
    for g in (1, 2, 3) if not quick else (1, 2):
        for nnuc in (1, 2, 3) if not quick else (1, 2):
            for nfam in (6, 8):
                for nk in (6, 3, 0) if not quick else (6, 3):
                    for ndum in (0, 2):
                        for lablen in (8, 31):
                            out.append({"fmt": "dlayxs", "G": g, "nnuc": nnuc, "nfam": nfam, "nkfam": nk, "ndummy": ndum, "lablen": lablen})
    if True:  # one record beyond io.DEFAULT_BUFFER_SIZE fields (both tiers: cheap)
        out.append({"fmt": "dlayxs", "big": True, "G": 90, "nnuc": 2, "nfam": 100, "nkfam": 6, "ndummy": 2, "lablen": 31})
    return out


def _dl_model(s, rot=0):
    v = Vals(rot)
    g, nn, nf = s["G"], s["nnuc"], s["nfam"]
    m = {"label": ("DLAYXS C09 " + "x" * 40)[: s["lablen"]], "G": g, "nfam": nf, "dummy": v.i(), "ids": DLAY_POOL[:nn], "decay": v.reals(nf),
         "spec": {(gg, f): v.r() for f in range(nf) for gg in range(g)}, "emax": [x * 1e5 for x in v.reals(g)], "emin": v.r(),
         # families per nuclide (sizes its yield record): the first as given, the others different
         "nkfam": [s["nkfam"] if k == 0 else (s["nkfam"] + 3 * k) % 7 for k in range(nn)], "skip": list(range(nn)), "dummy2": ["D%d" % i for i in range(s["ndummy"])], "nucs": []}
    for k in range(nn):
        m["nucs"].append({"yield": {(p, gg): v.r() for p in range(m["nkfam"][k]) for gg in range(g)}, "family": [1 + (k + p) % nf for p in range(6)]})
    return m


def dlayxs_build(s, rot=0):
    np = _np()
    from armi.nucDirectory import nuclideBases
    from armi.nuclearDataIO.cccc import dlayxs

    m = _dl_model(s, rot)
    d = dlayxs.Dlayxs()
    md = d.metadata
    md["label"], md["numEnergyGroups"], md["numFamilies"], md["dummy"] = m["label"], m["G"], m["nfam"], m["dummy"]
    md["nuclideIDs"] = np.array(m["ids"], dtype=str)
    md["precursorDecayConstants"] = np.array(m["decay"])
    a = np.zeros((m["G"], m["nfam"]))
    for idx, val in m["spec"].items():
        a[idx] = val
    md["delayEmissionSpectrum"] = a
    d.neutronEnergyUpperBounds = np.array(m["emax"])
    md["minEnergy"] = m["emin"]
    md["nkfam"], md["recordsToSkip"] = np.array(m["nkfam"], dtype=int), np.array(m["skip"], dtype=int)
    md["dummy2"] = np.array(m["dummy2"], dtype=str)
    for nid, q in zip(m["ids"], m["nucs"]):
        base = nuclideBases.byMcc3Id[nid]
        dn = dlayxs.DelayedNeutronData(m["G"], d.numPrecursorGroups)
        for idx, val in q["yield"].items():
            dn.delayNeutronsPerFission[idx] = val
        d[base] = dn
        d.nuclideFamily[base] = np.array(q["family"], dtype=int)
    return d


def dlayxs_ref(s, rot=0):
    m = _dl_model(s, rot)
    g, nf, nn = m["G"], m["nfam"], len(m["ids"])
    recs = [("file-id", _pk([_S(m["label"], len(m["label"]))])), ("file-control", _pk([("i", x) for x in (g, nn, nf, m["dummy"])]))]
    flat = [_S(x, 8) for x in m["ids"]] + [("f", x) for x in m["decay"]] + [("f", m["spec"][gg, f]) for f in range(nf) for gg in range(g)]
    flat += [("f", x) for x in m["emax"] + [m["emin"]]] + [("i", x) for x in m["nkfam"] + m["skip"]] + [_S(x, 4) for x in m["dummy2"]]
    recs.append(("decay-constants-and-spectra", _pk(flat)))
    for k, q in enumerate(m["nucs"]):
        recs.append(("delayed-neutron-yield", _pk([("f", q["yield"][p, gg]) for p in range(m["nkfam"][k]) for gg in range(g)] + [("i", x) for x in q["family"]])))
    return recs


def dlayxs_io(s):
    from armi.nuclearDataIO.cccc import dlayxs

    return dlayxs.writeBinary, dlayxs.readBinary, dlayxs.writeAscii, dlayxs.readAscii


def dlayxs_observe(d):
    # per-nuclide decay constants / emission spectra are derived from the family data by the
    # stream itself (on read and on write): not part of what is stored
    o = {"md": W.canon(d.metadata), "emax": W.canon(d.neutronEnergyUpperBounds), "nuclides": []}
    for base, dn in d.items():
        o["nuclides"].append({"name": base.name, "yield": W.canon(dn.delayNeutronsPerFission), "family": W.canon(d.nuclideFamily.get(base))})
    return o


# =============================================================================================
# COMPXS


def scatter_widths(ng):
    """every valid (numUp[g], numDown[g]) assignment: up-scatter from lower groups g+1.., down from ..g-1"""
    per = [[(u, d) for u in range(ng - g) for d in range(g + 1)] for g in range(ng)]
    return [list(map(list, c)) for c in itertools.product(*per)]


def compxs_specs(quick):
    out = []
    for ng in (1, 2, 3):
        for widths in scatter_widths(ng):
            for order in (0, 2) if quick else (0, 1, 2):
                for chis in ((0,), (1,), (2, 0), (1, 2)) if not quick else ((0,), (2, 1)):
                    for fam in (0, 2):
                        out.append({"fmt": "compxs", "ng": ng, "widths": widths, "order": order, "chis": list(chis), "fam": fam, "fwchi": 0, "ndelay": 0})
    # optional composition-independent records (file-wide chi, delayed-neutron data)
    for ng in (1, 2):
        for fw, nd in ((1, 0), (2, 0), (0, 1), (0, 3), (1, 2)):
            out.append({"fmt": "compxs", "ng": ng, "widths": scatter_widths(ng)[-1], "order": 0, "chis": [1], "fam": 2 if nd else 0, "fwchi": fw, "ndelay": nd})
    if not quick:  # one record (power conversion factors, 2 reals per composition) beyond io.DEFAULT_BUFFER_SIZE fields
        out.append({"fmt": "compxs", "big": True, "ng": 1, "widths": [[0, 0]], "order": 0, "chis": [k % 2 for k in range(4100)], "fam": 0, "fwchi": 0, "ndelay": 0})
    return out


def _cx_model(s, rot=0):
    v = Vals(rot)
    ng, nc = s["ng"], len(s["chis"])
    m = {"ng": ng, "nc": nc, "fwchi": s["fwchi"], "nfis": sum(1 for c in s["chis"] if c), "maxup": max(w[0] for w in s["widths"]), "maxdn": max(w[1] for w in s["widths"]),
         "ndelay": s["ndelay"], "order": s["order"], "res1": v.i(), "res2": v.i(), "vel": [x * 1e7 for x in v.reals(ng)], "emax": [x * 1e5 for x in v.reals(ng)], "emin": v.r(),
         # precursor families per composition (sizes 3D/4D record tails): first as given, others different
         "fams": [(s["fam"] + k) % 3 for k in range(nc)], "fisw": v.reals(nc), "capw": v.reals(nc), "comps": []}
    m["fwchiData"] = {(g, c): v.r() for c in range(s["fwchi"]) for g in range(ng)} if s["fwchi"] else None
    m["dchi"] = {(f, g): v.r() for g in range(ng) for f in range(s["ndelay"])} if s["ndelay"] else None
    m["ddecay"] = v.reals(s["ndelay"])
    for c, chiFlag in enumerate(s["chis"]):
        fam = m["fams"][c]
        q = {"chiFlag": chiFlag, "up": [w[0] for w in s["widths"]], "down": [w[1] for w in s["widths"]], "fam": fam, "famI": v.ints(fam), "groups": []}
        q["scat"] = {o: {} for o in range(s["order"] + 1)}
        for g in range(ng):
            gr = {"prim": v.reals(4), "fis": v.reals(2) if chiFlag else None, "chi": v.reals(chiFlag), "pc": v.reals(7), "prec": v.ints(fam), "n2n": v.r()}
            for o in range(s["order"] + 1):
                for r in range(g - q["down"][g], g + q["up"][g] + 1):
                    q["scat"][o][r, g] = v.r()
            q["groups"].append(gr)
        m["comps"].append(q)
    return m


def compxs_build(s, rot=0):
    np = _np()
    from scipy.sparse import csc_matrix

    from armi.nuclearDataIO import xsLibraries
    from armi.nuclearDataIO.cccc import compxs

    m = _cx_model(s, rot)
    ng = m["ng"]
    lib = xsLibraries.CompxsLibrary()
    md = lib.compxsMetadata
    for a, b in (("numComps", "nc"), ("numGroups", "ng"), ("fileWideChiFlag", "fwchi"), ("numFissComps", "nfis"), ("maxUpScatterGroups", "maxup"), ("maxDownScatterGroups", "maxdn"),
                 ("numDelayedFam", "ndelay"), ("maxScatteringOrder", "order"), ("reservedFlag1", "res1"), ("reservedFlag2", "res2"), ("minimumNeutronEnergy", "emin")):
        md[a] = m[b]
    if m["fwchi"]:
        a = np.zeros((ng, m["fwchi"]))
        for idx, val in m["fwchiData"].items():
            a[idx] = val
        md["fileWideChi"] = a
    if m["ndelay"]:
        a = np.zeros((m["ndelay"], ng))
        for idx, val in m["dchi"].items():
            a[idx] = val
        md["delayedChi"] = a
        md["delayedDecayConstant"] = np.array(m["ddecay"])
    lib.neutronVelocity, lib.neutronEnergyUpperBounds = np.array(m["vel"]), np.array(m["emax"])
    md["compFamiliesWithPrecursors"] = np.array(m["fams"], dtype=int)
    md["fissionWattSeconds"], md["captureWattSeconds"] = np.array(m["fisw"]), np.array(m["capw"])
    for c, q in enumerate(m["comps"]):
        reg = compxs.CompxsRegion(lib, c)
        r = reg.metadata
        r["chiFlag"] = q["chiFlag"]
        r["numUpScatterGroups"], r["numDownScatterGroups"] = np.array(q["up"], dtype=int), np.array(q["down"], dtype=int)
        if q["fam"]:
            r["numFamI"] = np.array(q["famI"], dtype=int)
        from armi.nuclearDataIO.nuclearFileMetadata import REGIONXS_POWER_CONVERT_DIRECTIONAL_DIFF as pcKeys

        # the container holds one list per *name* armi reads/writes in the 4D record (7 reals)
        for i, key in enumerate(pcKeys):
            r[key] = [gr["pc"][i] for gr in q["groups"]]
        mac = reg.macros
        for i, name in enumerate(("absorption", "total", "removal", "transport")):
            mac[name] = np.array([gr["prim"][i] for gr in q["groups"]])
        mac.n2n = np.array([gr["n2n"] for gr in q["groups"]])
        if q["chiFlag"]:
            mac.fission = np.array([gr["fis"][0] for gr in q["groups"]])
            mac.nuSigF = np.array([gr["fis"][1] for gr in q["groups"]])
            mac.chi = np.array([gr["chi"] for gr in q["groups"]])
        if q["fam"]:
            for g, gr in enumerate(q["groups"]):
                r["numPrecursorsProduced", g] = np.array(gr["prec"], dtype=int)
        for o, tab in q["scat"].items():
            dense = np.zeros((ng, ng))
            for idx, val in tab.items():
                dense[idx] = val
            if o == 0:
                mac.totalScatter = csc_matrix(dense)
            else:
                mac.higherOrderScatter[o] = csc_matrix(dense)
    return lib


def compxs_ref_lengths(s, rot=0):
    """record lengths only (8-byte reals, 4-byte integers), by the DIF3D COMPXS description"""
    ng, nc = s["ng"], len(s["chis"])
    recs = [("1D-specifications", 4 * 10)]
    # the width (and index order) of the file-wide chi / delayed chi blocks cannot be settled offline
    # (armi uses 4-byte reals there, 8-byte ones everywhere else in this file): presence only
    recs.append(("2D-composition-independent-data", None if (s["fwchi"] or s["ndelay"]) else 8 * (2 * ng + 1) + 4 * nc))
    for c, chiFlag in enumerate(s["chis"]):
        fam = (s["fam"] + c) % 3
        recs.append(("3D-composition-specifications", 4 * (1 + 2 * ng + fam)))
        for g in range(ng):
            nscat = s["widths"][g][0] + 1 + s["widths"][g][1]
            recs.append(("4D-composition-group-cross-sections", 8 * (4 + ((2 + chiFlag) if chiFlag else 0) + nscat + 7 + 1 + s["order"] * nscat) + 4 * fam))
    recs.append(("5D-power-conversion-factors", 8 * 2 * nc))
    return recs


def compxs_io(s):
    from armi.nuclearDataIO.cccc import compxs

    return compxs.writeBinary, compxs.readBinary, compxs.writeAscii, compxs.readAscii


def compxs_observe(lib):
    o = {"md": W.canon(lib.compxsMetadata), "neutronVelocity": W.canon(getattr(lib, "_neutronVelocity", None)),
         "neutronEnergyUpperBounds": W.canon(getattr(lib, "_neutronEnergyUpperBounds", None)), "regions": []}
    for reg in lib.regions:
        o["regions"].append({"number": reg.regionNumber, "md": W.canon(reg.metadata), "macros": _xs_obs(reg.macros)})
    return o


# =============================================================================================

FORMATS = {
    "isotxs": (lambda q: isotxs_specs(q, "isotxs"), isotxs_build, isotxs_ref, isotxs_io, isotxs_observe),
    "gamiso": (lambda q: isotxs_specs(q, "gamiso"), isotxs_build, isotxs_ref, isotxs_io, isotxs_observe),
    "pmatrx": (pmatrx_specs, pmatrx_build, pmatrx_ref, pmatrx_io, isotxs_observe),
    "dlayxs": (dlayxs_specs, dlayxs_build, dlayxs_ref, dlayxs_io, dlayxs_observe),
    "compxs": (compxs_specs, compxs_build, compxs_ref_lengths, compxs_io, compxs_observe),
}


# =============================================================================================
# systematic reduction of fixture libraries


def reduce(fmt, whole, keep, clear=None):
    """sub-container holding the members ``keep`` (indices, in that order) of ``whole``; ``clear``
    names one optional datum that is removed together with its header flag."""
    if fmt in ("isotxs", "gamiso", "pmatrx"):
        return _reduce_lib(fmt, whole, keep, clear)
    if fmt == "dlayxs":
        return _reduce_dlayxs(whole, keep)
    if fmt == "compxs":
        return _reduce_compxs(whole, keep)
    raise ValueError(fmt)


def _reduce_lib(fmt, whole, keep, clear):
    np = _np()
    from armi.nuclearDataIO import xsLibraries

    new = xsLibraries.IsotxsLibrary()
    getattr(new, fmt + "Metadata").update(getattr(whole, fmt + "Metadata"))
    for prop in ("neutronVelocity", "neutronEnergyUpperBounds", "gammaEnergyUpperBounds", "neutronDoseConversionFactors", "gammaDoseConversionFactors"):
        val = getattr(whole, "_" + prop, None)
        if val is not None:
            setattr(new, prop, val)
    labels = whole.nuclideLabels
    for i in keep:
        nuc = whole[labels[i]]
        new[labels[i]] = nuc
        if not clear:
            continue
        if fmt == "pmatrx":
            p = nuc.pmatrxMetadata
            if clear == "heat":
                p["hasNeutronHeatingAndDamage"] = False
                nuc.neutronHeating = nuc.neutronDamage = None
            elif clear == "gheat":
                p["hasGammaHeating"] = False
                nuc.gammaHeating = None
            elif clear == "order0":
                p["maxScatteringOrder"] = 0
                nuc.isotropicProduction = nuc.linearAnisotropicProduction = None
                nuc.nOrderProductionMatrix = {}
            continue
        md = nuc.gamisoMetadata if fmt == "gamiso" else nuc.isotxsMetadata
        mic = nuc.gammaXS if fmt == "gamiso" else nuc.micros
        ng = len(mic.nGamma)
        if clear == "n2n":
            md["n2n"] = 0
            mic.n2n = np.zeros(ng)
        elif clear == "fis":
            md["fisFlag"], md["chiFlag"] = 0, 0
            mic.fission, mic.neutronsPerFission, mic.chi = np.zeros(ng), np.zeros(ng), np.zeros(ng)
        elif clear == "ltrn1":
            md["ltrn"] = 1
            mic.transport = mic.transport[:, :1].copy()
        elif clear.startswith("block"):
            b = int(clear[5:])
            if b < len(md["ords"]):
                ords = np.array(md["ords"])
                ords[b] = 0
                md["ords"] = ords
                flag = int(md["scatFlag"][b])
                if flag in (100, 200, 300, 0, 101):
                    _scat_attr(flag, mic, b, None)
                else:
                    mic.higherOrderScatter.pop(b, None)
    return new


def _reduce_dlayxs(whole, keep):
    np = _np()
    from armi.nuclearDataIO.cccc import dlayxs

    new = dlayxs.Dlayxs()
    for k, v in whole.metadata.items():
        new.metadata[k] = v
    keys = list(whole.keys())
    new.metadata["nuclideIDs"] = np.array([whole.metadata["nuclideIDs"][i] for i in keep])
    new.metadata["nkfam"] = np.array([whole.metadata["nkfam"][i] for i in keep], dtype=int)
    new.metadata["recordsToSkip"] = np.arange(len(keep))
    new.neutronEnergyUpperBounds = whole.neutronEnergyUpperBounds
    for i in keep:
        new[keys[i]] = whole[keys[i]]
        new.nuclideFamily[keys[i]] = whole.nuclideFamily[keys[i]]
    return new


def _reduce_compxs(whole, keep):
    np = _np()
    from armi.nuclearDataIO import xsLibraries
    from armi.nuclearDataIO.cccc import compxs

    new = xsLibraries.CompxsLibrary()
    md, old = new.compxsMetadata, whole.compxsMetadata
    for k, v in old.items():
        md[k] = v
    md["numComps"] = len(keep)
    for k in ("compFamiliesWithPrecursors", "fissionWattSeconds", "captureWattSeconds"):
        md[k] = np.array([old[k][i] for i in keep], dtype=np.asarray(old[k]).dtype)
    md["numFissComps"] = sum(1 for i in keep if whole.regions[i].metadata["chiFlag"])
    new.neutronVelocity, new.neutronEnergyUpperBounds = whole._neutronVelocity, whole._neutronEnergyUpperBounds
    for k, i in enumerate(keep):
        src = whole.regions[i]
        reg = compxs.CompxsRegion(new, k)
        reg.macros = src.macros
        for key, v in src.metadata.items():
            reg.metadata[key] = v
    return new


REDUCTIONS = {
    # fmt: (fixture path, encoding, quick [(keep, clear)], thorough extra as a function of the member count)
    "isotxs": ("armi/nuclearDataIO/tests/fixtures/mc2v3-AA.isotxs", "bin", 25,
               [([0], None), ([1], None), ([4], None), ([7], None), ([24], None), ([0, 1], None), ([7, 2, 4], None),
                ([0], "n2n"), ([0], "fis"), ([0], "block0"), ([0], "block4"), ([0], "ltrn1"), ([4], "block1"), ([0, 4], "block5")]),
    "gamiso": ("armi/nuclearDataIO/tests/fixtures/mc2v3-AA.gamiso", "bin", 25, [([0], None), ([3], None), ([1, 0], None), ([0], "block0"), ([3], "block3")]),
    "pmatrx": ("armi/nuclearDataIO/tests/fixtures/mc2v3-AA.pmatrx", "bin", 25, [([0], None), ([5], None), ([1, 0], None), ([0], "heat"), ([0], "gheat"), ([0], "order0")]),
    "dlayxs": ("armi/nuclearDataIO/cccc/tests/fixtures/mc2v3.dlayxs", "bin", 14, [([0], None), ([10], None), ([0, 10], None), ([13, 0, 5], None)]),
    "compxs": ("armi/tests/COMPXS.ascii", "ascii", 3, [([0], None), ([1], None), ([2], None), ([0, 1], None), ([1, 2], None), ([2, 0], None)]),
}


def reduction_cases(quick):
    out = []
    for fmt, (path, enc, n, picks) in REDUCTIONS.items():
        sel = list(picks)
        if not quick:
            have = {tuple(k) for k, c in sel if c is None}
            for i in range(n):
                if (i,) not in have:
                    sel.append(([i], None))
            for i in range(n - 1):
                if (i, i + 1) not in have:
                    sel.append(([i, i + 1], None))
        for keep, clear in sel:
            c = {"kind": "reduce", "fmt": fmt, "path": path, "enc": enc, "keep": keep}
            if clear:
                c["clear"] = clear
            out.append(c)
    return out
