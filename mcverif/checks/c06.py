"""C06 - database snapshots are isolated, complete, queryable and survive aborted runs.

Three exhaustive searches on the real code, one boring reference model each (DESIGN 4/C06):

Part A  explicit-state BFS (mcverif.explore) over histories of a real ``Database`` + a small hex
        reactor built from generated blueprints.  Alphabet: mutate (block scalar, block array, core
        scalar, swap two assemblies, set a block parameter to None) | advance time through
        {(0,0),(0,1),(1,0),(9,9),(10,0),(99,99)} (cyclic, so writes also happen out of chronological
        order) | writeToDB() / writeToDB(label) - a write to an existing name must be refused and
        leave everything unchanged.  Model: ``{(cycle,node,label): projection of the in-memory
        reactor at write time + byte digest of the HDF5 group right after the write}``.
        In EVERY reached state all observers are run against the model: keys / genTimeSteps /
        hasTimeStep, load of every stored snapshot, getHistory / getHistories / getHistoryByLocation
        (with and without explicit time steps, moved block, moved assembly, core, never-set
        parameters), mergeHistory into a fresh database at every start point, splitDatabase on a
        copy for every prefix + one non-prefix subset; afterwards the byte digests of all groups of
        the source database must still be those taken at write time.
Part S  bounded-exhaustive enumeration of splitDatabase: every set of <= 3 (thorough 4) snapshot
        times x every non-empty keep-subset; the cycle shift must be applied consistently to the
        group name, the ``Reactor/cycle`` dataset and the group's ``cycle`` attribute (which the
        history queries use as key), everything else byte-equal.
Part R  restart merges: after a complete run, for every later (startCycle, startNode) the real
        ``DatabaseInterface.prepRestartRun`` must copy exactly the earlier steps, byte-equal, and
        attach the reactor in the state of the step before the start point.
Part C  ``with Database(...)`` left normally / through an exception, plain and re-entered: file in the
        working directory, flag, snapshots.
Part B  single-fault enumeration on a real bare ``Operator`` with the real ``DatabaseInterface``
        between two recording interfaces, run inside ``with operator:``.  The interaction points of a
        fault-free run are recorded (and compared with an independent for-loop schedule), then one
        run per point with a RuntimeError raised by the recorder exactly there.  Oracle from the .h5
        file left in the working directory.

A *case* (pure JSON) is ``{"part": "A"|"S"|"B"|"R"|"C", ...}``; ``evaluate(case)`` rebuilds everything.
"""
import hashlib
import itertools
import json
import os
import shutil

import numpy as np

from mcverif import build, core, env, explore, observe

PROPERTY = "C06"
LEVEL = "model_checking"
MOD = "mcverif.checks.c06"

# ---------------------------------------------------------------------------------------------
# bounds (one place)

TIMES = [(0, 0), (0, 1), (1, 0), (9, 9), (10, 0), (99, 99)]
PRIMS = ["power", "mgflux", "keff", "swap", "none"]
# quick tier: three bundles of the five primitive mutations (keeps the branching factor at 6)
BUNDLES = {"blk": ["power", "mgflux"], "core": ["keff", "none"], "mov": ["swap"]}
MUTS_Q = ["blk", "core", "mov"]
BOUNDS = {
    "quick": {
        # (alphabet, depth, [(spec, index of the start time)], labels, mutations)
        "searches": [
            ("por", 4, [("full3", 0)], [None, "EOL"], MUTS_Q),
            ("por", 3, [("full3", 5)], [None, "EOL"], MUTS_Q, "interleave"),  # observers after every operation
        ],
        "split_max": 3,
        "tracker": [(4, {"mov": False, "sync": True})],  # Part H: (depth, options)
        # Part B: (nCycles, burnSteps) shapes of the fault-free family / of the base fault enumeration /
        # the shape on which every write-path deviation also gets its fault enumeration
        "iter_modes": [(None, False), (0, False), (2, True)],  # cap 1 runs the same schedule as the default cap
        "shapes_free": [(1, 0), (1, 2), (2, 1), (3, 1)],
        "shapes_free_base": [(1, 1), (2, 2)],  # only the members without deviation (keeps quick within budget)
        "shapes_enum": [(1, 0), (1, 2), (2, 1)],
        "enum_all_on": [],
        "enum_deviations_on": (2, 1),
    },
    "thorough": {
        "searches": [
            ("full", 4, [("full3", 0)], [None, "EOL", "x"], MUTS_Q),  # all orders: validates the reduction
            ("por", 5, [("full3", 0), ("full7", 5)], [None, "EOL"], MUTS_Q),
            ("por", 4, [("full3", 3)], [None, "-special", "x"], PRIMS, "interleave"),
        ],
        "split_max": 4,
        "tracker": [(5, {"mov": True, "sync": True}), (4, {"mov": False, "sync": False})],
        "iter_modes": [(None, False), (0, False), (1, False), (2, True)],
        "shapes_free": [(1, 0), (1, 1), (1, 2), (1, 3), (2, 1), (2, 2), (2, 3), (3, 1), (3, 2), (3, 3)],
        "shapes_free_base": [],
        "shapes_enum": [(1, 0), (1, 1), (1, 2), (1, 3), (2, 1), (2, 2), (2, 3), (3, 1), (3, 2), (3, 3)],
        "enum_all_on": [(1, 0), (1, 1), (1, 2), (2, 1), (2, 2), (3, 1)],  # every member of the family
        "enum_deviations_on": (2, 1),
    },
}
# a refused write is a legitimate outcome only for an existing name; these are the classes the
# implementation documents/uses for it (armi raises ValueError, h5py raises ValueError/RuntimeError)
REFUSAL = (ValueError, RuntimeError)
NEVER = ["fluxPeak", "mgFluxGamma"]  # block parameters never set by the alphabet (defaults 0.0 / None)
BLOCK_PARAMS = ["power", "mgFlux"] + NEVER

# ---------------------------------------------------------------------------------------------
# process-wide state owned per execution (DESIGN 2.2)

_MASKS = None


def _reset_masks():
    """Parameter 'assigned' masks are class-level and decide which columns a write stores; restore
    them to their import-time value so that an execution does not depend on its predecessors."""
    global _MASKS
    from armi.reactor import assemblies, blocks, components, reactors  # noqa: F401 (define all pDefs)
    from armi.reactor.parameters import parameterDefinitions as pdm

    if _MASKS is None:
        _MASKS = [(pd, pd.assigned) for pd in pdm.ALL_DEFINITIONS]
    else:
        for pd, a in _MASKS:
            pd.assigned = a


def _spec(kind):
    if kind == "full3":
        return build.hex_spec(rings=2, third=False, cells=[(0, 0), (1, 0), (0, 1)])
    if kind == "full7":
        return build.hex_spec(rings=2, third=False)
    raise ValueError(kind)


def gname(key):
    """Independent statement of the naming scheme: cCCnNN<label>."""
    c, n, lab = key
    return "c%02dn%02d%s" % (c, n, lab or "")


cv = observe.canon_value


def _ints(t):
    return [int(x) for x in t]


def proj(r):
    """Projection of a reactor on what the alphabet changes (+ identity and position of every
    assembly and block), keyed by serial number. Compared exactly (pass-through path)."""
    d = {"cycle": int(r.p.cycle), "node": int(r.p.timeNode), "keff": cv(r.core.p.keff), "assems": {}, "blocks": {}}
    for a in r.core:
        d["assems"][str(int(a.p.serialNum))] = {"loc": _ints(a.spatialLocator.getCompleteIndices()), "numMoves": cv(a.p.numMoves)}
        for b in a:
            e = {"loc": _ints(b.spatialLocator.getCompleteIndices()), "assem": int(a.p.serialNum)}
            for p in BLOCK_PARAMS:
                e[p] = cv(b.p[p])
            d["blocks"][str(int(b.p.serialNum))] = e
    return d


def jd(x):
    return hashlib.sha1(json.dumps(x, sort_keys=True).encode()).hexdigest()[:16]


def _vbytes(v):
    a = np.asarray(v)
    if a.dtype.kind in "OU":
        return repr(a.tolist()).encode()
    return (str(a.dtype) + str(a.shape)).encode() + np.ascontiguousarray(a).tobytes()


def gdigest(g, shift=0, group_attrs=True):
    """Order-independent digest of everything stored below an HDF5 group: member names, attributes,
    dtypes, shapes, bytes (low-level h5py API: the high-level wrappers cost 3x more). ``shift`` is
    subtracted from the two places that hold the cycle number (split renumbers cycles)."""
    from h5py import h5a, h5d, h5g, h5o, h5s

    items = []

    def raw(arr):
        return repr(arr.tolist()).encode() if arr.dtype.kind in "OU" else arr.tobytes()

    def attrs(oid, top):
        out = []
        for i in range(h5a.get_num_attrs(oid)):
            a = h5a.open(oid, index=i)
            arr = np.empty(a.shape, dtype=a.dtype)
            a.read(arr)
            if top and a.name == b"cycle":
                arr = arr - shift
            out.append((a.name, arr.dtype.str, a.shape, raw(arr)))
        out.sort()
        return out

    def walk(gid, prefix):
        for name in gid:
            oid = h5o.open(gid, name)
            path = prefix + name
            if isinstance(oid, h5g.GroupID):
                items.append((path, "G", attrs(oid, False)))
                walk(oid, path + b"/")
            elif isinstance(oid, h5d.DatasetID):
                arr = np.empty(oid.shape, dtype=oid.dtype)
                if arr.size:
                    oid.read(h5s.ALL, h5s.ALL, arr)
                if path == b"Reactor/cycle":
                    arr = arr - shift
                items.append((path, arr.dtype.str, oid.shape, raw(arr), attrs(oid, False)))
            else:
                items.append((path, "?", type(oid).__name__))

    if group_attrs:
        items.append((b".", attrs(g.id, True)))
    walk(g.id, b"")
    items.sort(key=lambda x: x[0])
    return hashlib.sha1(repr(items).encode()).hexdigest()[:16]


# =============================================================================================
# Part A
# =============================================================================================


class St:
    """Real reactor + real open Database + the reference model."""

    def __init__(self, init):
        from armi import context
        from armi.bookkeeping.db import Database

        _reset_masks()
        self.init = init
        self.seed = int(init.get("seed", 0))
        self.spec = _spec(init["spec"])
        self.cs = build.settings()
        self.bptext = build.render(build.normalize(self.spec))
        self.r = build.reactor(self.spec, self.cs, seed=self.seed)
        self.dir = env.fresh_dir("c06a")
        os.chdir(self.dir)
        fast = os.path.join(self.dir, "fast")
        os.makedirs(fast)
        context._FAST_PATH = fast  # a "w" database lives here until closed, then moves to cwd
        self.fast = fast
        assems = sorted(self.r.core, key=lambda a: a.p.serialNum)
        self.A0, self.A1 = assems[0], assems[1]
        self.b0, self.b1 = self.A0[0], self.A1[0]
        for i, b in enumerate(self.r.core.getBlocks()):
            b.p.mgFlux = np.array([1.0, 2.0, 3.0 + i])  # same shape everywhere: the supported history path
        self.ti = int(init["t0"])
        self.r.p.cycle, self.r.p.timeNode = TIMES[self.ti]
        self.model = {}  # (c, n, label) -> {"proj", "dig"}
        self.nw = 0  # successful writes so far (mutation values depend on it: idempotent between writes)
        self.viols = []
        self.dbs = []
        self.db = Database("a.h5", "w")
        self.dbs.append(self.db)
        self.db.open()
        self.db.writeInputsToDB(self.cs, bpString=self.bptext)

    def close(self):
        from mcverif import env as _env

        for d in self.dbs:
            try:
                if d.isOpen():
                    d.h5db.close()
                    d.h5db = None
            except Exception:
                pass
        _env.enter_scratch()
        shutil.rmtree(self.dir, ignore_errors=True)

    @property
    def now(self):
        return (int(self.r.p.cycle), int(self.r.p.timeNode))

    def case(self, item):
        return {"part": "A", "init": item["init"], "hist": item["hist"], "outs": item.get("outs", [])}


def apply(st, op):
    """One operation of the alphabet on the real objects and on the model. Returns the outcome."""
    k = op[0]
    base = 10.0 * st.nw + (st.seed % 7)
    if k == "mut" and op[1] in BUNDLES:
        for m in BUNDLES[op[1]]:
            apply(st, ["mut", m])
        return "ok"
    if k == "mut":
        m = op[1]
        if m == "power":
            st.b0.p.power = 1001.0 + base
        elif m == "mgflux":
            st.b0.p.mgFlux = np.array([1.5 + base, 2.5, 3.5 - base])
        elif m == "keff":
            st.r.core.p.keff = 1.0 + (base + 1.0) / 1024.0
        elif m == "swap":
            l0, l1 = st.A0.spatialLocator, st.A1.spatialLocator
            st.A0.moveTo(l1)
            st.A1.moveTo(l0)
            st.r.core.sort()  # child order follows position: the layout order of the next write differs
        elif m == "none":
            st.b1.p.power = None
        else:
            raise ValueError(op)
        return "ok"
    if k == "time":
        st.ti = (st.ti + 1) % len(TIMES)
        st.r.p.cycle, st.r.p.timeNode = TIMES[st.ti]
        return "ok"
    if k == "write":
        label = op[1]
        key = st.now + (label or "",)
        existed = key in st.model
        try:
            st.db.writeToDB(st.r, label)
        except REFUSAL as e:
            out = "refused:" + type(e).__name__
            if not existed:
                st.viols.append(("write-refused-fresh-name", "writeToDB(%r) at %s refused with %r although no such snapshot exists" % (label, st.now, e)))
            return out
        except Exception as e:
            st.viols.append(("write-raises:" + type(e).__name__, "writeToDB(%r) at %s raised %r" % (label, st.now, e)))
            return "raised:" + type(e).__name__
        if existed:
            st.viols.append(("overwrite-accepted", "second writeToDB(%r) at %s was accepted; an existing snapshot must be refused" % (label, st.now)))
            return "ok-overwrite"
        st.model[key] = {"proj": proj(st.r), "dig": gdigest(st.db.h5db[gname(key)])}
        st.nw += 1
        return "ok"
    raise ValueError(op)


def enabled_ops(init, hist):
    labels = init["labels"]
    MUTS = init["muts"]
    seg = []
    for o in hist:
        seg = [] if o[0] == "write" else seg + [o]
    ops = [["write", labels[0]]]
    if init["alpha"] == "por":
        # partial-order reduction: in-memory mutations commute with each other and with a time
        # advance (disjoint parameters) and are idempotent between two writes; explore one order.
        if not any(o[0] == "time" for o in seg):
            last = max([MUTS.index(o[1]) for o in seg if o[0] == "mut"], default=-1)
            ops += [["mut", m] for m in MUTS[last + 1 :]]
        if sum(1 for o in seg if o[0] == "time") < len(TIMES) - 1:
            ops.append(["time"])
    else:
        ops += [["mut", m] for m in MUTS]
        ops.append(["time"])
    ops += [["write", l] for l in labels[1:]]
    return ops


# --- observers ---------------------------------------------------------------------------------


def _norm_hist(h):
    """{param: OrderedDict{(c,n): value}} -> {param: [[c, n, canon value], ...]} in returned order."""
    return {p: [[int(k[0]), int(k[1]), cv(v)] for k, v in od.items()] for p, od in h.items()}


def _value(pr, kind, serial, param):
    if kind == "core":
        return pr["keff"]
    if kind == "reactor":
        return pr["cycle"] if param == "cycle" else pr["node"]
    e = pr[kind][str(serial)]
    if param == "location":
        return e["loc"]
    return e[param]


def _view(st, view):
    """The snapshots a database is expected to hold: ordered [(key, projection)] (default: the model)."""
    return [(k, st.model[k]["proj"]) for k in sorted(st.model)] if view is None else view


def _expected_history(st, kind, serial, param, steps, view=None):
    """Per (cycle,node): the list of admissible values (more than one only when a labelled and an
    unlabelled snapshot share the pair and no explicit steps were given), in the order a history
    must list them: stored steps chronologically (or as requested), the live step last."""
    per = {}
    order = []
    held = dict(_view(st, view))
    keys = [k for k, _ in _view(st, view)]
    if steps is not None:
        keys = [tuple(s) + ("",) for s in steps]
    for key in keys:
        cn = key[:2]
        if cn not in per:
            per[cn] = []
            order.append(cn)
        per[cn].append(_value(held[key], kind, serial, param))
    if st.now not in per:  # documented addition: the live value at the live (cycle, node)
        per[st.now] = [_value(proj(st.r), kind, serial, param)]
        order.append(st.now)
    return order, per


def _cmp_history(st, got, kind, serial, param, steps, what, out, view=None):
    order, per = _expected_history(st, kind, serial, param, steps, view)
    rows = got.get(param)
    if rows is None:
        out.append(("history-missing-param", "%s: parameter %s absent from the returned history" % (what, param)))
        return
    gk = [(r[0], r[1]) for r in rows]
    if gk != order:
        out.append(("history-steps", "%s[%s]: steps %s, expected %s (stored steps%s, live step %s)" % (what, param, gk, order, "" if steps is None else " as requested", st.now)))
        return
    for c, n, v in rows:
        if v not in per[(c, n)]:
            out.append(("history-value:" + ("location" if param == "location" else kind), "%s[%s] at (%d,%d) = %r, the object had %r at that write" % (what, param, c, n, v, per[(c, n)])))
            return


def obs_history(st, db=None, view=None, light=False, where=""):
    """History queries on ``db`` (default: the database under test) against the snapshots it is
    expected to hold (``view``; default: the model). ``light``: without explicit time steps only."""
    out = []
    db = st.db if db is None else db
    held = _view(st, view)
    if not held:
        return out  # an empty database lists no step at all (the live value is only added to listed parameters)
    stored = sorted({k[:2] for k, _ in held if k[2] == ""})
    step_sets = [None]
    if stored and not light:
        step_sets.append(stored)
    if len(stored) >= 2 and not light:
        step_sets.append(stored[::-2])  # a strict subset, not in chronological order
    blocks = [st.b0, st.b1]
    for steps in step_sets:
        tag = where + ("" if steps is None else " timeSteps=%s" % (steps,))
        try:
            hs = db.getHistories(blocks, BLOCK_PARAMS, None if steps is None else list(steps))
            for b, nm in zip(blocks, ("b0", "b1")):
                g = _norm_hist(hs[b])
                for p in BLOCK_PARAMS:
                    _cmp_history(st, g, "blocks", int(b.p.serialNum), p, steps, "getHistories(%s)%s" % (nm, tag), out, view)
            g = _norm_hist(db.getHistory(st.A0, ["location", "numMoves"], None if steps is None else list(steps)))
            for p in ("location", "numMoves"):
                _cmp_history(st, g, "assems", int(st.A0.p.serialNum), p, steps, "getHistory(A0)%s" % tag, out, view)
            if not light:
                g = _norm_hist(db.getHistory(st.b0, ["power"], None if steps is None else list(steps)))
                _cmp_history(st, g, "blocks", int(st.b0.p.serialNum), "power", steps, "getHistory(b0)%s" % tag, out, view)
                g = _norm_hist(db.getHistory(st.r.core, ["keff"], None if steps is None else list(steps)))
                _cmp_history(st, g, "core", None, "keff", steps, "getHistory(core)%s" % tag, out, view)
                g = _norm_hist(db.getHistory(st.r, ["cycle", "timeNode"], None if steps is None else list(steps)))
                for p in ("cycle", "timeNode"):
                    _cmp_history(st, g, "reactor", None, p, steps, "getHistory(reactor)%s" % tag, out, view)
        except Exception as e:
            out.append(("history-raises:" + type(e).__name__, "history query%s raised %r" % (tag, e)))
    # by location: whichever block sat where b0 sits now
    try:
        g = _norm_hist(db.getHistoryByLocation(st.b0, ["power"]))
        here = _ints(st.b0.spatialLocator.getCompleteIndices())
        exp = {}
        for key, pr in held:
            vals = [e["power"] for e in pr["blocks"].values() if e["loc"] == here]
            exp.setdefault(key[:2], []).extend(vals)
        rows = g.get("power", [])
        if [(r[0], r[1]) for r in rows] != list(exp):
            out.append(("history-bylocation-steps", "getHistoryByLocation(b0)%s: steps %s, stored %s" % (where, [(r[0], r[1]) for r in rows], list(exp))))
        else:
            for c, n, v in rows:
                if v not in exp[(c, n)]:
                    out.append(("history-bylocation-value", "getHistoryByLocation(b0)%s[power] at (%d,%d) = %r, the block at %s had %r" % (where, c, n, v, here, exp[(c, n)])))
                    break
    except Exception as e:
        out.append(("history-bylocation-raises:" + type(e).__name__, "getHistoryByLocation%s raised %r" % (where, e)))
    return out


def raw_names(h5):
    """Top-level members of an HDF5 file, read without ARMI's own idea of what a time step name is."""
    return sorted(h5.keys())


def _open_db(st, name, perm):
    from armi.bookkeeping.db import Database

    d = Database(name, perm)
    st.dbs.append(d)
    d.open()
    return d


def _finish_db(st, d, ok=True):
    try:
        d.close(ok)
    finally:
        if d in st.dbs:
            st.dbs.remove(d)


def obs_merge(st, load_one):
    out = []
    keys = sorted(st.model)
    starts = sorted({k[:2] for k in keys})
    absent = [t for t in TIMES if t not in starts]
    if absent:
        starts.append(absent[-1])  # a start point that is not stored: everything is history
    for i, (sc, sn) in enumerate(starts):
        exp = list(itertools.takewhile(lambda k: k[:2] != (sc, sn), keys))
        name = "m%d.h5" % i
        try:
            m = _open_db(st, name, "w")
            m.writeInputsToDB(st.cs, bpString=st.bptext)
            m.mergeHistory(st.db, sc, sn)
            got = list(m.keys())
            want = ["/" + gname(k) for k in exp]
            raw = [n for n in raw_names(m.h5db) if n != "inputs"]
            if got != want:
                out.append(("merge-steps", "mergeHistory(start=(%d,%d)) copied %s, expected exactly the steps before the start: %s" % (sc, sn, got, want)))
            elif raw != sorted(gname(k) for k in exp):
                out.append(("merge-raw-names", "mergeHistory(start=(%d,%d)): the new file holds the groups %s, expected %s" % (sc, sn, raw, sorted(gname(k) for k in exp))))
            elif i == len(starts) - 1:  # the largest merge: every copied step byte-equal, history as in the source
                out += [(k_, "on the merged database: " + m_) for k_, m_ in obs_history(st, m, [(k, st.model[k]["proj"]) for k in exp], light=True, where=" after mergeHistory(start=(%d,%d))" % (sc, sn))]
                for k in exp:
                    if gdigest(m.h5db[gname(k)]) != st.model[k]["dig"]:
                        out.append(("merge-changed", "mergeHistory(start=(%d,%d)): copied %s is not byte-equal to the snapshot written" % (sc, sn, gname(k))))
                        break
                if load_one and exp:
                    k = exp[-1]
                    pr = proj(m.load(k[0], k[1], statePointName=k[2] or None))
                    d = observe.diff(st.model[k]["proj"], pr)
                    if d:
                        out.append(("merge-load", "load(%s) from the merged database differs from the state written: %s" % (gname(k), d[:4])))
            _finish_db(st, m)
            if not os.path.exists(os.path.join(st.dir, name)):
                out.append(("close-not-in-workdir", "closing the merged database did not leave %s in the working directory" % name))
        except Exception as e:
            out.append(("merge-raises:" + type(e).__name__, "mergeHistory(start=(%d,%d)) raised %r" % (sc, sn, e)))
    return out


def split_expect(keep):
    """Independent statement of the documented renumbering: cycles shifted so the earliest kept
    cycle becomes 0, nodes kept."""
    minc = min(c for c, n in keep)
    return minc, [((c - minc, n), (c, n)) for c, n in sorted(keep)]


def check_split(st, keep, tag, report_shift_attr=True, load_one=True, light=False, query_first=True, load_first=False):
    """splitDatabase(keep) on a copy of st.db; returns [(key, msg)]. ``light``: steps and cycle
    numbers only (no byte comparison, no load)."""
    import h5py

    out = []
    src = "s%s.h5" % tag
    bk = "s%s-bk.h5" % tag
    st.db.h5db.flush()
    shutil.copyfile(st.db._fullPath, os.path.join(st.dir, src))
    all_keys = sorted(st.model)
    minc, pairs = split_expect(keep)
    what = "splitDatabase(keep=%s)" % (keep,)
    try:
        sd = _open_db(st, src, "a")
        if query_first:
            # observers first, on the very object that is split afterwards (whatever they leave
            # behind must not survive the renumbering): listing, history, one load
            if list(sd.keys()) != ["/" + gname(k) for k in all_keys]:
                out.append(("keys", "%s: keys() before the split = %s" % (what, list(sd.keys()))))
            out += obs_history(st, sd, None, light=True, where=" before " + what)
            if load_first:
                k0 = tuple(sorted(keep)[0]) + ("",)
                d = observe.diff(st.model[k0]["proj"], proj(sd.load(k0[0], k0[1])))
                if d:
                    out.append(("load-differs", "%s: load(%s) before the split: %s" % (what, gname(k0), d[:4])))
        back = sd.splitDatabase([tuple(k) for k in keep], "-bk")
        if os.path.abspath(back) != os.path.join(st.dir, bk) or not os.path.exists(back):
            out.append(("split-backup-path", "%s returned %r, expected %s" % (what, back, bk)))
        else:
            with h5py.File(back, "r") as f:
                names = [n for n in raw_names(f) if n != "inputs"]
                if names != [gname(k) for k in all_keys]:
                    out.append(("split-backup-steps", "%s: the full-history file holds %s, expected %s" % (what, names, [gname(k) for k in all_keys])))
                elif not light:
                    for k in all_keys:
                        if gdigest(f[gname(k)]) != st.model[k]["dig"]:
                            out.append(("split-backup-changed", "%s: %s in the full-history file is not byte-equal to the snapshot written" % (what, gname(k))))
                            break
        got = list(sd.keys())
        want = ["/" + gname(new + ("",)) for new, old in pairs]
        raw = [n for n in raw_names(sd.h5db) if n != "inputs"]
        if got != want:
            out.append(("split-steps", "%s kept %s, expected exactly %s (cycles renumbered from %d)" % (what, got, want, minc)))
        elif raw != sorted(w[1:] for w in want):
            out.append(("split-raw-names", "%s: the split file holds the groups %s, expected exactly %s" % (what, raw, sorted(w[1:] for w in want))))
        else:
            if "inputs" not in sd.h5db:
                out.append(("split-inputs", "%s: the inputs group was not carried over" % what))
            for new, old in pairs:
                g = sd.h5db[gname(new + ("",))]
                m = st.model[old + ("",)]
                rc = int(np.asarray(g["Reactor/cycle"][()]).ravel()[0])
                rn = int(np.asarray(g["Reactor/timeNode"][()]).ravel()[0])
                if (rc, rn) != new:
                    out.append(("split-reactor-cycle", "%s: group %s holds Reactor/cycle,timeNode = %s" % (what, gname(new + ("",)), (rc, rn))))
                    break
                if not light and gdigest(g, shift=-minc, group_attrs=False) != gdigest_shifted_ref(st, old, m):
                    out.append(("split-changed", "%s: data of step %s (stored as %s) differ from the snapshot written beyond the cycle renumbering" % (what, old, gname(new + ("",)))))
                    break
                ga = (int(g.attrs["cycle"]), int(g.attrs["timeNode"]))
                if ga != new and report_shift_attr:
                    out.append(("split-cycle-attr-stale", "%s: group %s (step %s renumbered) still carries attrs cycle,timeNode = %s; histories are keyed by these" % (what, gname(new + ("",)), old, ga)))
                    break
            if not out:
                # the same object, queried again: a history of the split database lists its own steps
                # with the values of the steps kept
                view = []
                for new, old in pairs:
                    pr = json.loads(json.dumps(st.model[old + ("",)]["proj"]))
                    pr["cycle"] = new[0]
                    view.append((new + ("",), pr))
                out += [("split-" + k_, m_) for k_, m_ in obs_history(st, sd, view, light=True, where=" after " + what)]
            if load_one and not light and not out:
                new, old = pairs[-1]
                pr = proj(sd.load(new[0], new[1]))
                ex = json.loads(json.dumps(st.model[old + ("",)]["proj"]))
                ex["cycle"] = new[0]
                d = observe.diff(ex, pr)
                if d:
                    out.append(("split-load", "%s: load%s differs from the state written at %s: %s" % (what, new, old, d[:4])))
        sd.h5db.close()
        sd.h5db = None
        st.dbs.remove(sd)
    except Exception as e:
        out.append(("split-raises:" + type(e).__name__, "%s raised %r" % (what, e)))
    return out


def gdigest_shifted_ref(st, old, m):
    """Digest of the source group without the group attributes (cached per model entry)."""
    if "dig_noattr" not in m:
        m["dig_noattr"] = gdigest(st.db.h5db[gname(old + ("",))], group_attrs=False)
    return m["dig_noattr"]


def obs_split(st):
    out = []
    stored = sorted({k[:2] for k in st.model if k[2] == ""})
    keeps = [stored[: i + 1] for i in range(len(stored))]  # every prefix ...
    if len(stored) >= 2:
        keeps.append([stored[-1]] if len(stored) == 2 else [stored[-1], stored[0]])  # ... and a non-prefix (unsorted)
    for i, keep in enumerate(keeps):
        # Full comparison (bytes, full-history file, load) for the whole set and the non-prefix subset,
        # steps and cycle numbers for the shorter prefixes (Part S compares bytes for ALL subsets).
        # On the object that is split, the history observers run first for the two fully compared subsets.
        full = i >= len(stored) - 1
        out += check_split(st, [list(k) for k in keep], "%d" % i, load_one=(i == len(keeps) - 1), light=not full, query_first=full)
    # asking for a step that is not stored must be refused
    absent = [t for t in TIMES if t not in stored]
    if stored and absent:
        try:
            shutil.copyfile(st.db._fullPath, os.path.join(st.dir, "sx.h5"))
            sd = _open_db(st, "sx.h5", "a")
            try:
                sd.splitDatabase([stored[0], absent[0]], "-bk")
                out.append(("split-absent-accepted", "splitDatabase accepted the step %s which is not stored" % (absent[0],)))
            except REFUSAL:
                pass
            if sd.h5db is not None:
                try:
                    sd.h5db.close()
                except Exception:
                    pass
                sd.h5db = None
            st.dbs.remove(sd)
        except Exception as e:
            out.append(("split-raises:" + type(e).__name__, "splitDatabase with an absent step raised %r" % (e,)))
    return out


def obs_listing(st):
    out = []
    keys = sorted(st.model)
    try:
        got = list(st.db.keys())
        want = ["/" + gname(k) for k in keys]
        if got != want:
            out.append(("keys", "keys() = %s, written %s (chronological)" % (got, want)))
        got = [(int(c), int(n)) for c, n in st.db.genTimeSteps()]
        want = [k[:2] for k in keys]
        if got != want:
            out.append(("genTimeSteps", "genTimeSteps() = %s, written %s (one pair per snapshot, chronological)" % (got, want)))
        labels = ["", "EOL", "x", "error"] + [l for l in st.init["labels"] if l and l not in ("EOL", "x")]
        raw = [n for n in raw_names(st.db.h5db) if n != "inputs"]
        if raw != sorted(gname(k) for k in keys):
            out.append(("raw-names", "the file holds the groups %s, written %s" % (raw, sorted(gname(k) for k in keys))))
        for t in TIMES:
            for lab in labels:
                has = bool(st.db.hasTimeStep(t[0], t[1], lab))
                if has != ((t[0], t[1], lab) in st.model):
                    out.append(("hasTimeStep", "hasTimeStep(%d,%d,%r) = %s, model says %s" % (t[0], t[1], lab, has, not has)))
                    return out
    except Exception as e:
        out.append(("listing-raises:" + type(e).__name__, "listing raised %r" % (e,)))
    return out


def obs_isolation(st):
    """Every stored snapshot: bytes as at write time, and load returns the state as of its write."""
    out = []
    for k in sorted(st.model):
        m = st.model[k]
        nm = gname(k)
        try:
            if nm not in st.db.h5db:
                out.append(("snapshot-lost", "snapshot %s is no longer stored" % nm))
                continue
            if gdigest(st.db.h5db[nm]) != m["dig"]:
                out.append(("snapshot-bytes-changed", "the stored data of %s changed after it was written" % nm))
                continue
            r2 = st.db.load(k[0], k[1], statePointName=k[2] or None)
            d = observe.diff(m["proj"], proj(r2))
            if d:
                out.append(("load-differs", "load(%s) does not return the state as of its write: %s" % (nm, d[:4])))
        except Exception as e:
            out.append(("load-raises:" + type(e).__name__, "load(%s) raised %r" % (nm, e)))
    return out


def expand(item):
    """Worker entry for explore.bfs."""
    init, hist, outs = item["init"], [list(o) for o in item["hist"]], item.get("outs", [])
    st = St(init)
    try:
        out = "ok"
        mid = []
        actual = []
        for k, op in enumerate(hist):
            out = apply(st, op)
            actual.append(out)
            if k < len(outs) and out != outs[k]:
                raise RuntimeError("prefix replay diverged at %d %s: %s != %s" % (k, op, out, outs[k]))
            if init.get("interleave") and k < len(hist) - 1 and not mid:
                # observers as transitions: queried after EVERY operation on the same Database object,
                # so that whatever an observer leaves behind meets every later mutation
                mid = obs_history(st) + obs_listing(st)
                if st.model and not mid and op[0] == "write":
                    kk = sorted(st.model)[-1 if k % 2 else 0]
                    d = observe.diff(st.model[kk]["proj"], proj(st.db.load(kk[0], kk[1], statePointName=kk[2] or None)))
                    if d:
                        mid.append(("load-differs", "load(%s) does not return the state as of its write: %s" % (gname(kk), d[:4])))
                mid = [(k_, "after operation %d: %s" % (k + 1, m_)) for k_, m_ in mid]
        vl = list(st.viols) + mid
        if not vl:
            live_before = observe.digest(observe.obs(st.r, rank=True))
            vl += obs_history(st)
            if not hist or hist[-1][0] == "write":
                # merge/split depend on the stored bytes only; those are unchanged (checked below)
                # since the state right after the last write, where both were run
                vl += obs_merge(st, load_one=True)
                vl += obs_split(st)
            vl += obs_listing(st)
            vl += obs_isolation(st)  # last: observers must not have touched the stored snapshots
            if observe.digest(observe.obs(st.r, rank=True)) != live_before:
                vl.append(("observer-mutates-reactor", "the live reactor changed while the database was only queried"))
        case = st.case(item)
        case["outs"] = actual
        seen = set()
        viols = []
        for key, msg in vl:
            if key in seen:
                continue
            seen.add(key)
            viols.append(core.viol("c06/" + key, "history %s (start %s): %s" % (json.dumps(hist), TIMES[int(init["t0"])], msg), case))
        live = observe.obs(st.r, rank=True, persistent_only=True)
        canon = json.dumps([st.ti, [[gname(k), _rankproj(st, st.model[k]["proj"])] for k in sorted(st.model)], observe.digest(live)])
        full = observe.digest(observe.obs(st.r, rank=True))
        return {"canon": hashlib.sha1(canon.encode()).hexdigest(), "full": full, "viols": viols, "ops": enabled_ops(init, hist), "out": out, "nsnap": len(st.model)}
    finally:
        st.close()


def _rankproj(st, pr):
    """Digest of a projection with serial numbers replaced by ranks (stable across processes)."""
    ser = sorted(int(s) for s in list(pr["assems"]) + list(pr["blocks"]))
    rk = {str(s): i for i, s in enumerate(ser)}
    d = dict(pr)
    d["assems"] = {rk[s]: v for s, v in pr["assems"].items()}
    d["blocks"] = {rk[s]: dict(v, assem=rk[str(v["assem"])]) for s, v in pr["blocks"].items()}
    return jd(d)


def _eval_A(case):
    if "other" in case:  # differential: two histories, same canonical state, different full observation
        a = expand({"init": case["init"], "hist": case["hist"], "outs": []})
        b = expand({"init": case["init"], "hist": case["other"], "outs": []})
        vs = a["viols"] + b["viols"]
        if a["canon"] == b["canon"] and a["full"] != b["full"]:
            vs.append(core.viol("c06/differential", "histories %s and %s: same canonical state, different full observation" % (case["hist"], case["other"]), case))
        return vs
    return expand({"init": case["init"], "hist": case["hist"], "outs": case.get("outs", [])})["viols"]


# =============================================================================================
# Part S - splitDatabase, all keep-subsets
# =============================================================================================


def split_item(item):
    """item = {"times": [idx...], "eol": bool, "seed": n, "keeps": [[[c,n]...]...] | None}: write one
    snapshot per time (state changed and two assemblies swapped in between), then split a copy for
    every keep-subset."""
    init = {"spec": "full3", "t0": item["times"][0], "seed": item.get("seed", 0), "alpha": "por", "labels": [None], "muts": MUTS_Q}
    st = St(init)
    res = {"viols": [], "n": 0, "shifted": 0}
    try:
        for j, ti in enumerate(item["times"]):
            st.ti = ti
            st.r.p.cycle, st.r.p.timeNode = TIMES[ti]
            apply(st, ["mut", "power"])
            apply(st, ["mut", "keff"])
            if j == 1:
                apply(st, ["mut", "swap"])
            apply(st, ["write", None])
        if item.get("eol"):
            apply(st, ["write", "EOL"])
        stored = sorted({k[:2] for k in st.model if k[2] == ""})
        keeps = item.get("keeps")
        if keeps is None:
            keeps = [list(map(list, c)) for r in range(1, len(stored) + 1) for c in itertools.combinations(stored, r)]
            keeps = [k[::-1] if i % 2 else k for i, k in enumerate(keeps)]  # "a collection": any order
        seen = set()
        for i, keep in enumerate(keeps):
            res["n"] += 1
            if min(c for c, n in keep) > 0:
                res["shifted"] += 1
            qf, lf = item.get("flags") or [i % 3 != 2, i % 3 == 0]  # observers first on the object that is split?
            for key, msg in st.viols + check_split(st, keep, "%d" % i, load_one=True, query_first=qf, load_first=lf):
                if key in seen:
                    continue
                seen.add(key)
                case = {"part": "S", "times": item["times"], "eol": bool(item.get("eol")), "seed": item.get("seed", 0), "keeps": [keep], "flags": [bool(qf), bool(lf)]}
                res["viols"].append(core.viol("c06/" + key, "snapshots at %s%s: %s" % ([TIMES[t] for t in item["times"]], " + EOL" if item.get("eol") else "", msg), case))
        return res
    finally:
        st.close()


def split_items(ctx, nmax):
    out = []
    for r in range(1, nmax + 1):
        for comb in itertools.combinations(range(len(TIMES)), r):
            out.append({"times": list(comb), "eol": (len(out) % 3 == 2), "seed": ctx.seed, "keeps": None})
    return out


# =============================================================================================
# Part H - HistoryTrackerInterface: pre-loaded block histories against the database and the live state
# =============================================================================================

H_TIMES = [(0, 0), (0, 1), (0, 2), (1, 0)]


class HSt:
    """Bare operator with a real HistoryTrackerInterface and a real DatabaseInterface (opened the
    way the main interface opens it), plus the model: value of the tracked parameter per written
    step and block."""

    def __init__(self, init):
        from armi import context
        from armi.bookkeeping.db.databaseInterface import DatabaseInterface
        from armi.bookkeeping.historyTracker import HistoryTrackerInterface

        _reset_masks()
        self.init = init
        self.seed = int(init.get("seed", 0))
        self.dir = env.fresh_dir("c06h")
        os.chdir(self.dir)
        fastroot = os.path.join(self.dir, "fast")
        os.makedirs(fastroot)
        self.old_app = context.APP_DATA
        context.APP_DATA = fastroot
        self.dbi = None
        o, r, cs = _mk_operator(2, 2, False, self.seed, syncDbAfterWrite=bool(init.get("sync", True)))
        self.o, self.r = o, r
        self.ht = HistoryTrackerInterface(r, cs)
        o.addInterface(self.ht)
        self.dbi = DatabaseInterface(r, cs)
        o.addInterface(self.dbi)
        self.dbi.initDB()
        t = _Trace
        self.A0, self.A1 = t.A0, t.A1
        self.blocks = {"b0": t.A0[0], "b1": t.A1[0]}
        self.names = {k: b.getName() for k, b in self.blocks.items()}
        self.ti = 0
        r.p.cycle, r.p.timeNode = H_TIMES[0]
        self.written = {}  # (c, n) -> {"b0": value, "b1": value}
        self.pre = None  # what a pre-load covered: {"steps": [...], "at": (c, n)}
        self.nev = 0

    @property
    def now(self):
        return (int(self.r.p.cycle), int(self.r.p.timeNode))

    def live(self):
        return {k: cv(b.p.power) for k, b in self.blocks.items()}

    def close(self):
        from armi import context

        context.APP_DATA = self.old_app
        try:
            if self.dbi is not None and self.dbi._db is not None and self.dbi._db.isOpen():
                self.dbi._db.h5db.close()
                self.dbi._db.h5db = None
        except Exception:
            pass
        env.enter_scratch()
        shutil.rmtree(self.dir, ignore_errors=True)


def h_apply(st, op):
    k = op[0]
    if k == "node":
        st.ti += 1
        st.r.p.cycle, st.r.p.timeNode = H_TIMES[st.ti]
    elif k == "mut":
        # value depends on what has been fixed so far: idempotent until the next write / pre-load
        st.blocks["b0"].p.power = 2000.0 + 16.0 * st.nev + (st.seed % 7)
        st.blocks["b1"].p.power = 3000.0 + 16.0 * st.nev + (st.seed % 7)
    elif k == "mov":
        l0, l1 = st.A0.spatialLocator, st.A1.spatialLocator
        st.A0.moveTo(l1)
        st.A1.moveTo(l0)
        st.r.core.sort()
    elif k == "write":
        st.dbi.writeDBEveryNode()  # the database interface's own write path (incl. syncDbAfterWrite)
        st.written[st.now] = st.live()
        st.nev += 1
    elif k == "preload":
        steps = sorted(st.written) + ([st.now] if st.now not in st.written else [])
        st.ht.preloadBlockHistoryVals([st.names["b0"], st.names["b1"]], ["power"], steps)
        st.pre = {"steps": [list(x) for x in steps], "at": list(st.now), "live": st.live()}
        st.nev += 1
    elif k == "unload":
        st.ht.unloadBlockHistoryVals()
        st.pre = None
    else:
        raise ValueError(op)
    return "ok"


def h_enabled(init, st):
    ops = []
    if st.now not in st.written:
        ops.append(["write"])
    ops.append(["mut"])
    if st.ti < len(H_TIMES) - 1:
        ops.append(["node"])
    ops.append(["preload"])
    if st.pre is not None:
        ops.append(["unload"])
    if init.get("mov"):
        ops.append(["mov"])
    return ops


def h_queries(st, tag):
    """getBlockHistoryVal for every written step and the current one: the value the block had when
    that step was written; for the current step, while the database has not written it, the live
    value (documented rule) - whether or not values were pre-loaded ("the same results should be
    given if this method is not called")."""
    out = []
    for ts in sorted(set(st.written) | {st.now}):
        for k in ("b0", "b1"):
            exp = st.written[ts][k] if ts in st.written else st.live()[k]
            try:
                got = cv(st.ht.getBlockHistoryVal(st.names[k], "power", ts))
            except Exception as e:
                out.append(("tracker-raises:" + type(e).__name__, "%sgetBlockHistoryVal(%s, 'power', %s) raised %r" % (tag, k, ts, e)))
                return out
            if got != exp:
                kind = "current-unwritten-step" if ts not in st.written else ("current-step" if ts == st.now else "past-step")
                how = "no pre-load" if st.pre is None else "pre-loaded at %s for steps %s" % (tuple(st.pre["at"]), [tuple(x) for x in st.pre["steps"]])
                if not any(o[0] == "tracker-value:" + kind for o in out):
                    out.append(("tracker-value:" + kind, "%sgetBlockHistoryVal(%s, 'power', %s) = %r, expected %r (%s; %s)" % (tag, k, ts, got, exp, "written value" if ts in st.written else "live value, step not written yet", how)))
    # a step that is neither written nor current has no value: KeyError is the documented answer
    absent = [t for t in H_TIMES if t not in st.written and t != st.now]
    if absent:
        try:
            got = st.ht.getBlockHistoryVal(st.names["b0"], "power", absent[0])
            out.append(("tracker-absent-step", "%sgetBlockHistoryVal(b0, 'power', %s) returned %r for a step that was never written" % (tag, absent[0], got)))
        except KeyError:
            pass
        except Exception as e:
            out.append(("tracker-raises:" + type(e).__name__, "%sgetBlockHistoryVal for the unwritten step %s raised %r" % (tag, absent[0], e)))
    return out


def expand_h(item):
    """Worker entry for the Part H search (queries after EVERY operation)."""
    init, hist, outs = item["init"], [list(o) for o in item["hist"]], item.get("outs", [])
    st = HSt(init)
    try:
        vl = h_queries(st, "initially: ") if not hist else []
        for k, op in enumerate(hist):
            h_apply(st, op)
            vl += h_queries(st, "after operation %d: " % (k + 1))  # first occurrence of each class is kept below
        case = {"part": "H", "init": init, "hist": hist, "outs": ["ok"] * len(hist)}
        seen, viols = set(), []
        for key, msg in vl:
            if key not in seen:
                seen.add(key)
                viols.append(core.viol("c06/" + key, "history %s: %s" % (json.dumps(hist), msg), case))
        pre = None if st.pre is None else [st.pre["steps"], st.pre["at"], st.pre["live"]]
        canon = json.dumps([st.ti, sorted((list(t), v) for t, v in st.written.items()), st.live(), pre, _ints(st.A0.spatialLocator.getCompleteIndices())], sort_keys=True)
        return {"canon": hashlib.sha1(canon.encode()).hexdigest(), "full": None, "viols": viols, "ops": h_enabled(init, st), "out": "ok"}
    finally:
        st.close()


# =============================================================================================
# Part L - labels with unusual but legal characters
# =============================================================================================

# "-", ".", " ", digit-leading, a label that looks like a time-step name, case, a non-ASCII letter,
# the documented "c00n00-special" form
LABEL_SETS = [["-special"], ["rev1.1"], ["pre shuffle"], ["1st"], ["c00n00"], ["\u00e9tat"], ["_x"], ["EOL", "eol"]]


def label_items(ctx):
    """Fixed histories run through the Part A machinery (all observers after every operation): a
    labelled and an unlabelled snapshot on the same pair in both orders, state changed and two
    assemblies swapped in between, a refused re-write of the labelled name, a later pair."""
    out = []
    for ls in LABEL_SETS:
        a, b_ = ls[0], ls[-1]
        init = {"spec": "full3", "t0": 0, "seed": ctx.seed, "alpha": "por", "labels": [None] + ls, "muts": MUTS_Q, "interleave": True}
        out.append({"init": init, "hist": [["write", None], ["mut", "blk"], ["write", a], ["time"], ["mut", "mov"], ["write", b_], ["write", None], ["write", b_]], "outs": []})
        if ls[0] in ("-special", "c00n00", "EOL") or not ctx.quick:
            out.append({"init": dict(init, t0=2), "hist": [["write", a], ["mut", "mov"], ["write", None], ["time"], ["time"], ["mut", "core"], ["write", b_], ["write", a]], "outs": []})
    return out


# =============================================================================================
# Part C - Database used as a context manager (the low-level form of "survives an abort")
# =============================================================================================


def ctxmgr_item(case):
    """case = {"nested": bool, "fail": None|"inner"|"outer", "nwrites": n}: write n snapshots inside
    ``with Database(...)`` (optionally re-entered), leave normally or through a RuntimeError; the
    file must then be in the working directory, closed, flagged accordingly, and hold n snapshots."""
    import h5py

    init = {"spec": "full3", "t0": 0, "seed": case.get("seed", 0), "alpha": "por", "labels": [None], "muts": MUTS_Q}
    st = St(init)
    vl = []
    try:
        from armi.bookkeeping.db import Database

        db = Database("c.h5", "w")
        st.dbs.append(db)
        raised = False
        try:
            with db:
                db.writeInputsToDB(st.cs, bpString=st.bptext)
                st.db = db
                for _ in range(case["nwrites"]):
                    apply(st, ["mut", "blk"])
                    apply(st, ["write", None])
                    apply(st, ["time"])
                if case["nested"]:
                    with db:
                        if case["fail"] == "inner":
                            raise RuntimeError("abort inner")
                    if not db.isOpen():
                        vl.append(("ctx-inner-exit-closes", "leaving a nested `with db:` normally closed the database"))
                if case["fail"] == "outer":
                    raise RuntimeError("abort outer")
        except RuntimeError as e:
            raised = True
            if not str(e).startswith("abort"):
                raise
        what = "with Database (nested=%s, %d writes, %s)" % (case["nested"], case["nwrites"], "left through an exception in the %s block" % case["fail"] if case["fail"] else "left normally")
        if raised != bool(case["fail"]):
            vl.append(("ctx-exception-swallowed", "%s: exception propagated = %s" % (what, raised)))
        if db.isOpen():
            vl.append(("ctx-still-open", "%s: the database is still open" % what))
        path = os.path.join(st.dir, "c.h5")
        if not os.path.exists(path):
            vl.append(("ctx-no-file-in-workdir", "%s: no c.h5 in the working directory" % what))
        else:
            with h5py.File(path, "r") as f:
                ok = bool(f.attrs["successfulCompletion"])
                if ok != (not case["fail"]):
                    vl.append(("ctx-completion-flag", "%s: successfulCompletion = %s" % (what, ok)))
                names = sorted(n for n in f if n[0] == "c" and n[1:3].isdigit())
                if names != [gname(k) for k in sorted(st.model)]:
                    vl.append(("ctx-snapshots", "%s: the file holds %s, written %s" % (what, names, [gname(k) for k in sorted(st.model)])))
                else:
                    for k in sorted(st.model):
                        if gdigest(f[gname(k)]) != st.model[k]["dig"]:
                            vl.append(("ctx-snapshot-changed", "%s: %s changed on close" % (what, gname(k))))
                            break
        return {"viols": [core.viol("c06/" + k, m, dict(case, part="C")) for k, m in vl + st.viols]}
    finally:
        st.close()


def ctxmgr_items(ctx):
    return [{"part": "C", "nested": nested, "fail": fail, "nwrites": n, "seed": ctx.seed} for nested in (False, True) for fail in (None, "outer", "inner") for n in (0, 2) if nested or fail != "inner"]


# =============================================================================================
# Part B - single-fault enumeration on a real Operator
# =============================================================================================

STACK = ("recA", "database", "recB")
_REC = {}


class _Trace:
    log = []
    projs = []
    hists = []  # (point index, history of b0.power asked through the DatabaseInterface mid-run)
    arm = None
    A0 = A1 = b0 = None


def _rec_classes():
    if _REC:
        return _REC["A"], _REC["B"]
    from armi import interfaces

    class Rec(interfaces.Interface):
        """Recording interface: logs the interaction point, changes the state in a way that makes
        every point's state distinct, raises if armed for exactly this point."""

        def _pt(self, hook, *extra):
            t = _Trace
            idx = len(t.log)
            t.log.append([self.name, hook, int(self.r.p.cycle), int(self.r.p.timeNode)] + [int(x) for x in extra])
            t.b0.p.power = 500.0 + idx
            self.r.core.p.keff = 1.0 + idx / 1024.0
            if hook == "BOC" and self.name == "recA":
                l0, l1 = t.A0.spatialLocator, t.A1.spatialLocator
                t.A0.moveTo(l1)
                t.A1.moveTo(l0)
                self.r.core.sort()
            t.projs.append(proj(self.r))
            if t.arm is None and hook == "EOC" and self.name == "recB":
                # observer inside the run: history through the interface wrapper (adds the live value)
                try:
                    h = self.o.getInterface("database").getHistory(t.b0, ["power"])
                    t.hists.append((idx, [[int(k[0]), int(k[1]), cv(v)] for k, v in h["power"].items()]))
                except Exception as e:
                    t.hists.append((idx, "raised %r" % (e,)))
            if t.arm == idx:
                raise RuntimeError("injected fault at point %d %s" % (idx, t.log[-1]))

        def interactBOL(self):
            self._pt("BOL")

        def interactBOC(self, cycle=None):
            self._pt("BOC")

        def interactEveryNode(self, cycle, node):
            self._pt("EveryNode")

        def interactCoupled(self, iteration):
            self._pt("Coupled", iteration)

        def interactEOC(self, cycle=None):
            self._pt("EOC")

        def interactEOL(self):
            self._pt("EOL")

    class RecA(Rec):
        name = "recA"

    class RecB(Rec):
        name = "recB"

        def getTightCouplingValue(self):
            return float(self.r.core.p.keff)  # changed at every point: a coupler on it never converges

    _REC["A"], _REC["B"] = RecA, RecB
    return RecA, RecB


DEFAULT_MAX_ITERS = 4  # default of tightCouplingMaxNumIters


def norm_cfg(case):
    """Configuration of one operator run with its defaults (older replay files lack the newer keys)."""
    return {
        "nCycles": int(case["nCycles"]),
        "burnSteps": int(case["burnSteps"]),
        "tight": bool(case["tight"]),
        "skip": [int(x) for x in case.get("skip") or []],  # cyclesSkipTightCouplingInteraction
        "maxIters": case.get("maxIters"),  # tightCouplingMaxNumIters (None: default)
        "coupler": bool(case.get("coupler")),  # recB carries a real TightCoupler that never converges
        "sync": True if case.get("sync") is None else bool(case["sync"]),  # syncDbAfterWrite (default on)
    }


def cfg_text(c):
    t = "nCycles=%d burnSteps=%d tightCoupling=%s" % (c["nCycles"], c["burnSteps"], c["tight"])
    if c["skip"]:
        t += " cyclesSkipTightCouplingInteraction=%s" % c["skip"]
    if c["maxIters"] is not None:
        t += " tightCouplingMaxNumIters=%d" % c["maxIters"]
    if c["coupler"]:
        t += " (one interface with a never-converging coupler)"
    if not c["sync"]:
        t += " syncDbAfterWrite=False"
    return t


def ref_schedule(cfg):
    """Independent for-loop statement of a standard run: the recorder points in order, and after
    which point index each database write completes. Returns (points, writes) with
    writes = [(index of the last recorder point before the write, (c, n, label))].

    Every node of every cycle is written exactly once: by the database's own EveryNode hook without
    tight coupling; with it, by the operator after the coupled iterations of the node - however many
    there are (none in a cycle listed in cyclesSkipTightCouplingInteraction or with an iteration cap
    of 0; one when nothing has a coupler, since then everything counts as converged; the cap when a
    coupler never converges)."""
    cfg = norm_cfg(cfg)
    nC, bs, tight = cfg["nCycles"], cfg["burnSteps"], cfg["tight"]
    cap = DEFAULT_MAX_ITERS if cfg["maxIters"] is None else cfg["maxIters"]
    pts, writes = [], []

    def hook(name, c, n, *extra):
        for i in STACK:
            if i == "database":
                if name == "EveryNode" and not tight:
                    writes.append((len(pts) - 1, (c, n, "")))
                if name == "EOL":
                    writes.append((len(pts) - 1, (c, n, "EOL")))
            else:
                pts.append([i, name, c, n] + list(extra))

    hook("BOL", 0, 0)
    for c in range(nC):
        hook("BOC", c, 0)
        for n in range(bs + 1):
            hook("EveryNode", c, n)
            if tight:
                iters = 0 if c in cfg["skip"] else (cap if cfg["coupler"] else min(1, cap))
                for it in range(iters):
                    hook("Coupled", c, n, it)
                writes.append((len(pts) - 1, (c, n, "")))
        hook("EOC", c, bs)
    hook("EOL", nC - 1, bs)
    return pts, writes


def cfg_settings(cfg):
    cfg = norm_cfg(cfg)
    over = {}
    if cfg["skip"]:
        over["cyclesSkipTightCouplingInteraction"] = list(cfg["skip"])
    if cfg["maxIters"] is not None:
        over["tightCouplingMaxNumIters"] = int(cfg["maxIters"])
    over["syncDbAfterWrite"] = bool(cfg["sync"])
    return over


def _standard_stack(o, r, cs, cfg):
    """[recorder, real DatabaseInterface, recorder] on a bare operator."""
    from armi import interfaces
    from armi.bookkeeping.db.databaseInterface import DatabaseInterface

    RecA, RecB = _rec_classes()
    o.addInterface(RecA(r, cs))
    dbi = DatabaseInterface(r, cs)
    o.addInterface(dbi)
    b = RecB(r, cs)
    if norm_cfg(cfg)["coupler"]:
        b.coupler = interfaces.TightCoupler("keff", 1.0e-12, cs["tightCouplingMaxNumIters"])
    o.addInterface(b)
    if tuple(i.name for i in o.getInterfaces()) != STACK:
        raise RuntimeError("interface stack is %s" % [i.name for i in o.getInterfaces()])
    return dbi


def _mk_operator(nC, bs, tight, seed, **over):
    """Blueprint file + settings + reactor + bare Operator in the current directory; resets the trace."""
    from armi.operators import Operator

    spec = _spec("full3")
    if not os.path.exists("bp.yaml"):
        with open("bp.yaml", "w") as f:
            f.write(build.render(build.normalize(spec)))
    cs = build.settings(nCycles=nC, burnSteps=bs, tightCoupling=tight, loadingFile="bp.yaml", cycleLength=10.0, **over)
    r = build.reactor(spec, cs, seed=seed)
    t = _Trace
    t.log, t.projs, t.hists, t.arm = [], [], [], None
    assems = sorted(r.core, key=lambda a: a.p.serialNum)
    t.A0, t.A1 = assems[0], assems[1]
    t.b0 = t.A0[0]
    for i, b in enumerate(r.core.getBlocks()):
        b.p.mgFlux = np.array([1.0, 2.0, 3.0 + i])
    o = Operator(cs)
    o.r = r
    r.o = o
    return o, r, cs


def run_fault(case):
    """One real operator run, fault armed at point ``case['arm']`` (None: fault-free)."""
    from armi import context
    from armi.bookkeeping.db import Database
    from armi.bookkeeping.db.databaseInterface import DatabaseInterface
    from armi.operators import Operator

    cfg = norm_cfg(case)
    nC, bs, tight, arm = cfg["nCycles"], cfg["burnSteps"], cfg["tight"], case["arm"]
    _reset_masks()
    d = env.fresh_dir("c06b")
    os.chdir(d)
    fastroot = os.path.join(d, "fast")
    os.makedirs(fastroot)
    old_app = context.APP_DATA
    context.APP_DATA = fastroot  # Operator() makes its fast path below this; nothing under /tmp
    vl = []
    dbi = None
    res = {"viols": [], "points": None, "window": "in", "sig": None, "nsnap": 0}
    try:
        o, r, cs = _mk_operator(nC, bs, tight, int(case.get("seed", 0)), **cfg_settings(cfg))
        t = _Trace
        t.arm = arm
        dbi = _standard_stack(o, r, cs, cfg)
        raised = None
        try:
            with o:
                o.operate()
        except RuntimeError as e:
            raised = e
        final = proj(o.r)
        pts, writes = ref_schedule(cfg)
        what = cfg_text(cfg)
        if arm is None:
            res["points"] = t.log
            if raised is not None:
                vl.append(("fault-free-raises", "%s: the fault-free run raised %r" % (what, raised)))
            elif t.log != pts:
                vl.append(("fault-free-schedule", "%s: interaction points of the real run differ from the reference schedule: first difference at %s" % (what, next((i, a, b) for i, (a, b) in enumerate(itertools.zip_longest(t.log, pts)) if a != b))))
            else:
                # DatabaseInterface.getHistory asked at every end of cycle: the steps written so far with
                # the value b0 had at each write (it was moved and the core re-sorted at every BOC),
                # the live step with the live value
                sb0 = str(int(t.b0.p.serialNum))
                for idx, rows in t.hists:
                    now = (pts[idx][2], pts[idx][3])
                    exp = [[k[0], k[1], t.projs[w]["blocks"][sb0]["power"]] for w, k in writes if w < idx and k[2] == "" and k[:2] != now]
                    exp.append([now[0], now[1], t.projs[idx]["blocks"][sb0]["power"]])
                    if rows != exp:
                        vl.append(("midrun-history", "%s: DatabaseInterface.getHistory(block, ['power']) asked in recB.interactEOC of cycle %d returned %s, expected %s" % (what, now[0], rows, exp)))
                        break
                res["nhist"] = len(t.hists)
            done = writes
            expect_ok = True
            errkey = None
        else:
            point = pts[arm]
            what += ", RuntimeError in %s.interact%s at cycle %d node %d (point %d of %d)" % (point[0], point[1], point[2], point[3], arm, len(pts))
            if raised is None or "injected fault at point %d " % arm not in str(raised):
                vl.append(("fault-not-propagated", "%s: the exception leaving `with operator:` is %r" % (what, raised)))
            if t.log != pts[: arm + 1]:
                vl.append(("fault-schedule", "%s: points executed before the fault differ from the reference schedule" % what))
            done = [w for w in writes if w[0] < arm]
            expect_ok = False
            errkey = (point[2], point[3], "error")
            if arm == 0:
                res["window"] = "before-open"  # recA precedes the database at BOL: never opened
            elif arm == len(pts) - 1:
                res["window"] = "after-final"  # recB follows the database at EOL: already finalised
        path = os.path.join(d, cs.caseTitle + ".h5")
        stray = [os.path.join(dp, f) for dp, _, fs in os.walk(fastroot) for f in fs if f.endswith(".h5")]
        if res["window"] == "before-open":
            res["sig"] = "no-db:%s" % os.path.exists(path)
        elif res["window"] == "after-final":
            res["sig"] = "finalised"
        elif not vl or arm is None:
            if not os.path.exists(path):
                vl.append(("no-file-in-workdir", "%s: no %s in the working directory afterwards (left in the fast path: %s)" % (what, os.path.basename(path), [os.path.basename(s) for s in stray])))
            else:
                if stray:
                    vl.append(("stray-fastpath-file", "%s: a database file was left in the fast path: %s" % (what, stray)))
                try:
                    with Database(path, "r") as db:
                        ok = bool(db.h5db.attrs["successfulCompletion"])
                        if ok != expect_ok:
                            vl.append(("completion-flag:" + ("aborted-marked-successful" if ok else "completed-marked-unsuccessful"), "%s: successfulCompletion = %s" % (what, ok)))
                        keys = sorted([w[1] for w in done] + ([errkey] if errkey else []))
                        got = list(db.keys())
                        want = ["/" + gname(k) for k in keys]
                        res["nsnap"] = len(got)
                        res["sig"] = ",".join(got) + ":" + str(ok)
                        if got != want:
                            vl.append(("snapshots-after-" + ("abort" if errkey else "completion"), "%s: the file holds %s, expected %s" % (what, got, want)))
                        else:
                            for idx, k in done:
                                pr = proj(db.load(k[0], k[1], statePointName=k[2] or None))
                                dd = observe.diff(t.projs[idx], pr)
                                if dd:
                                    vl.append(("snapshot-state", "%s: load(%s) differs from the state at its write: %s" % (what, gname(k), dd[:4])))
                                    break
                            if errkey:
                                pr = proj(db.load(errkey[0], errkey[1], statePointName="error"))
                                dd = observe.diff(final, pr)
                                if dd:
                                    vl.append(("error-snapshot-state", "%s: the error snapshot differs from the state at the failure: %s" % (what, dd[:4])))
                                dd = observe.diff(t.projs[arm], final)
                                if dd:
                                    vl.append(("state-changed-by-error-handling", "%s: the reactor after the aborted run differs from its state at the fault: %s" % (what, dd[:4])))
                except Exception as e:
                    vl.append(("file-unreadable:" + type(e).__name__, "%s: the file left behind cannot be read: %r" % (what, e)))
        seen = set()
        for key, msg in vl:
            if key not in seen:
                seen.add(key)
                res["viols"].append(core.viol("c06/fault/" + key, msg, dict(case, part="B")))
        return res
    finally:
        context.APP_DATA = old_app
        try:
            if dbi is not None and dbi._db is not None and dbi._db.isOpen():
                dbi._db.h5db.close()
                dbi._db.h5db = None
        except Exception:
            pass
        env.enter_scratch()
        shutil.rmtree(d, ignore_errors=True)


def run_restart(case):
    """Part R: a complete fault-free run, then for every later (startCycle, startNode) a fresh
    operator whose DatabaseInterface is initialised and asked to prepare the restart (what the main
    interface does at BOL): the new database must hold exactly the steps before the start point,
    byte-equal, and the attached reactor must be in the state of the step just before it."""
    import h5py

    from armi import context
    from armi.bookkeeping.db.databaseInterface import DatabaseInterface

    cfg = norm_cfg(case)
    nC, bs, tight = cfg["nCycles"], cfg["burnSteps"], cfg["tight"]
    only = case.get("start")
    _reset_masks()
    d = env.fresh_dir("c06r")
    os.chdir(d)
    fastroot = os.path.join(d, "fast")
    os.makedirs(fastroot)
    old_app = context.APP_DATA
    context.APP_DATA = fastroot
    res = {"viols": [], "n": 0, "copied": 0}
    open_dbs = []
    try:
        o, r, cs = _mk_operator(nC, bs, tight, int(case.get("seed", 0)), **cfg_settings(cfg))
        _standard_stack(o, r, cs, cfg)
        pts, writes = ref_schedule(cfg)
        allkeys = sorted(w[1] for w in writes)
        problem = None
        try:
            with o:
                o.operate()
        except Exception as e:
            problem = "the source run raised %r" % (e,)
        projs = list(_Trace.projs)
        src = {}
        if problem is None and not os.path.exists(cs.caseTitle + ".h5"):
            problem = "the source run left no %s.h5 in the working directory" % cs.caseTitle
        if problem is None:
            os.rename(cs.caseTitle + ".h5", "prev.h5")
            with h5py.File("prev.h5", "r") as f:
                src = {n: gdigest(f[n]) for n in raw_names(f) if n != "inputs"}
                if sorted(src) != sorted(gname(k) for k in allkeys) or not bool(f.attrs["successfulCompletion"]):
                    problem = "the completed source run left the steps %s (successfulCompletion=%s), expected %s" % (sorted(src), bool(f.attrs["successfulCompletion"]), sorted(gname(k) for k in allkeys))
        if problem is not None:
            # whatever a fault-free run leaves behind is the property's subject, never a harness matter
            res["viols"].append(core.viol("c06/restart/source-run-incomplete", "%s: %s" % (cfg_text(cfg), problem), dict(case, part="R")))
            return res
        starts = [(c, n) for c in range(nC) for n in range(bs + 1) if (c, n) != (0, 0)]
        for sc, sn in starts:
            if only is not None and [sc, sn] != list(only):
                continue
            res["n"] += 1
            what = "%s, restart at (%d,%d)" % (cfg_text(cfg), sc, sn)
            vl = []
            try:
                o2, r2, cs2 = _mk_operator(nC, bs, tight, int(case.get("seed", 0)), reloadDBName="prev.h5", startCycle=sc, startNode=sn, loadStyle="fromDB")
                dbi = DatabaseInterface(r2, cs2)
                o2.addInterface(dbi)
                dbi.initDB()
                open_dbs.append(dbi)
                dbi.prepRestartRun()
                exp = [k for k in allkeys if k[:2] < (sc, sn)]
                got = list(dbi.database.keys())
                want = ["/" + gname(k) for k in exp]
                if got != want:
                    vl.append(("restart-steps", "%s: the new database holds %s, expected exactly the steps before the start point %s" % (what, got, want)))
                else:
                    res["copied"] += len(got)
                    for k in exp:
                        if gdigest(dbi.database.h5db[gname(k)]) != src[gname(k)]:
                            vl.append(("restart-changed", "%s: merged step %s is not byte-equal to the one in the reload database" % (what, gname(k))))
                            break
                prev = (sc, sn - 1) if sn else (sc - 1, bs)
                idx = [w[0] for w in writes if w[1] == prev + ("",)][0]
                dd = observe.diff(projs[idx], proj(o2.r))
                if dd:
                    vl.append(("restart-state", "%s: the reactor attached for the restart is not in the state written at %s: %s" % (what, prev, dd[:4])))
                dbi.database.close(False)
                open_dbs.remove(dbi)
                os.remove(cs2.caseTitle + ".h5")
            except Exception as e:
                vl.append(("restart-raises:" + type(e).__name__, "%s raised %r" % (what, e)))
            for key, msg in vl:
                res["viols"].append(core.viol("c06/" + key, msg, dict(case, part="R", start=[sc, sn])))
        return res
    finally:
        context.APP_DATA = old_app
        for dbi in open_dbs:
            try:
                if dbi._db is not None and dbi._db.isOpen():
                    dbi._db.h5db.close()
                    dbi._db.h5db = None
            except Exception:
                pass
        env.enter_scratch()
        shutil.rmtree(d, ignore_errors=True)


def _cfg(nC, bs, tight, skip=(), maxIters=None, coupler=False, sync=True):
    return {"part": "B", "nCycles": nC, "burnSteps": bs, "tight": tight, "skip": list(skip), "maxIters": maxIters, "coupler": coupler, "sync": sync}


# "iter_modes": how many coupled iterations a node gets: (tightCouplingMaxNumIters, a never-converging coupler present)


def fault_families(b):
    """(fault-free family, fault-enumeration family). The family spans every settings dimension that
    changes WHICH code path writes a node or finalises the file: tightCoupling (database hook vs
    operator after the coupled iterations) x cyclesSkipTightCouplingInteraction in {[], [0], [1], all}
    x number of coupled iterations {cap 0, converged at once, cap reached} x syncDbAfterWrite
    (default on: close/copy/reopen after every write; off as a deviation), over nCycles 1-3 and burnSteps from 0."""
    free, seen = [], set()

    def add(lst, c):
        k = json.dumps(c, sort_keys=True)
        if k not in seen:
            seen.add(k)
            lst.append(c)

    def members(nC, bs):
        out = [_cfg(nC, bs, False), _cfg(nC, bs, False, sync=False)]
        eff = set()
        for skip in ([], [0], [1], list(range(nC))):
            e = tuple(sorted(set(skip) & set(range(nC))))
            if e in eff:
                continue
            eff.add(e)
            for cap, coup in b["iter_modes"]:
                out.append(_cfg(nC, bs, True, skip, cap, coup))
        out.append(_cfg(nC, bs, True, sync=False))
        return out

    for nC, bs in b["shapes_free"]:
        for c in members(nC, bs):
            add(free, c)
    for nC, bs in b["shapes_free_base"]:
        for c in (_cfg(nC, bs, False), _cfg(nC, bs, True), _cfg(nC, bs, False, sync=False), _cfg(nC, bs, True, sync=False)):
            add(free, c)
    enum, seen = [], set()
    for nC, bs in b["shapes_enum"]:
        add(enum, _cfg(nC, bs, False))
        add(enum, _cfg(nC, bs, True))
    for nC, bs in b["enum_all_on"]:
        for c in members(nC, bs):
            add(enum, c)
    if b["shapes_enum"]:
        nC, bs = b["enum_deviations_on"]
        for c in (_cfg(nC, bs, True, [nC - 1]), _cfg(nC, bs, True, list(range(nC))), _cfg(nC, bs, True, [], 2, True), _cfg(nC, bs, False, sync=False), _cfg(nC, bs, True, sync=False)):
            add(enum, c)
    return free, enum


# =============================================================================================


def run(ctx):
    b = dict(BOUNDS[ctx.tier])
    parts = os.environ.get("VERIF_C06_PARTS", "ABS")  # development aid only; default: everything
    if "B" not in parts:
        b["shapes_free"] = b["shapes_free_base"] = b["shapes_enum"] = b["enum_all_on"] = []
    if "S" not in parts:
        b["split_max"] = 0
    if "A" not in parts:
        b["searches"] = []
    if parts != "ABS":
        ctx.notes.append("PARTIAL RUN: VERIF_C06_PARTS=%s" % parts)
    # ---- Part B: fault-free family first (its runs define the points), then the fault enumeration
    fam_free, fam_enum = fault_families(b)
    cfgs = [dict(c, arm=None, seed=ctx.seed) for c in fam_free]
    free = core.pmap(MOD, "run_fault", cfgs)
    cases = []
    sigs = set()
    enum_keys = {json.dumps(c, sort_keys=True) for c in fam_enum}
    for c, r in zip(cfgs, free):
        ctx.add_violations(r["viols"])
        ctx.count("fault/fault-free runs")
        ctx.count("fault/fault-free snapshots loaded", r["nsnap"])
        ctx.count("fault/mid-run history queries checked", r.get("nhist", 0))
        sigs.add((cfg_text(norm_cfg(c)), r["sig"]))
        base = {k: v for k, v in c.items() if k not in ("arm", "seed")}
        if r["viols"] or json.dumps(base, sort_keys=True) not in enum_keys:
            continue
        ctx.count("fault/configurations with fault enumeration")
        for i in range(len(r["points"])):
            cases.append(dict(c, arm=i))
    cases = ctx.order(cases)
    res = core.pmap(MOD, "run_fault", cases)
    inwin = 0
    for c, r in zip(cases, res):
        ctx.add_violations(r["viols"])
        ctx.count("fault/window " + r["window"])
        if r["window"] == "in":
            inwin += 1
            sigs.add((cfg_text(norm_cfg(c)), r["sig"]))
            ctx.count("fault/snapshots loaded", r["nsnap"])
    ctx.log("part B: %d fault-free configurations, %d with fault enumeration, %d fault runs (%d inside the window), %d distinct outcomes" % (len(cfgs), len(fam_enum), len(cases), inwin, len(sigs)))
    # ---- Part R: restart merges on the multi-step configurations
    rcfgs = [dict(_cfg(nC, bs, False), part="R", seed=ctx.seed) for nC, bs in b["shapes_enum"] + [s_ for s_ in b["shapes_free"] + b["shapes_free_base"] if s_ == (2, 2) and s_ not in b["shapes_enum"]] if (nC - 1) * (bs + 1) + bs >= 2]
    rres = core.pmap(MOD, "run_restart", rcfgs)
    for r in rres:
        ctx.add_violations(r["viols"])
    nrestart = sum(r["n"] for r in rres)
    ctx.count("restart/source runs", len(rcfgs))
    ctx.count("restart/start points", nrestart)
    ctx.count("restart/steps merged and compared", sum(r["copied"] for r in rres))
    ctx.log("part R: %d restarts" % nrestart)
    # ---- Part L
    litems = label_items(ctx) if "S" in parts else []
    for r in core.pmap(MOD, "expand", litems):
        ctx.add_violations(r["viols"])
    ctx.count("labels/histories", len(litems))
    ctx.count("labels/label sets", len(LABEL_SETS) if litems else 0)
    # ---- Part C
    citems = ctxmgr_items(ctx) if "S" in parts else []
    for r in core.pmap(MOD, "ctxmgr_item", citems):
        ctx.add_violations(r["viols"])
    ctx.count("ctxmgr/cases", len(citems))
    # ---- Part S
    items = split_items(ctx, b["split_max"])
    sres = core.pmap(MOD, "split_item", ctx.order(items))
    nsplit = sum(r["n"] for r in sres)
    for r in sres:
        ctx.add_violations(r["viols"])
    ctx.count("split/databases", len(items))
    ctx.count("split/keep-subsets", nsplit)
    ctx.count("split/keep-subsets with a cycle shift", sum(r["shifted"] for r in sres))
    ctx.log("part S: %d databases, %d splits" % (len(items), nsplit))
    # ---- Part A
    total = {}
    for alpha, depth, inits, labels, muts, *mode in b["searches"]:
        ii = [{"spec": s, "t0": t0, "seed": ctx.seed, "alpha": alpha, "labels": labels, "muts": muts, "interleave": "interleave" in mode} for s, t0 in inits]
        s = explore.bfs(ctx, MOD, ii, depth)
        s["alphabet"], s["depth"] = alpha, depth
        explore.merge_stats(total, s)
        total["searches"][-1].update(alphabet=alpha, depth=depth, inits=[[s_, TIMES[t0]] for s_, t0 in inits], labels=labels, mutations=muts, observers_after_every_operation="interleave" in mode)
        for k, v in s["ops"].items():
            ctx.count("op/" + k, v)
        for k, v in s["outcomes"].items():
            ctx.count("outcome/" + k, v)
    # ---- Part H: history tracker search (same BFS machinery)
    for depth, opts in (b["tracker"] if "A" in parts else []):
        hs = explore.bfs(ctx, MOD, [dict(opts, seed=ctx.seed)], depth, fname="expand_h", differential=False)
        explore.merge_stats(total, hs)
        total["searches"][-1].update(alphabet="history tracker: node|mut|write|preload|unload" + ("|mov" if opts.get("mov") else ""), depth=depth, options=opts)
        for k, v in hs["ops"].items():
            ctx.count("tracker-op/" + k, v)
    explore.finish(
        ctx,
        total,
        {
            "evaluations": len(cfgs) + len(cases) + nsplit + nrestart + len(citems) + len(litems),
            "distinct_nontrivial": len(sigs) + sum(r["shifted"] for r in sres),
            "rule": "fault enumeration: one fault-free real operator run per member of the configuration family (every node + EOL present exactly once, flag, every snapshot loaded and compared), and for the enumerated members one run per interaction point with the fault raised exactly there; "
            "non-trivial+distinct = distinct (configuration, set of snapshots left in the file, completion flag) among points inside the window. "
            "split enumeration: every keep-subset of every set of <= %d snapshot times; non-trivial = the kept steps need renumbering (earliest kept cycle > 0)." % b["split_max"],
            "fault_shapes_free": [list(x) for x in b["shapes_free"] + b["shapes_free_base"]],
            "fault_free_configurations": len(cfgs),
            "fault_configurations": len(fam_enum),
            "fault_runs": len(cases),
            "fault_points_inside_window": inwin,
            "fault_distinct_outcomes": len(sigs),
            "fault_exhaustive": True,
            "restart_evaluations": nrestart,
            "split_databases": len(items),
            "split_evaluations": nsplit,
        },
    )
    ctx.coverage["exhaustive"] = False  # depth-bounded: no closure for a database that only grows
    ctx.assumptions += [
        "Part A: 3-assembly (thorough also 7-assembly) full-symmetry hex core from generated blueprints; cycle/node from {(0,0),(0,1),(1,0),(9,9),(10,0),(99,99)}; labels from {none, EOL, x}; history depth as reported per search",
        "Part A 'por' searches (partial-order reduction): in-memory mutations commute with each other and with a time advance, so between two writes each mutation kind is applied at most once, in one fixed order, before any time advance (the thorough tier's 'full' search explores all orders and repetitions to depth 4 and checks the commutation through the differential oracle)",
        "snapshot state is compared on a projection (cycle, node, keff, per assembly: location, numMoves; per block: location, power, mgFlux, two never-set parameters), identity by serial number; everything else stored is compared as bytes against the digest taken right after the write (full round-trip fidelity is C04/C05's subject)",
        "array parameters have the same shape on all blocks (history of jagged columns is documented as unsupported); 'location' histories are asked for assemblies only",
        "when a labelled and an unlabelled snapshot share (cycle,node), a history without explicit steps may return either value for that step",
        "splitDatabase renumbers cycles (documented in code): 'unchanged' is checked modulo a shift applied consistently to group name, Reactor/cycle and the group's cycle attribute; labelled snapshots cannot be requested and are not kept",
        "Part B: bare Operator, stack [recorder, DatabaseInterface, recorder]. Fault-free family: every (nCycles, burnSteps) shape listed in coverage x {no tight coupling, tight coupling x cyclesSkipTightCouplingInteraction in {[], [0], [1], all} x coupled iterations in {default cap, cap 0, cap 1, cap 2 reached with a never-converging real TightCoupler}} x syncDbAfterWrite on the two base members - i.e. every settings dimension found to change which code path writes a node or finalises the file. Fault enumeration (one RuntimeError per run, raised inside a recorder hook at every interaction point): the base members of the smaller shapes plus one member per deviation (quick) / every member of the family on the smaller shapes (thorough). Faults before the database is opened (first recorder at BOL) and after it is finalised (last recorder at EOL) are outside the property's window and only counted",
        "Part H: tracked parameter `power` of two blocks, steps (0,0),(0,1),(0,2),(1,0), depth as reported; the pre-load always asks for the written steps plus the current one (asking for a step the database does not hold makes the pre-load fail as a whole, which the code documents); oracle: the database's record for a written step, the live value for the current unwritten step, KeyError otherwise - with or without a pre-load ('the same results should be given if this method is not called')",
        "not covered: debugDB (a bare operator aborts at the first BOL debug write, before the database exists), forceDbParams (changes which columns are stored, not the write path), deferred interfaces and the db switch (they decide whether the database interface takes part at all), snapshot/restart operators other than prepRestartRun",
        "fast path redirected below the per-run scratch directory (context.APP_DATA / context._FAST_PATH), distinct from the working directory, so the move on close is exercised",
    ]


def evaluate(case):
    part = case.get("part", "A")
    if part == "B":
        return run_fault(case)["viols"]
    if part == "S":
        return split_item(case)["viols"]
    if part == "R":
        return run_restart(case)["viols"]
    if part == "C":
        return ctxmgr_item(case)["viols"]
    if part == "H":
        return expand_h(case)["viols"]
    return _eval_A(case)
