"""C03 - thermal expansion conserves mass per unit height and scales dimensions.

Bounded-exhaustive enumeration on the real ``Component`` API:

  every 2-D shape class in ``ComponentType.TYPES`` (discovered; one hand-written dimension table per
  class) x every material class of ``armi.materials`` (discovered by walking the package)
  x a temperature grid spanning the range the material itself states for its expansion correlation
  x several (Tinput, Thot) starts x ALL temperature paths up to a length bound over that grid,

plus linked-dimension pin cells inside a real ``HexBlock`` (string links resolved through the
blueprint path, and ``setLink``) driven through all interleavings of fuel/clad/bond temperature
changes, plus hot ``setDimension`` read-back at the end of every path.

Oracle (independent of component.py / material.py plumbing): the linear factor
``f(T) = (100 + p(T)) / (100 + p(Tinput))`` from the material's own ``linearExpansionPercent`` evaluated
on a *separate, parent-less* instance; closed-form areas written here per shape; number densities
``N0 * (f(T0)/f(T))**2``; path independence by comparing the end states of all paths that end at the
same temperature.

A *work item* is one (kind, shape, material) triple; a recorded violation carries the single start and
path that fails, so ``evaluate(case)`` replays exactly that execution.
"""
import copy
import itertools
import math
import pickle

from mcverif import core
from mcverif.checks import c03_matlib as matlib

PROPERTY = "C03"
LEVEL = "exploration"
MOD = "mcverif.checks.c03"

TOL = 1e-10  # algebraically equal, differently associated arithmetic (DESIGN 3.4)
TOL_READBACK = 1e-12  # v / f * f
HEIGHT = 2.0
MAX_V = 20

# ---------------------------------------------------------------------------------------------
# hand-written dimension tables: constructor arguments, which stored dimensions are lengths
# (thermally expanding), which are counts/factors (fixed), and the closed-form area.
# Values are cm at the input temperature; every table describes a valid (positive-area) shape.

PI = math.pi
S3 = math.sqrt(3.0)

SHAPES = {
    "circle": dict(
        ctor=dict(od=1.2, id=0.4, mult=7.0),
        lengths=dict(od=1.2, id=0.4),
        fixed=dict(mult=7.0),
        area=lambda d: PI / 4.0 * (d["od"] ** 2 - d["id"] ** 2) * d["mult"],
    ),
    "hexagon": dict(
        ctor=dict(op=3.0, ip=2.2, mult=2.0),
        lengths=dict(op=3.0, ip=2.2),
        fixed=dict(mult=2.0),
        area=lambda d: S3 / 2.0 * (d["op"] ** 2 - d["ip"] ** 2) * d["mult"],
    ),
    "rectangle": dict(
        ctor=dict(lengthOuter=4.0, lengthInner=3.0, widthOuter=2.0, widthInner=1.0, mult=2.0),
        lengths=dict(lengthOuter=4.0, lengthInner=3.0, widthOuter=2.0, widthInner=1.0),
        fixed=dict(mult=2.0),
        area=lambda d: d["mult"] * (d["lengthOuter"] * d["widthOuter"] - d["lengthInner"] * d["widthInner"]),
    ),
    "solidrectangle": dict(
        ctor=dict(lengthOuter=4.0, widthOuter=2.5, mult=3.0),
        lengths=dict(lengthOuter=4.0, widthOuter=2.5),
        fixed=dict(mult=3.0),
        area=lambda d: d["mult"] * d["lengthOuter"] * d["widthOuter"],
    ),
    "square": dict(
        ctor=dict(widthOuter=3.0, widthInner=1.5, mult=2.0),
        # a square stores its side as both width and length
        lengths=dict(widthOuter=3.0, widthInner=1.5, lengthOuter=3.0, lengthInner=1.5),
        fixed=dict(mult=2.0),
        area=lambda d: d["mult"] * (d["widthOuter"] ** 2 - d["widthInner"] ** 2),
    ),
    "triangle": dict(
        ctor=dict(base=2.0, height=1.5, mult=4.0),
        lengths=dict(base=2.0, height=1.5),
        fixed=dict(mult=4.0),
        area=lambda d: d["mult"] * d["base"] * d["height"] / 2.0,
    ),
    "holedhexagon": dict(
        ctor=dict(op=10.0, holeOD=1.1, nHoles=7.0, mult=1.0),
        lengths=dict(op=10.0, holeOD=1.1),
        fixed=dict(nHoles=7.0, mult=1.0),
        area=lambda d: d["mult"] * (S3 / 2.0 * d["op"] ** 2 - d["nHoles"] * PI * d["holeOD"] ** 2 / 4.0),
    ),
    "hexholedcircle": dict(
        ctor=dict(od=5.0, holeOP=2.0, mult=2.0),
        lengths=dict(od=5.0, holeOP=2.0),
        fixed=dict(mult=2.0),
        area=lambda d: d["mult"] * (PI * d["od"] ** 2 / 4.0 - S3 / 2.0 * d["holeOP"] ** 2),
    ),
    "holedrectangle": dict(
        ctor=dict(holeOD=1.0, lengthOuter=4.0, widthOuter=3.0, mult=2.0),
        lengths=dict(holeOD=1.0, lengthOuter=4.0, widthOuter=3.0),
        fixed=dict(mult=2.0),
        area=lambda d: d["mult"] * (d["lengthOuter"] * d["widthOuter"] - PI * d["holeOD"] ** 2 / 4.0),
    ),
    "holedsquare": dict(
        ctor=dict(holeOD=1.0, widthOuter=3.0, mult=2.0),
        lengths=dict(holeOD=1.0, widthOuter=3.0),
        fixed=dict(mult=2.0),
        area=lambda d: d["mult"] * (d["widthOuter"] ** 2 - PI * d["holeOD"] ** 2 / 4.0),
    ),
    "helix": dict(
        ctor=dict(od=0.2, axialPitch=20.0, helixDiameter=1.0, mult=10.0, id=0.05),
        lengths=dict(od=0.2, axialPitch=20.0, helixDiameter=1.0, id=0.05),
        fixed=dict(mult=10.0),
        area=lambda d: d["mult"]
        * PI
        / 4.0
        * (d["od"] ** 2 - d["id"] ** 2)
        * math.sqrt((d["helixDiameter"] / 2.0) ** 2 + (d["axialPitch"] / (2.0 * PI)) ** 2)
        / (d["axialPitch"] / (2.0 * PI)),
    ),
    # area entered directly; it is a length squared
    "unshapedcomponent": dict(ctor=dict(area=3.5), lengths=dict(), fixed=dict(), area=lambda d: d["__area"], area_in=3.5),
}

# 2-D entries of ComponentType.TYPES that have no dimensions of their own to expand
NOT_ENUMERATED = {
    "component": "abstract base (getComponentArea not implemented)",
    "shapedcomponent": "abstract base",
    "nullcomponent": "placeholder returning 0 for every dimension",
    "derivedshape": "area derived from the other components of its block; documented as unable to drive expansion",
}


def shape_names():
    """2-D shape classes discovered at run time; each must have a hand-written table."""
    from armi.reactor.components import ComponentType

    out = []
    for name, cls in sorted(ComponentType.TYPES.items()):
        if cls.is3D or name in NOT_ENUMERATED:
            continue
        if name not in SHAPES:
            raise RuntimeError("2-D component class %r (%s) has no dimension table in c03.SHAPES" % (name, cls))
        out.append(name)
    return out


def _scaled(shape, scale):
    t = SHAPES[shape]
    ctor = {}
    for k, v in t["ctor"].items():
        if k in t["lengths"]:
            ctor[k] = v * scale
        elif k == "area":
            ctor[k] = v * scale * scale
        else:
            ctor[k] = v
    lengths = {k: v * scale for k, v in t["lengths"].items()}
    return ctor, lengths, dict(t["fixed"]), t["area"]


def _rel(a, b):
    a, b = float(a), float(b)
    if a == b:
        return 0.0
    return abs(a - b) / max(abs(a), abs(b), 1e-300)


def _finite(x):
    try:
        return math.isfinite(float(x))
    except Exception:
        return False


def _raised_in_armi(e):
    """True when the innermost frame of the exception is ARMI code (a contract violation of the API
    under test); an exception raised by the check's own code must stay a harness error."""
    tb, last = e.__traceback__, None
    while tb is not None:
        last, tb = tb, tb.tb_next
    return last is not None and "/armi/" in last.tb_frame.f_code.co_filename.replace("\\", "/")


# ---------------------------------------------------------------------------------------------
# enumeration


def _starts(n):
    m = n // 2
    return [[0, 0], [0, m], [m, m], [m, n - 1], [n - 1, 1]]


NEGATIVE_C = -15.0


def _special_points(matname, knd, lo, hi, declared):
    """Temperatures the code may treat specially: exactly 0.0 C (falsy) and a negative one, wherever the
    material's stated range admits them (closed interval); a solid that states no range for a
    correlation it does define admits them too (nothing is stated that they could violate)."""
    if declared:
        ok = lambda t: lo - 1e-9 <= t <= hi + 1e-9  # noqa: E731
        pts = [0.0] if ok(0.0) else []
        if lo < -1e-6:
            pts.append(NEGATIVE_C if ok(NEGATIVE_C) else lo / 2.0)
        return pts
    if knd == "solid":
        r = _Ref(matname)
        if r.expands(lo, hi) and r.expands(0.0, hi) and r.expands(NEGATIVE_C, 0.0):
            return [0.0, NEGATIVE_C]
    return []


SPECIAL_POINT_SHAPES = ("circle", "helix", "unshapedcomponent")  # the factor logic is shape-independent


def _grid_for(matname, knd, n, special=True):
    """(temperatures, starts, lo, hi, labels, declared): the n-point grid over the stated range, followed
    by the special points; starts = the usual five plus starts whose Tinput / Thot is a special point."""
    lo, hi, labels, declared = _range_for(matname, knd)
    T = matlib.grid(lo, hi, n)
    starts = _starts(n)
    sp = _special_points(matname, knd, lo, hi, declared) if special else []
    for k, t in enumerate(sp):
        i = len(T)
        T.append(t)
        starts += [[i, i], [i, n - 1]] if k == 0 else [[i, n // 2]]
    return T, starts, lo, hi, labels, declared


def _paths(n, maxlen):
    out = []
    for L in range(maxlen + 1):
        out.extend([list(p) for p in itertools.product(range(n), repeat=L)])
    return out


def _range_for(matname, knd):
    if knd == "solid":
        return matlib.stated_range_C(matname, "linearExpansionPercent")
    if knd in ("fluid",):
        return matlib.stated_range_C(matname, "pseudoDensity")
    return matlib.DEFAULT_RANGE_C[0], matlib.DEFAULT_RANGE_C[1], [], False


def items(ctx):
    npts = 5 if ctx.quick else 7
    maxlen = 2 if ctx.quick else 3
    scale = [1.0, 1.3, 0.77, 2.1, 0.55][ctx.seed % 5]
    shapes = shape_names()
    mats = matlib.discover()
    out = []
    for mname, knd in mats:
        if knd == "abstract":
            continue
        # fluids / Custom / Void only have to keep their dimensions: one path step less than solids
        ml = maxlen if knd == "solid" else maxlen - 1
        for sh in shapes:
            out.append({"kind": "single", "shape": sh, "material": mname, "npts": npts, "maxlen": ml, "scale": scale})
    # near-coincident temperatures and their accumulation (wherever the code compares a temperature
    # difference with a threshold, steps just below/above it and many of them belong in the grid)
    for mname, knd in mats:
        if knd != "solid":
            continue
        for sh in TINY_SHAPES:
            out.append({"kind": "tiny", "shape": sh, "material": mname, "npts": npts, "scale": scale, "reps": list(TINY_REPS if ctx.quick else TINY_REPS_THOROUGH)})
    for method in ("strings", "setLink"):
        for order in itertools.permutations(("clad", "liner", "gap", "gap2")):
            out.append({"kind": "chain", "method": method, "order": list(order), "maxlen": maxlen, "scale": scale})
    for mname, knd in mats:
        if knd != "solid":
            continue
        for cfg in ("pin", "solidlink"):
            out.append({"kind": "linked", "config": cfg, "material": mname, "maxlen": maxlen, "scale": scale})
    return out


# ---------------------------------------------------------------------------------------------
# single component


class _Ref:
    """The material's own expansion correlation on a separate parent-less instance."""

    def __init__(self, matname):
        self.mat = matlib.cls_of(matname)()
        self.cache = {}

    def p(self, T):
        if T not in self.cache:
            self.cache[T] = float(self.mat.linearExpansionPercent(Tc=T))
        return self.cache[T]

    def f(self, Tin, T):
        return (100.0 + self.p(T)) / (100.0 + self.p(Tin))

    def expands(self, Tin, T):
        return self.p(T) != self.p(Tin)


def _build(shape, matname, Tin, Thot, scale, block=True):
    from armi.reactor import blocks
    from armi.reactor.components import ComponentType

    ctor, lengths, fixed, area = _scaled(shape, scale)
    c = ComponentType.TYPES[shape]("c", matlib.cls_of(matname)(), Tin, Thot, **ctor)
    b = None
    if block:
        b = blocks.HexBlock("blk", height=HEIGHT)
        b.add(c)
    return b, c, lengths, fixed, area, ctor


def _lin_mass(c, area):
    from armi.nucDirectory import nuclideBases

    nd = c.getNumberDensities()
    return sum(v * nuclideBases.byName[k].weight for k, v in nd.items()) * area


def _eval_single(case):
    """Enumerate every start x path of one (shape, material) pair (or just the recorded one)."""
    shape, matname, scale = case["shape"], case["material"], case["scale"]
    knd = matlib.kind(matlib.cls_of(matname))
    n = case["npts"]
    T, all_starts, lo, hi, labels, declared = _grid_for(matname, knd, n, special=shape in SPECIAL_POINT_SHAPES)
    starts = [case["start"]] if "start" in case else all_starts
    if "path" in case:
        paths = [case["path"]] + ([case["other"]] if "other" in case else [])
    else:
        paths = _paths(len(T), case["maxlen"])
    ref = _Ref(matname)
    vs = []
    st = {"exec": 0, "nontrivial": 0, "steps": 0, "refused_states": 0, "checked_states": 0, "hotsets": 0, "zero_mass": 0, "fvals": set(), "refuse_exc": set(), "_bad_in_exec": False}
    collapse = case.get("collapse")

    def bad(clause, disc, msg, start, path, **kw):
        # one violation per execution: the first symptom (later ones follow from it)
        if len(vs) >= MAX_V or st["_bad_in_exec"]:
            return
        st["_bad_in_exec"] = True
        cc = {k: case[k] for k in ("kind", "shape", "material", "npts", "maxlen", "scale")}
        cc.update(start=start, path=path)
        cc.update(kw)
        if collapse:
            cc["collapse"] = True
        key = "c03/%s/%s" % (clause, "many" if collapse else disc)
        vs.append(core.viol(key, "%s(%s) Tinput=%.6g Thot=%.6g path=%s: %s" % (shape, matname, T[start[0]], T[start[1]], [round(T[i], 6) for i in path], msg), cc))

    for start in starts:
        ends = {}
        for path in paths:
            st["exec"] += 1
            st["_bad_in_exec"] = False
            if any(a != b for a, b in zip([start[1]] + path, path)):
                st["nontrivial"] += 1
            try:
                obs = _run_single(shape, matname, knd, scale, T, start, path, ref, bad, st)
            except Exception as e:  # noqa: BLE001
                if not _raised_in_armi(e):
                    raise
                bad("unexpected-exception", "%s/%s" % (shape, type(e).__name__), "the component API raised %r" % (e,), start, path)
                obs = None
            if obs is None:
                continue
            endi = path[-1] if path else start[1]
            if endi in ends:
                o0, p0 = ends[endi]
                d = _obs_diff(o0, obs)
                if d:
                    bad("path-dependence", matname, "end state differs from the one reached by path %s: %s" % ([round(T[i], 6) for i in p0], d), start, path, other=p0)
            else:
                ends[endi] = (obs, path)
    st.pop("_bad_in_exec", None)
    st["fvals"] = len(st["fvals"])
    st["refuse_exc"] = sorted(st["refuse_exc"])
    st["range"] = [lo, hi, labels, declared]
    st["mat_kind"] = knd
    return vs, st


def _obs_diff(a, b, tol=TOL):
    if a[0] != b[0]:
        return "outcome %s vs %s" % (a[0], b[0])
    for (ka, va), (kb, vb) in zip(a[1], b[1]):
        if ka != kb:
            return "field %s vs %s" % (ka, kb)
        if _rel(va, vb) > tol:
            return "%s: %r vs %r" % (ka, va, vb)
    if len(a[1]) != len(b[1]):
        return "different number of observed fields"
    return None


def _run_single(shape, matname, knd, scale, T, start, path, ref, bad, st, check_steps=None):
    Tin, T0 = T[start[0]], T[start[1]]
    solid = knd == "solid"
    # a material without expansion refuses every hot-dimension query when Thot != Tinput, including the
    # pitch query a block makes when a component is added: such starts are explored without a block
    in_block = not (solid and not ref.expands(Tin, T0) and abs(T0 - Tin) > 1e-10)
    try:
        b, c, lengths, fixed, areaf, ctor = _build(shape, matname, Tin, T0, scale, block=in_block)
    except Exception as e:
        bad("construct-raises", "%s/%s" % (shape, type(e).__name__), "constructor raised %r" % (e,), start, path)
        return None
    coldd = dict(lengths)
    coldd.update(fixed)
    if "area" in ctor:
        coldd["__area"] = ctor["area"]
    cold_area = areaf(coldd)
    N0 = dict(c.getNumberDensities())
    p0 = ref.p(T0) if solid else 0.0
    lin0 = None
    mass0 = None
    obs = None
    seq = [None] + list(path)
    for k, ti in enumerate(seq):
        if ti is None:
            Tc = T0
        else:
            Tc = T[ti]
            st["steps"] += 1
            try:
                c.setTemperature(Tc)
            except Exception as e:
                if solid:
                    bad("setTemperature-raises", "%s/%s" % (matname, type(e).__name__), "setTemperature(%.6g) raised %r" % (Tc, e), start, path[:k])
                    return None
                # a fluid whose own density function refuses: loud refusal; its dimensions must still stand
                st["refuse_exc"].add("%s:setTemperature:%s" % (matname, type(e).__name__))
        if check_steps is not None and k not in check_steps:
            continue  # long repeated-step paths: the oracle runs at the stated checkpoints only
        if c.temperatureInC != Tc:
            bad("temperature-readback", shape, "temperatureInC reads %r after setTemperature(%r)" % (c.temperatureInC, Tc), start, path[:k])
        cur = path[:k]
        if solid:
            expands = ref.expands(Tin, Tc)
            f = ref.f(Tin, Tc)
            if not _finite(f) or f <= 0:
                bad("oracle-factor", matname, "material correlation gives a non-finite or non-positive factor %r" % (f,), start, cur)
                return None
            must_refuse = (not expands) and abs(Tc - Tin) > 1e-10
        else:
            f, must_refuse = 1.0, False
        st["fvals"].add(round(f, 12))
        # ---- dimensions
        refused = False
        for dn, cv in sorted(lengths.items()):
            try:
                got = c.getDimension(dn)
            except RuntimeError as e:
                if must_refuse:
                    refused = True
                    continue
                bad("dimension-raises", "%s.%s" % (shape, dn), "getDimension(%r) raised %r although the material %s" % (dn, e, "expands between Tinput and T" if solid else "is a fluid/custom material that keeps its dimensions"), start, cur)
                return None
            if must_refuse:
                bad("silent-zero-expansion", matname, "material gives no expansion between %.6g and %.6g C yet %s reads %r without refusal" % (Tin, Tc, dn, got), start, cur)
                continue
            if _rel(got, cv * f) > TOL:
                bad("dimension-not-scaled", "%s.%s" % (shape, dn), "%s reads %r, expected cold %r x f %r = %r" % (dn, got, cv, f, cv * f), start, cur)
            gc = c.getDimension(dn, cold=True)
            if gc != cv:
                bad("cold-dimension-changed", "%s.%s" % (shape, dn), "cold %s reads %r, input was %r" % (dn, gc, cv), start, cur)
            # at another temperature, without changing the state
            T2 = T[(start[1] + k + 1) % len(T)]
            if solid and (ref.expands(Tin, T2) or abs(T2 - Tin) <= 1e-10):
                g2 = c.getDimension(dn, Tc=T2)
                if _rel(g2, cv * ref.f(Tin, T2)) > TOL:
                    bad("dimension-at-Tc", "%s.%s" % (shape, dn), "getDimension(%r, Tc=%.6g) = %r expected %r" % (dn, T2, g2, cv * ref.f(Tin, T2)), start, cur)
        for dn, cv in sorted(fixed.items()):
            got = c.getDimension(dn)
            if got != cv:
                bad("fixed-dimension-changed", "%s.%s" % (shape, dn), "non-length dimension %s reads %r, input %r" % (dn, got, cv), start, cur)
        # ---- area
        area = None
        try:
            area = c.getArea()
        except RuntimeError as e:
            if must_refuse:
                refused = True
            else:
                bad("area-raises", shape, "getArea raised %r" % (e,), start, cur)
                return None
        if area is not None:
            if must_refuse and lengths:
                pass  # already reported through the dimensions
            elif must_refuse:
                bad("silent-zero-expansion", matname, "area %r returned without refusal although no expansion is defined" % (area,), start, cur)
            elif _rel(area, cold_area * f * f) > TOL:
                bad("area-not-f-squared", shape, "area %r, expected cold area %r x f^2 (f=%r) = %r" % (area, cold_area, f, cold_area * f * f), start, cur)
            T2 = T[(start[1] + k + 1) % len(T)]
            if solid and not must_refuse and (ref.expands(Tin, T2) or abs(T2 - Tin) <= 1e-10):
                try:
                    a2 = c.getArea(Tc=T2)
                    if _rel(a2, cold_area * ref.f(Tin, T2) ** 2) > TOL:
                        bad("area-at-Tc", shape, "getArea(Tc=%.6g) = %r expected %r" % (T2, a2, cold_area * ref.f(Tin, T2) ** 2), start, cur)
                except Exception as e:
                    bad("area-raises", shape, "getArea(Tc=%.6g) raised %r" % (T2, e), start, cur)
            try:
                ac = c.getArea(cold=True)
                if _rel(ac, cold_area) > TOL:
                    bad("cold-area", shape, "cold area %r expected %r" % (ac, cold_area), start, cur)
            except Exception as e:
                bad("area-raises", shape, "getArea(cold=True) raised %r" % (e,), start, cur)
        if refused:
            st["refused_states"] += 1
            st["refuse_exc"].add("%s:RuntimeError" % matname)
        else:
            st["checked_states"] += 1
        # ---- number densities
        N = c.getNumberDensities()
        if set(N) != set(N0):
            bad("nuclides-changed", matname, "nuclide set changed from %s to %s" % (sorted(N0), sorted(N)), start, cur)
        if solid:
            want = ((100.0 + p0) / (100.0 + ref.p(Tc))) ** 2
            for nuc in sorted(N0):
                if nuc in N and (not _finite(N[nuc]) or _rel(N[nuc], N0[nuc] * want) > TOL):
                    bad("ndens-not-inverse-f-squared", matname, "N[%s] = %r, expected N0 %r x (f(T0)/f(T))^2 %r = %r" % (nuc, N[nuc], N0[nuc], want, N0[nuc] * want), start, cur)
                    break
            # ---- mass per unit height
            if area is not None and not must_refuse:
                lin = _lin_mass(c, area)
                if lin0 is None:
                    lin0 = lin
                    mass0 = c.getMass() if in_block else None
                    if lin0 == 0.0:
                        st["zero_mass"] += 1
                else:
                    if _rel(lin, lin0) > TOL:
                        bad("mass-per-height", matname, "sum(N*A_w)*area = %r, was %r at the start (rel %.3g)" % (lin, lin0, _rel(lin, lin0)), start, cur)
                if in_block:
                    vol = c.getVolume()
                    if _rel(vol, area * HEIGHT) > TOL:
                        bad("volume-cache-stale", shape, "getVolume %r but area x height = %r" % (vol, area * HEIGHT), start, cur)
                    m = c.getMass()
                    if _rel(m, mass0) > TOL:
                        bad("mass-per-height", matname, "getMass %r, was %r at the start" % (m, mass0), start, cur)
        fields = [("T", Tc)]
        if not refused and not must_refuse:
            fields += [("dim." + dn, c.getDimension(dn)) for dn in sorted(lengths)]
            fields.append(("area", area if area is not None else float("nan")))
        fields += [("N." + nuc, N[nuc]) for nuc in sorted(N)]
        obs = ("refused" if (refused or must_refuse) else "ok", fields)
    # ---- hot setDimension reads back (end of the path)
    if obs is not None and obs[0] == "ok" and lengths:
        newcold = dict(coldd)
        for dn in sorted(lengths):
            v = c.getDimension(dn) * 1.25
            try:
                c.setDimension(dn, v, cold=False)
                got = c.getDimension(dn)
                gc = c.getDimension(dn, cold=True)
            except Exception as e:
                bad("hot-set-raises", "%s.%s" % (shape, dn), "setDimension(%r, %r, cold=False) raised %r" % (dn, v, e), start, path)
                continue
            st["hotsets"] += 1
            if _rel(got, v) > TOL_READBACK:
                bad("hot-set-readback", "%s.%s" % (shape, dn), "set hot %s = %r, reads back %r" % (dn, v, got), start, path)
            if _rel(gc, v / f) > TOL:
                bad("hot-set-cold-value", "%s.%s" % (shape, dn), "set hot %s = %r at f=%r: cold value %r expected %r" % (dn, v, f, gc, v / f), start, path)
            newcold[dn] = v / f
        # a square keeps width and length as separate stored numbers: the area formula reads the width
        try:
            a2 = c.getArea()
            want = areaf(newcold) * f * f
            if _rel(a2, want) > TOL:
                bad("area-after-hot-set", shape, "area %r after hot sets, expected %r" % (a2, want), start, path)
        except Exception as e:
            bad("area-raises", shape, "getArea after hot sets raised %r" % (e,), start, path)
    return obs


# ---------------------------------------------------------------------------------------------
# tiny, repeated temperature steps

TINY_SHAPES = ("circle", "helix")
TINY_STEPS_C = (1e-11, 1e-9, 1e-6, 1e-4, 0.999e-3, 1.001e-3, 1e-2)  # several magnitudes, incl. both sides of 1e-3 and of Component._TOLERANCE
TINY_REPS = (1, 10, 1000)
TINY_REPS_THOROUGH = (1, 10, 1000, 20000)
TINY_TOL = 1e-12  # k steps of +d against the single jump to T + k*d: same algebra, only rounding differs ...
TINY_TOL_PER_STEP = 8 * 2.220446049250313e-16  # ... by a few ulp per multiplication (measured: 2e-16 per step)


def _eval_tiny(case):
    """From a grid temperature take k equal steps of +-d (d over several magnitudes), then one ordinary
    jump; compare with the single jump to the same temperatures and with the closed-form oracle."""
    shape, matname, scale, n = case["shape"], case["material"], case["scale"], case["npts"]
    knd = matlib.kind(matlib.cls_of(matname))
    G, _, lo, hi, labels, declared = _grid_for(matname, knd, n)
    ref = _Ref(matname)
    vs = []
    st = {"exec": 0, "nontrivial": 0, "steps": 0, "refused_states": 0, "checked_states": 0, "hotsets": 0, "zero_mass": 0, "fvals": set(), "refuse_exc": set(), "_bad_in_exec": False}
    st["range"] = [lo, hi, labels, declared]
    st["mat_kind"] = knd
    if not (ref.expands(G[0], G[n // 2]) and ref.expands(G[0], G[n - 1])):
        # no expansion correlation: every hot query refuses; covered by the 'single' items
        st["fvals"] = 0
        st["refuse_exc"] = []
        st.pop("_bad_in_exec")
        return vs, st
    if "d" in case:
        combos = [(case["start"], case["sign"], case["d"], case["k"])]
    else:
        combos = [(sti, sg, d, k) for sti in ([[1, 1], [0, n // 2 + 1]] + ([[n, n]] if len(G) > n and G[n] == 0.0 else [])) for sg in (1, -1) for d in TINY_STEPS_C for k in case["reps"]]
    collapse = case.get("collapse")
    cur = {}

    def bad(clause, disc, msg, start, path, **kw):
        if len(vs) >= MAX_V or st["_bad_in_exec"]:
            return
        st["_bad_in_exec"] = True
        cc = {k: case[k] for k in ("kind", "shape", "material", "npts", "scale", "reps")}
        cc.update(cur)
        if collapse:
            cc["collapse"] = True
        vs.append(core.viol("c03/%s/%s" % (clause, "many" if collapse else disc), "%s(%s) Tinput=%.9g Thot=%.9g, %d steps of %+.3g C (after step %d of the path): %s" % (shape, matname, G[cur["start"][0]], G[cur["start"][1]], cur["k"], cur["sign"] * cur["d"], len(path), msg), cc))

    for sti, sg, d, k in combos:
        cur.clear()
        cur.update(start=sti, sign=sg, d=d, k=k)
        Tin, T0 = G[sti[0]], G[sti[1]]
        far = G[n - 1] if sti[1] != n - 1 else G[0]
        # temperature list of this execution: [Tinput, Thot, Thot+-d, ..., Thot+-k*d, far]
        T = [Tin, T0] + [T0 + sg * j * d for j in range(1, k + 1)] + [far]
        stepped = list(range(2, k + 3))
        obs = {}
        for label, path, checks in (("stepped", stepped, {0, 1, k, k + 1}), ("jump", [k + 1, k + 2], None), ("stepped-short", stepped[:-1], {0, k}), ("jump-short", [k + 1], None)):
            st["exec"] += 1
            st["nontrivial"] += 1
            st["_bad_in_exec"] = False
            try:
                obs[label] = _run_single(shape, matname, knd, scale, T, [0, 1], path, ref, bad, st, check_steps=checks)
            except Exception as e:  # noqa: BLE001
                if not _raised_in_armi(e):
                    raise
                bad("unexpected-exception", "%s/%s" % (shape, type(e).__name__), "the component API raised %r" % (e,), [0, 1], path)
                obs[label] = None
        for a, b in (("stepped-short", "jump-short"), ("stepped", "jump")):
            if obs[a] is not None and obs[b] is not None:
                dd = _obs_diff(obs[b], obs[a], TINY_TOL + k * TINY_TOL_PER_STEP)
                if dd:
                    st["_bad_in_exec"] = False
                    bad("tiny-steps-path-dependence", matname, "end state after the repeated steps%s differs from the single jump (expected vs observed): %s" % (" and one ordinary jump" if a == "stepped" else "", dd), [0, 1], [])
    st.pop("_bad_in_exec", None)
    st["fvals"] = len(st["fvals"])
    st["refuse_exc"] = sorted(st["refuse_exc"])
    return vs, st


# ---------------------------------------------------------------------------------------------
# linked dimensions in a real block

CLAD_MAT = "HT9"
BOND_MAT = "Sodium"


def _linked_grid(matname):
    lo, hi, _, declared = matlib.stated_range_C(matname, "linearExpansionPercent")
    return matlib.grid(lo, hi, 3) + _special_points(matname, "solid", lo, hi, declared)[:1]


def _build_linked(cfg, matname, Tf, Tcl, scale):
    from armi.reactor import blocks
    from armi.reactor.components import basicShapes

    b = blocks.HexBlock("blk", height=HEIGHT)
    comps = {}
    fuel = basicShapes.Circle("fuel", matlib.cls_of(matname)(), Tf[0], Tf[1], od=0.8 * scale, id=0.0, mult=7.0)
    b.add(fuel)
    comps["fuel"] = fuel
    links = []
    if cfg == "pin":
        clad = basicShapes.Circle("clad", matlib.cls_of(CLAD_MAT)(), Tcl[0], Tcl[1], od=1.2 * scale, id=1.0 * scale, mult="fuel.mult", components=comps)
        b.add(clad)
        comps["clad"] = clad
        bond = basicShapes.Circle("bond", matlib.cls_of(BOND_MAT)(), Tcl[1], Tcl[1], od="clad.id", id="fuel.od", mult="fuel.mult", components=comps)
        b.add(bond)
        comps["bond"] = bond
        links = [("clad", "mult", "fuel", "mult"), ("bond", "od", "clad", "id"), ("bond", "id", "fuel", "od"), ("bond", "mult", "fuel", "mult")]
    else:
        # a solid liner whose inner diameter is the fuel surface (setLink, no blueprint strings)
        clad = basicShapes.Circle("clad", matlib.cls_of(CLAD_MAT)(), Tcl[0], Tcl[1], od=1.2 * scale, id=0.0, mult=7.0)
        b.add(clad)
        comps["clad"] = clad
        clad.setLink("id", fuel, "od")
        clad.setLink("mult", fuel, "mult")
        links = [("clad", "id", "fuel", "od"), ("clad", "mult", "fuel", "mult")]
    return b, comps, links


def _eval_linked(case):
    cfg, matname, scale = case["config"], case["material"], case["scale"]
    Tf = _linked_grid(matname)
    Tcl = _linked_grid(CLAD_MAT)
    Tb = [200.0, 500.0]
    ops = [["fuel", i] for i in range(len(Tf))] + [["clad", i] for i in range(len(Tcl))] + ([["bond", 1]] if cfg == "pin" else [])
    # copies of the whole block: later operations go to the copy or stay with the original; both are checked
    ops += [["copy", how, where] for how in ("deepcopy", "pickle") for where in ("copy", "orig")]
    if "path" in case:
        paths = [case["path"]]
    else:
        paths = []
        for L in range(case["maxlen"] + 1):
            paths.extend([list(p) for p in itertools.product(ops, repeat=L)])
    reff, refc = _Ref(matname), _Ref(CLAD_MAT)
    vs = []
    st = {"exec": 0, "nontrivial": 0, "steps": 0, "refused_states": 0, "checked_states": 0, "hotsets": 0, "zero_mass": 0, "fvals": set(), "refuse_exc": set(), "_bad_in_exec": False}
    fuel_expands = reff.expands(Tf[0], Tf[1]) and reff.expands(Tf[0], Tf[2])
    collapse = case.get("collapse")

    def bad(clause, disc, msg, path):
        if len(vs) >= MAX_V or st["_bad_in_exec"]:
            return
        st["_bad_in_exec"] = True
        cc = {k: case[k] for k in ("kind", "config", "material", "maxlen", "scale")}
        cc["path"] = path
        if collapse:
            cc["collapse"] = True
        vs.append(core.viol("c03/%s/%s" % (clause, "many" if collapse else disc), "linked %s fuel=%s path=%s: %s" % (cfg, matname, path, msg), cc))

    if not fuel_expands:
        # the fuel material states no expansion: every hot dimension query refuses; covered by 'single'
        st["refuse_exc"].add("%s:RuntimeError" % matname)
        st["fvals"] = 0
        st["refuse_exc"] = sorted(st["refuse_exc"])
        st["skipped_linked"] = 1
        st.pop("_bad_in_exec", None)
        return vs, st

    for path in paths:
        st["exec"] += 1
        st["_bad_in_exec"] = False
        # fuel hot = Tf[1], input Tf[0]; clad hot = Tcl[1], input Tcl[0]
        try:
            b, comps, links = _build_linked(cfg, matname, (Tf[0], Tf[1]), (Tcl[0], Tcl[1]), scale)
        except Exception as e:
            bad("construct-raises", "linked/%s" % type(e).__name__, "construction raised %r" % (e,), path)
            continue
        def body(b=b, comps=comps, links=links, path=path):
            # the block under operation, and every other copy of it made along the way (each with the
            # temperatures it had when the two parted)
            act = {"b": b, "comps": comps, "tf": 1, "tc": 1, "tag": "original"}
            others = []
            linf0 = _lin_mass(comps["fuel"], comps["fuel"].getArea())
            changed = False

            def check(blk, cur):
                cm, tf, tc, tag = blk["comps"], blk["tf"], blk["tc"], blk["tag"]
                ff = reff.f(Tf[0], Tf[tf])
                fc = refc.f(Tcl[0], Tcl[tc])
                st["fvals"].add((round(ff, 12), round(fc, 12)))
                st["checked_states"] += 1
                want = {("fuel", "od"): 0.8 * scale * ff, ("fuel", "mult"): 7.0, ("clad", "od"): 1.2 * scale * fc}
                if cfg == "pin":
                    want[("clad", "id")] = 1.0 * scale * fc
                for (cn, dn), w in sorted(want.items()):
                    got = cm[cn].getDimension(dn)
                    if _rel(got, w) > TOL:
                        bad("dimension-not-scaled", "linked.%s.%s" % (cn, dn), "[%s] %s.%s reads %r expected %r" % (tag, cn, dn, got, w), cur)
                for cn, dn, tn, tdn in links:
                    got = cm[cn].getDimension(dn)
                    tgt = cm[tn].getDimension(tdn)
                    if got != tgt or _rel(got, want[(tn, tdn)]) > TOL:
                        bad("link-not-current", "%s.%s<-%s.%s" % (cn, dn, tn, tdn), "[%s] %s.%s reads %r but %s.%s of the same block is %r (oracle %r)" % (tag, cn, dn, got, tn, tdn, tgt, want[(tn, tdn)]), cur)
                    gcold = cm[cn].getDimension(dn, cold=True)
                    tcold = cm[tn].getDimension(tdn, cold=True)
                    if gcold != tcold:
                        bad("link-not-current", "%s.%s<-%s.%s" % (cn, dn, tn, tdn), "[%s] cold %s.%s reads %r but cold %s.%s is %r" % (tag, cn, dn, gcold, tn, tdn, tcold), cur)
                    if not cm[cn].dimensionIsLinked(dn):
                        bad("link-lost", "%s.%s<-%s.%s" % (cn, dn, tn, tdn), "[%s] %s.%s is no longer a link" % (tag, cn, dn), cur)
                    elif (dn, tdn) not in cm[cn].getDimensionNamesLinkedTo(cm[tn]) or cm[tn].parent is not blk["b"] or cm[cn].parent is not blk["b"]:
                        bad("link-leaves-block", "%s.%s<-%s.%s" % (cn, dn, tn, tdn), "[%s] %s.%s is not linked to the %s of its own block" % (tag, cn, dn, tn), cur)
                # areas and cached volumes of every component follow the current dimensions
                fod, cod = want[("fuel", "od")], want[("clad", "od")]
                cid = want[("clad", "id")] if cfg == "pin" else fod
                areas = {"fuel": PI / 4.0 * fod**2 * 7.0, "clad": PI / 4.0 * (cod**2 - cid**2) * 7.0}
                if cfg == "pin":
                    areas["bond"] = PI / 4.0 * (cid**2 - fod**2) * 7.0
                for cn, wa in sorted(areas.items()):
                    a = cm[cn].getArea()
                    if _rel(a, wa) > 1e-9:  # difference of squares of nearly equal numbers
                        bad("link-area", "linked.%s" % cn, "[%s] %s area %r expected %r from the current diameters" % (tag, cn, a, wa), cur)
                    v = cm[cn].getVolume()
                    if _rel(v, a * HEIGHT) > TOL:
                        bad("link-volume-stale", "linked.%s" % cn, "[%s] %s getVolume %r but current area x height = %r" % (tag, cn, v, a * HEIGHT), cur)
                lf = _lin_mass(cm["fuel"], cm["fuel"].getArea())
                if _rel(lf, linf0) > TOL:
                    bad("mass-per-height", matname, "[%s] fuel mass per unit height %r, was %r" % (tag, lf, linf0), cur)

            for k in range(len(path) + 1):
                if k > 0:
                    who, i = path[k - 1][0], path[k - 1][1]
                    st["steps"] += 1
                    try:
                        if who == "fuel":
                            changed = changed or i != act["tf"]
                            act["tf"] = i
                            act["comps"]["fuel"].setTemperature(Tf[i])
                        elif who == "clad":
                            changed = changed or i != act["tc"]
                            act["tc"] = i
                            act["comps"]["clad"].setTemperature(Tcl[i])
                        elif who == "copy":
                            how, where = i, path[k - 1][2]
                            nb_ = copy.deepcopy(act["b"]) if how == "deepcopy" else pickle.loads(pickle.dumps(act["b"]))
                            twin = {"b": nb_, "comps": {c.name: c for c in nb_}, "tf": act["tf"], "tc": act["tc"], "tag": "%s of %s" % (how, act["tag"])}
                            if where == "copy":
                                others.append(act)
                                act = twin
                            else:
                                others.append(twin)
                        else:
                            act["comps"]["bond"].setTemperature(Tb[i])
                    except Exception as e:
                        bad("setTemperature-raises", "linked/%s" % type(e).__name__, "%s raised %r" % (path[k - 1], e), path[:k])
                        break
                cur = path[:k]
                check(act, cur)
                for o in others:
                    check(o, cur)
            else:
                if changed:
                    st["nontrivial"] += 1
                comps, fuel = act["comps"], act["comps"]["fuel"]
                # hot set on the link target is seen through the link; hot set through the link lands on the target
                who, dn = ("bond", "id") if cfg == "pin" else ("clad", "id")
                v = fuel.getDimension("od") * 0.9
                fuel.setDimension("od", v, cold=False)
                st["hotsets"] += 1
                got = comps[who].getDimension(dn)
                if _rel(got, v) > TOL_READBACK or _rel(fuel.getDimension("od"), v) > TOL_READBACK:
                    bad("hot-set-readback", "linked.fuel.od", "fuel.od set hot to %r: fuel reads %r, %s.%s reads %r" % (v, fuel.getDimension("od"), who, dn, got), path)
                v2 = v * 0.95
                comps[who].setDimension(dn, v2, retainLink=True, cold=False)
                st["hotsets"] += 1
                if _rel(fuel.getDimension("od"), v2) > TOL_READBACK or comps[who].getDimension(dn) != fuel.getDimension("od") or not comps[who].dimensionIsLinked(dn):
                    bad("hot-set-through-link", "linked.%s.%s" % (who, dn), "%s.%s set hot to %r with retainLink: fuel.od reads %r, link reads %r" % (who, dn, v2, fuel.getDimension("od"), comps[who].getDimension(dn)), path)
                a = comps[who].getArea()
                v = comps[who].getVolume()
                if _rel(v, a * HEIGHT) > TOL:
                    bad("link-volume-stale", "linked.%s" % who, "%s getVolume %r but area x height = %r after hot set" % (who, v, a * HEIGHT), path)
                # the hot sets on the block under operation leave every other copy alone
                for o in others:
                    check(o, path)

        try:
            body()
        except Exception as e:  # noqa: BLE001
            if not _raised_in_armi(e):
                raise
            bad("unexpected-exception", "linked/%s" % type(e).__name__, "the component API raised %r" % (e,), path)
    st.pop("_bad_in_exec", None)
    st["fvals"] = len(st["fvals"])
    st["refuse_exc"] = sorted(st["refuse_exc"])
    return vs, st


# ---------------------------------------------------------------------------------------------
# chains of links: A.x <- B.y <- C.z, built in every order, then each member gets a value of its own
#
#   clad (HT9)   id, od own                      liner (HT9)  od <- clad.id           (length 1)
#   gap  (Void)  id <- liner.od, od <- clad.id   (length 2)   gap2 (Void) id <- gap.id, od <- clad.id (length 3)
#
# Reference model: every (component, dimension) is either an own cold number or a link; a link reads the
# CURRENT value of the component it names - whatever that component's dimension is at that moment.

CHAIN_DIMS = {
    "clad": {"od": 1.2, "id": 1.0, "mult": 7.0},
    "liner": {"od": "clad.id", "id": 0.9, "mult": 7.0},
    "gap": {"od": "clad.id", "id": "liner.od", "mult": 7.0},
    "gap2": {"od": "clad.id", "id": "gap.id", "mult": 7.0},
}
CHAIN_MATS = {"clad": "HT9", "liner": "HT9", "gap": "Void", "gap2": "Void"}
CHAIN_SET_TARGETS = (("clad", "id", 1.01), ("liner", "od", 0.98), ("gap", "id", 0.97))


def _chain_ops():
    ops = [["T", "clad", 0], ["T", "clad", 2], ["T", "liner", 0], ["T", "liner", 2]]
    for cn, dn, v in CHAIN_SET_TARGETS:
        ops += [["set", cn, dn, v, True], ["set", cn, dn, v, False]]
    ops += [["copy", how, where] for how in ("deepcopy", "pickle") for where in ("copy", "orig")]
    return ops


def _eval_chain(case):
    from armi.reactor import blocks
    from armi.reactor.components import basicShapes

    method, order, scale = case["method"], case["order"], case["scale"]
    Tg = matlib.grid(*matlib.stated_range_C("HT9", "linearExpansionPercent")[:2], 3)
    ref = _Ref("HT9")
    ops = _chain_ops()
    if "path" in case:
        paths = [case["path"]]
    else:
        paths = [list(p) for L in range(case["maxlen"] + 1) for p in itertools.product(ops, repeat=L)]
    vs = []
    st = {"exec": 0, "nontrivial": 0, "steps": 0, "refused_states": 0, "checked_states": 0, "hotsets": 0, "zero_mass": 0, "fvals": set(), "refuse_exc": set(), "_bad_in_exec": False}
    collapse = case.get("collapse")

    def bad(clause, disc, msg, path):
        if len(vs) >= MAX_V or st["_bad_in_exec"]:
            return
        st["_bad_in_exec"] = True
        cc = {k: case[k] for k in ("kind", "method", "order", "maxlen", "scale")}
        cc["path"] = path
        if collapse:
            cc["collapse"] = True
        vs.append(core.viol("c03/%s/%s" % (clause, "many" if collapse else disc), "link chain (%s, resolved in order %s) after %s: %s" % (method, order, path, msg), cc))

    def run_one(path):
        b = blocks.HexBlock("blk", height=HEIGHT)
        comps, model, temp = {}, {}, {}
        for cn in ("clad", "liner", "gap", "gap2"):
            dims = {}
            for dn, v in CHAIN_DIMS[cn].items():
                own = not isinstance(v, str)
                val = v * scale if own and dn != "mult" else v
                model[(cn, dn)] = ("val", val) if own else ("link", tuple(v.split(".")))
                # with setLink the linked dimension starts as a placeholder number
                dims[dn] = val if own or method == "strings" else 0.5
            comps[cn] = basicShapes.Circle(cn, matlib.cls_of(CHAIN_MATS[cn])(), Tg[0], Tg[1], **dims)
            temp[cn] = 1
            b.add(comps[cn])
        # establish the links, one component at a time, in the order under test
        for cn in order:
            if method == "strings":
                comps[cn].resolveLinkedDims(comps)
            else:
                for dn, v in CHAIN_DIMS[cn].items():
                    if isinstance(v, str):
                        tn, tdn = v.split(".")
                        comps[cn].setLink(dn, comps[tn], tdn)

        act = {"b": b, "comps": comps, "model": model, "temp": temp, "tag": "original"}
        others = []

        def f(blk, cn):
            return ref.f(Tg[0], Tg[blk["temp"][cn]]) if CHAIN_MATS[cn] == "HT9" else 1.0

        def want(blk, cn, dn):
            kind_, v = blk["model"][(cn, dn)]
            if kind_ == "link":
                return want(blk, *v)
            return v * f(blk, cn) if dn in ("od", "id") else v

        def check(blk, cur):
            cm, tag = blk["comps"], blk["tag"]
            st["checked_states"] += 1
            st["fvals"].add((round(f(blk, "clad"), 12), round(f(blk, "liner"), 12)))
            for (cn, dn), (kind_, v) in sorted(blk["model"].items()):
                got = cm[cn].getDimension(dn)
                w = want(blk, cn, dn)
                if _rel(got, w) > TOL:
                    bad("chain-dimension", "%s.%s" % (cn, dn), "[%s] %s.%s reads %r, the model (own numbers x f, links read the current value of their target in the same block) gives %r" % (tag, cn, dn, got, w), cur)
                if kind_ == "link":
                    tgt = cm[v[0]].getDimension(v[1])
                    if got != tgt:
                        bad("link-not-current", "chain.%s.%s<-%s.%s" % (cn, dn, v[0], v[1]), "[%s] %s.%s reads %r but the dimension it is linked to, %s.%s, is currently %r" % (tag, cn, dn, got, v[0], v[1], tgt), cur)
                    if not cm[cn].dimensionIsLinked(dn):
                        bad("link-lost", "chain.%s.%s" % (cn, dn), "[%s] %s.%s is no longer a link" % (tag, cn, dn), cur)
                    elif (dn, v[1]) not in cm[cn].getDimensionNamesLinkedTo(cm[v[0]]) or cm[cn].parent is not blk["b"] or cm[v[0]].parent is not blk["b"]:
                        bad("link-leaves-block", "chain.%s.%s<-%s.%s" % (cn, dn, v[0], v[1]), "[%s] %s.%s is not linked to the %s of its own block" % (tag, cn, dn, v[0]), cur)
                elif cm[cn].dimensionIsLinked(dn):
                    bad("link-survives-own-value", "chain.%s.%s" % (cn, dn), "[%s] %s.%s was given a value of its own but is still a link" % (tag, cn, dn), cur)
            for cn, c in cm.items():
                od, idd, mult = want(blk, cn, "od"), want(blk, cn, "id"), want(blk, cn, "mult")
                wa = PI / 4.0 * (od * od - idd * idd) * mult
                a = c.getArea()
                if abs(a - wa) > 1e-9 * max(abs(wa), od * od):
                    bad("link-area", "chain.%s" % cn, "[%s] %s area %r expected %r from the current diameters" % (tag, cn, a, wa), cur)
                vol = c.getVolume()
                if abs(vol - a * HEIGHT) > 1e-9 * max(abs(a) * HEIGHT, od * od):
                    bad("link-volume-stale", "chain.%s" % cn, "[%s] %s getVolume %r but current area x height = %r" % (tag, cn, vol, a * HEIGHT), cur)

        changed = False
        for k in range(len(path) + 1):
            if k > 0:
                op = path[k - 1]
                st["steps"] += 1
                if op[0] == "T":
                    changed = changed or act["temp"][op[1]] != op[2]
                    act["temp"][op[1]] = op[2]
                    act["comps"][op[1]].setTemperature(Tg[op[2]])
                elif op[0] == "copy":
                    nb_ = copy.deepcopy(act["b"]) if op[1] == "deepcopy" else pickle.loads(pickle.dumps(act["b"]))
                    twin = {"b": nb_, "comps": {c.name: c for c in nb_}, "model": dict(act["model"]), "temp": dict(act["temp"]), "tag": "%s of %s" % (op[1], act["tag"])}
                    if op[2] == "copy":
                        others.append(act)
                        act = twin
                    else:
                        others.append(twin)
                else:
                    _, cn, dn, v, cold = op
                    v = v * scale
                    changed = True
                    act["comps"][cn].setDimension(dn, v, cold=cold)
                    st["hotsets"] += 0 if cold else 1
                    act["model"][(cn, dn)] = ("val", v if cold else v / f(act, cn))
            cur = path[:k]
            check(act, cur)
            for o in others:
                check(o, cur)
        return changed

    for path in paths:
        st["exec"] += 1
        st["_bad_in_exec"] = False
        try:
            if run_one(path):
                st["nontrivial"] += 1
        except Exception as e:  # noqa: BLE001
            if not _raised_in_armi(e):
                raise
            bad("unexpected-exception", "chain/%s" % type(e).__name__, "the component API raised %r" % (e,), path)
    st.pop("_bad_in_exec", None)
    st["fvals"] = len(st["fvals"])
    st["refuse_exc"] = sorted(st["refuse_exc"])
    return vs, st


# ---------------------------------------------------------------------------------------------


def _evaluate_counted(case):
    if case["kind"] == "single":
        return _eval_single(case)
    if case["kind"] == "tiny":
        return _eval_tiny(case)
    if case["kind"] == "chain":
        return _eval_chain(case)
    return _eval_linked(case)


def evaluate(case):
    return _evaluate_counted(case)[0]


def _collapse(vs):
    """More than 6 distinct discriminators failing one clause: the class is evidently not specific to
    one shape/material; collapse to a single key (the case carries the flag so that replay agrees)."""
    by_clause = {}
    for v in vs:
        clause = v["key"].split("/")[1]
        by_clause.setdefault(clause, set()).add(v["key"])
    out = []
    for v in vs:
        clause = v["key"].split("/")[1]
        if len(by_clause[clause]) > 6:
            v = dict(v)
            v["case"] = dict(v["case"])
            v["case"]["collapse"] = True
            v["key"] = "c03/%s/many" % clause
        out.append(v)
    return out


def run(ctx):
    its = ctx.order(items(ctx))
    res = core.pmap(MOD, "_evaluate_counted", its, chunksize=2)
    tot = {"exec": 0, "nontrivial": 0, "steps": 0, "refused_states": 0, "checked_states": 0, "hotsets": 0, "zero_mass": 0}
    refusing, ranges, zero_mass, fluid_refusals = set(), {}, set(), set()
    allv = []
    fvals = 0
    for it, (vs, st) in zip(its, res):
        for k in tot:
            tot[k] += st[k]
        fvals += st["fvals"]
        allv.extend(vs)
        ctx.count("items_" + it["kind"])
        ctx.count("executions_" + it["kind"], st["exec"])
        if it["kind"] == "tiny":
            ctx.count("tiny_step_executions", st["exec"])
        if it["kind"] == "chain":
            ctx.count("link_chain_executions", st["exec"])
        if it["kind"] == "single":
            ctx.count("executions_shape_" + it["shape"], st["exec"])
            ctx.count("executions_material_kind_" + st["mat_kind"], st["exec"])
            ranges[it["material"]] = st["range"]
            if st["zero_mass"]:
                zero_mass.add(it["material"])
        for r in st["refuse_exc"]:
            (fluid_refusals if "setTemperature" in r else refusing).add(r)
    ctx.add_violations(_collapse(allv))
    for k, v in tot.items():
        ctx.count(k, v)
    ctx.count("distinct_expansion_factors_observed", fvals)
    mats = matlib.discover()
    ctx.notes.append("materials refusing expansion with RuntimeError when T != Tinput (counted as refused, not failed): %s" % sorted(r.split(":")[0] for r in refusing))
    if fluid_refusals:
        ctx.notes.append("fluids whose setTemperature raises from their own density function (dimensions still checked; reported by C19): %s" % sorted(fluid_refusals))
    if zero_mass:
        ctx.notes.append("materials whose components carry zero mass (pseudoDensity 0: conservation holds vacuously; reported by C19): %s" % sorted(zero_mass))
    ctx.notes.append("abstract classes not enumerated: %s; 2-D component classes not enumerated: %s" % (sorted(n for n, k in mats if k == "abstract"), NOT_ENUMERATED))
    ctx.samples = [dict(it, start=_starts(it["npts"])[1], path=[it["npts"] - 1, 0]) for it in its if it["kind"] == "single"][:2] + [dict(it, path=[["fuel", 2], ["clad", 0]]) for it in its if it["kind"] == "linked"][:1]
    ctx.coverage.update(
        evaluations=tot["exec"],
        distinct_nontrivial=tot["nontrivial"],
        rule="one evaluation = one (shape, material, Tinput, Thot, temperature path) execution on a freshly built component (or one linked pin cell x interleaved path); distinct by construction; non-trivial = at least one step changes a temperature",
        exhaustive=True,
        shapes=shape_names(),
        materials={k: sorted(n for n, kk in mats if kk == k) for k in ("solid", "fluid", "custom", "void")},
        temperature_ranges_C={m: r[:2] + [r[3]] for m, r in sorted(ranges.items())},
        grid_points=max(it.get("npts", 0) for it in its),
        max_path_length=max(it.get("maxlen", 0) for it in its),
        tiny_steps_C=list(TINY_STEPS_C),
        tiny_step_repetitions=max((it["reps"] for it in its if it["kind"] == "tiny"), default=None),
        tiny_step_shapes=list(TINY_SHAPES),
        special_temperatures_C=[0.0, NEGATIVE_C],
        special_temperature_shapes=list(SPECIAL_POINT_SHAPES),
        link_chain_configurations=sum(1 for it in its if it["kind"] == "chain"),
        states_checked=tot["checked_states"],
        states_refused=tot["refused_states"],
        hot_setDimension_checks=tot["hotsets"],
    )
    ctx.assumptions += [
        "temperatures are drawn from an n-point grid over the range each material states for its expansion correlation (20-800 C when it states none); errors between grid points or outside the range are not seen",
        "the expansion correlation itself (linearExpansionPercent on a parent-less instance) is the trusted oracle input; its plausibility is C19's subject",
        "near-coincident temperatures: steps of +-{1e-11 .. 1e-2} C repeated 1/10/1000 times (thorough: also 20000) from two starts, for every expanding solid x 2 shapes, compared with the single jump at 1e-12; other step sizes, longer accumulations and other shapes are not covered for this clause",
        "exactly 0.0 C and a negative temperature are grid points, starts (Tinput and Thot) and path members wherever the material's stated range contains them (or it states none), for 3 of the 12 shapes, the linked pin cells and the tiny-step clause",
        "link chains: one 4-component Circle family (lengths 1-3), links established in all 24 orders by resolveLinkedDims and by setLink, then all paths of bounded length over {temperature of clad/liner, cold and hot setDimension on each chain member}",
        "one valid dimension set per shape class (scaled by a seed-dependent constant); path length bounded",
        "a material that defines no expansion makes every hot-dimension query raise RuntimeError when T != Tinput: counted as refused",
    ]
