"""C20 - XS groups partition the blocks; representative blocks are true averages.

Bounded-exhaustive exploration on the real ``crossSectionGroupManager`` code, three families:

``labels``  all 52 one-letter and 2704 two-letter cross-section type labels through
            getXSTypeNumberFromLabel / getXSTypeLabelFromNumber and through the linked block
            parameters xsType <-> xsTypeNum (identity, pairwise distinct numbers); the 52
            environment-group letters through envGroup <-> envGroupNum.
``coll``    block collections: every member set of 1-3 *real* blocks taken from a generated
            third-core hex reactor (2 compositions x 2 temperatures x 2 heights, fuel / blanket
            (heavy metal, not eligible under [fuel]) / plenum, centre block with symmetry factor 3)
            x burn-ups x weighting-parameter (flux) values, each with every representation option,
            valid-block-type filter and the duplicated / weight-rescaled variants.
``mgr``     CrossSectionGroupManager on generated cores: xs-type assignments over {A,B} (and a
            two-letter type), burn-up patterns, burn-up / temperature group bounds, representation
            and block-type exclusion settings.

Every oracle below is computed from component-level primitives (number densities, volumes, areas,
masses, temperatures) and block parameters (percentBu, flux, massHmBOL, height) with plain Python
arithmetic; eligibility, symmetry factors and component matching are taken from the *case data*
(kind names), never from the code under test.
"""
import itertools
import math

from mcverif import core

PROPERTY = "C20"
LEVEL = "exploration"
MOD = "mcverif.checks.c20"

RTOL = 1e-9  # a handful of multiply-adds on O(1e-2) densities / O(1e3) temperatures
TRACE = 1e-50  # armi.utils.units.TRACE_NUMBER_DENSITY (documented constant)

UPPER = "ABCDEFGHIJKLMNOPQRSTUVWXYZ"
LOWER = "abcdefghijklmnopqrstuvwxyz"
LETTERS = UPPER + LOWER


def _close(a, b, rtol=RTOL, atol=1e-30):
    return abs(a - b) <= rtol * max(abs(a), abs(b)) + atol


def _fsum(xs):
    return math.fsum(xs)


# =============================================================================================
# labels


def _label_class(lab):
    """Input class of a label (goes into the violation key: stable, mechanism-level)."""
    if len(lab) == 1:
        return "one-letter-upper" if lab in UPPER else "one-letter-lower"
    return "two-letter-first-" + ("lower-d-to-z" if lab[0] in LOWER[3:] else ("lower-a-to-c" if lab[0] in LOWER else "upper"))


def all_labels():
    return list(LETTERS) + [a + b for a in LETTERS for b in LETTERS]


def _eval_labels(case):
    """case: {"kind": "labels", "labels": [...]|None}.  Returns (viols, nev, numbers)."""
    from armi.physics.neutronics import crossSectionGroupManager as X
    from armi.reactor import blocks

    labs = case.get("labels") or all_labels()
    vs = []
    numbers = {}
    b1 = blocks.HexBlock("lab1")
    b2 = blocks.HexBlock("lab2")
    for lab in labs:
        cls = _label_class(lab)
        try:
            n = X.getXSTypeNumberFromLabel(lab)
        except Exception as e:
            vs.append(core.viol("c20/label-to-number-raises/" + cls, "getXSTypeNumberFromLabel(%r) raises %r" % (lab, e), {"kind": "labels", "labels": [lab]}))
            continue
        if not isinstance(n, int) or isinstance(n, bool):
            vs.append(core.viol("c20/label-number-type/" + cls, "getXSTypeNumberFromLabel(%r) = %r is not an int" % (lab, n), {"kind": "labels", "labels": [lab]}))
            continue
        # independent statement of the encoding: concatenated decimal character codes
        want = int("".join("%02d" % ord(ch) for ch in lab))
        if n != want:
            vs.append(core.viol("c20/label-number-value/" + cls, "getXSTypeNumberFromLabel(%r) = %r, documented encoding gives %r" % (lab, n, want), {"kind": "labels", "labels": [lab]}))
        if n in numbers and numbers[n] != lab:
            other = numbers[n]
            vs.append(core.viol("c20/label-number-collision/" + cls, "labels %r and %r share the number %r" % (other, lab, n), {"kind": "labels", "labels": [other, lab]}))
        numbers[n] = lab
        try:
            back = X.getXSTypeLabelFromNumber(n)
        except Exception as e:
            back = "raises %s" % type(e).__name__
        if back != lab:
            vs.append(core.viol("c20/label-roundtrip/" + cls, "label %r -> number %r -> %r (expected the label back)" % (lab, n, back), {"kind": "labels", "labels": [lab]}))
        # the same conversion as the blocks use it (linked parameters, this is what a DB load does)
        try:
            b1.p.xsType = lab
            n1 = b1.p.xsTypeNum
            b2.p.xsTypeNum = n1
            back2 = b2.p.xsType
        except Exception as e:
            n1 = "?"
            back2 = "raises %s" % type(e).__name__
        if back2 != lab and back == lab:
            vs.append(core.viol("c20/label-roundtrip-block-params/" + cls, "b.p.xsType=%r gives xsTypeNum=%r; assigning that xsTypeNum to another block gives xsType=%r" % (lab, n1, back2), {"kind": "labels", "labels": [lab]}))
    return vs, len(labs), numbers


def _eval_envletters(case):
    """The 52 environment-group letters <-> numbers 0..51 through the linked block parameters."""
    from armi.reactor import blocks

    vs = []
    b1 = blocks.HexBlock("env1")
    b2 = blocks.HexBlock("env2")
    seen = {}
    for n in range(52):
        want = LETTERS[n]
        try:
            b1.p.envGroupNum = n
            got = b1.p.envGroup
            b2.p.envGroup = got
            back = b2.p.envGroupNum
        except Exception as e:
            got, back = "raises %s" % type(e).__name__, None
        if got != want or back != n:
            vs.append(core.viol("c20/envgroup-letter-roundtrip", "envGroupNum=%d -> envGroup=%r (expected %r) -> envGroupNum=%r" % (n, got, want, back), {"kind": "envletters"}))
        if got in seen:
            vs.append(core.viol("c20/envgroup-letter-collision", "environment group numbers %d and %d share the letter %r" % (seen[got], n, got), {"kind": "envletters"}))
        seen[got] = n
    return vs, 52, 52


# =============================================================================================
# the block pool: one generated reactor whose blocks are the members of the collections

COMPS = {"IC": (0.11, 0.06), "OC": (0.2, 0.1)}
TEMPS = (600, 400)
HEIGHTS = (25.0, 20.0)
# block design names (-> block type, flags): T=600 designs are plain, T=400 ones carry "inner"
TYPE_NAME = {("fuel", 600): "fuel", ("fuel", 400): "inner fuel", ("blanket", 600): "blanket", ("blanket", 400): "inner blanket", ("plenum", 0): "plenum"}
POOL_CELLS = [(0, 0), (1, 0), (0, 1), (2, 0)]  # centre (symmetry factor 3 in a third core) + 3 others
N_OTHER = len(POOL_CELLS) - 1


def _fuel_design(T):
    from mcverif import build

    b = build.fuel_block()
    for c in b["components"]:
        if c["name"] == "fuel":
            c["Thot"] = float(T)
        if c["name"] == "clad":
            c["Thot"] = float(T - 130)
    return b


def _pool_layout():
    """[(base kind, design name, height, U235, ZR)] in axial order; base kind -> axial index."""
    rows = []
    for comp in ("IC", "OC"):
        for T in TEMPS:
            for h in HEIGHTS:
                rows.append(("%s%dh%d" % (comp, T, h), TYPE_NAME[("fuel", T)], h, COMPS[comp][0], COMPS[comp][1]))
    rows.append(("BKIC600h25", TYPE_NAME[("blanket", 600)], 25.0, COMPS["IC"][0], COMPS["IC"][1]))
    rows.append(("BKOC400h20", TYPE_NAME[("blanket", 400)], 20.0, COMPS["OC"][0], COMPS["OC"][1]))
    rows.append(("PL", "plenum", 30.0, "", ""))
    return rows


def pool_spec():
    from mcverif import build

    rows = _pool_layout()
    blocks = {}
    for T in TEMPS:
        blocks[TYPE_NAME[("fuel", T)]] = _fuel_design(T)
        blocks[TYPE_NAME[("blanket", T)]] = _fuel_design(T)
    blocks["plenum"] = build.plenum_block()
    spec = build.hex_spec(rings=3, cells=POOL_CELLS, two_designs=False, sfp=False)
    spec["blocks"] = blocks
    spec["assemblies"] = {
        "pool": build.assem(
            "IC",
            [r[1] for r in rows],
            [r[2] for r in rows],
            ["A"] * len(rows),
            {"U235_wt_frac": [r[3] for r in rows], "ZR_wt_frac": [r[4] for r in rows]},
        )
    }
    return spec


def kind_info(kind):
    """Pure-data description of a member kind: (base, centre?, type name, symmetry factor)."""
    centre = kind.endswith("c")
    base = kind[:-1] if centre else kind
    for r in _pool_layout():
        if r[0] == base:
            return {"base": base, "centre": centre, "type": r[1], "sf": 3.0 if centre else 1.0, "height": r[2]}
    raise KeyError(kind)


def eligible_by_type(typeName, filt):
    """A block type is eligible when it carries every flag word of one entry of the filter."""
    if not filt:
        return True
    words = set(typeName.split())
    return any(set(f.split()) <= words for f in filt)


def struct_class(typeName):
    return "gap-pin" if "plenum" in typeName else "fuel-pin"


class Pool:
    """The live reactor of one execution plus cached primitive data of its blocks."""

    def __init__(self):
        from mcverif import build

        self.r = build.reactor(pool_spec())
        self.axial = {r[0]: i for i, r in enumerate(_pool_layout())}
        self.assems = {}
        for a in self.r.core:
            i, j, _k = a.spatialLocator.getCompleteIndices()
            self.assems[(int(i), int(j))] = a
        self.nucs = list(self.r.blueprints.allNuclidesInProblem)
        self._x = {}

    def block(self, kind, occurrence):
        info = kind_info(kind)
        cell = POOL_CELLS[0] if info["centre"] else POOL_CELLS[1 + occurrence]
        return self.assems[cell][self.axial[info["base"]]]

    def assign(self, members):
        """members: [[kind, bu, flux], ...] -> list of distinct real blocks in that state."""
        occ = {}
        out = []
        for kind, bu, flux in members:
            k = occ.get(kind, 0)
            occ[kind] = k + 1
            b = self.block(kind, k)
            b.p.percentBu = float(bu)
            b.p.flux = float(flux)
            out.append(b)
        return out

    def reset(self, blocks):
        for b in blocks:
            b.p.percentBu = 0.0
            b.p.flux = 0.0

    def x(self, b):
        """Primitive data of a block (cached: the check verifies the blocks never change)."""
        k = id(b)
        if k not in self._x:
            self._x[k] = extract(b)
        return self._x[k]


def extract(b):
    """Component-level primitives of a block, read through public per-component queries."""
    comps = []
    for c in b:
        comps.append(
            {
                "name": c.name,
                "T": float(c.temperatureInC),
                "V": float(c.getVolume()),
                "A": float(c.getArea()),
                "m": float(c.getMass()),
                "nd": {k: float(v) for k, v in c.getNumberDensities().items()},
            }
        )
    return {"comps": comps, "Vsum": _fsum(c["V"] for c in comps), "height": float(b.getHeight()), "massHmBOL": float(b.p.massHmBOL), "name": b.getName()}


def block_density(x, nuc):
    """Homogenised number density of a block from its components (volume-weighted)."""
    return _fsum(c["nd"].get(nuc, 0.0) * c["V"] for c in x["comps"]) / x["Vsum"]


def nuc_temp_terms(x, nuc, sf):
    """(sum n v T, sum n v) of a block for one nuclide; zero-density entries count as trace."""
    nvt = nv = 0.0
    tn, tv = [], []
    for c in x["comps"]:
        if nuc in c["nd"]:
            n = c["nd"][nuc] or TRACE
            tn.append(n * c["V"] / sf * c["T"])
            tv.append(n * c["V"] / sf)
    nvt, nv = _fsum(tn), _fsum(tv)
    return nvt, nv


_FIELDS = {}
_SCALARS = (float, int, str, bool, type(None))


def _fields(p):
    k = type(p)
    if k not in _FIELDS:
        _FIELDS[k] = [(pd.name, pd.fieldName) for pd in p.paramDefs if pd.name != "volume"]
    return _FIELDS[k]


def fingerprint(b):
    """Cheap complete state snapshot of a block and its components: every parameter slot (mutable
    values copied), temperature, material class, structure; the cached component volume is
    observed through getVolume()."""
    import numpy as np

    out = []
    for o in (b, *b):
        p = o.p
        row = [type(o).__name__ + " " + str(o.name), ("parent", id(o.parent))]
        for name, fn in _fields(p):
            v = getattr(p, fn, None)
            if v.__class__ in _SCALARS:
                row.append((name, v if v == v else "nan"))
            elif isinstance(v, dict):
                row.append((name, tuple(v.items())))
            elif isinstance(v, np.ndarray):
                row.append((name, v.shape, v.tobytes()))
            else:
                row.append((name, repr(v)))
        if o is not b:
            row.append(("temperatureInC", o.temperatureInC))
            row.append(("getVolume", o.getVolume()))
            row.append(("material", type(o.material).__name__))
        else:
            row.append(("children", tuple(id(c) for c in o)))
            sl = o.spatialLocator
            row.append(("locator", None if sl is None else (id(sl.grid), tuple(int(i) for i in sl.indices))))
        out.append(row)
    return out


def fp_diff(a, b):
    d = []
    for ra, rb in zip(a, b):
        for xa, xb in zip(ra, rb):
            if xa != xb:
                d.append("%s: %s -> %s" % (ra[0], str(xa)[:90], str(xb)[:90]))
                if len(d) >= 4:
                    return d
    if len(a) != len(b):
        d.append("number of components %d -> %d" % (len(a) - 1, len(b) - 1))
    return d


# =============================================================================================
# collections: representation options and their reference model

REPS = {
    # name: (class name, averageByComponent, uses the flux as weighting parameter)
    "Median": ("MedianBlockCollection", False, False),
    "Average": ("AverageBlockCollection", False, False),
    "FluxWeightedAverage": ("FluxWeightedAverageBlockCollection", False, True),
    "AverageByComponent": ("AverageBlockCollection", True, False),
    "FluxWeightedAverageByComponent": ("FluxWeightedAverageBlockCollection", True, True),
    "ComponentAverage1DCylinder": ("CylindricalComponentsAverageBlockCollection", False, False),
}
SCALE = 2.5


def make_collection(pool, rep, filt, blocks):
    from armi.physics.neutronics import crossSectionGroupManager as X

    clsName, byComp, _ = REPS[rep]
    bc = getattr(X, clsName)(pool.nucs, validBlockTypes=list(filt) if filt else None, averageByComponent=byComp)
    bc.extend(blocks)
    return bc


def intensive_obs(b):
    """Observation of a block minus what depends on where it hangs (symmetry factor of the
    parent chain: block volume/mass, component mass), serial numbers and location."""
    from mcverif import observe

    o = observe.obs(b, families=("id", "params", "comp"))
    for ch in o["children"]:
        ch.get("comp", {}).pop("mass", None)
    return o


def observe_result(rep, repBlock, bc):
    """What the representative carries, extracted with the same primitive queries."""
    x = extract(repBlock)
    return {
        "x": x,
        "bu": float(repBlock.p.percentBu),
        "nT": {k: float(v) for k, v in bc.avgNucTemperatures.items()},
    }


def run_collection(pool, rep, filt, members, blocks):
    """Call the real code once. Returns ("ok", result, repBlock) | ("raises:<Exc>", msg, None)."""
    bc = make_collection(pool, rep, filt, blocks)
    try:
        rb = bc.createRepresentativeBlock()
    except (ValueError, IndexError, ZeroDivisionError, KeyError, TypeError, AttributeError, RuntimeError) as e:
        return "raises:" + type(e).__name__, str(e)[:160], None
    return "ok", observe_result(rep, rb, bc), rb


def reference(pool, rep, filt, members, blocks):
    """Reference model. Returns a dict describing the expected outcome."""
    _cls, byComp, usesFlux = REPS[rep]
    infos = [kind_info(m[0]) for m in members]
    elig = [i for i, inf in enumerate(infos) if eligible_by_type(inf["type"], filt)]
    ref = {"eligible": elig, "infos": infos}
    if not elig:
        ref["expect"] = "no-eligible"
        return ref
    xs = [pool.x(b) for b in blocks]
    fl = [float(m[2]) for m in members]
    bu = [float(m[1]) for m in members]
    if usesFlux and any(fl[i] for i in elig) and not all(fl[i] for i in elig):
        ref["expect"] = "mixed-weights"
        return ref
    vol = [xs[i]["Vsum"] / infos[i]["sf"] for i in range(len(members))]
    fac = [(fl[i] if (usesFlux and fl[i]) else 1.0) for i in range(len(members))]
    w = [fac[i] * vol[i] for i in range(len(members))]
    ref.update(expect="ok", w=w, xs=xs, bu=bu, fac=fac)
    wsum = _fsum(w[i] for i in elig)
    # nuclide temperatures (collection level): collection-weighted ratio of the members' block-level
    # terms, T = sum_b w_b (nvT)_b / sum_b w_b (nv)_b, with w_b the block weight of the density average
    if rep != "Median":
        nT = {}
        nTrange = {}
        for nuc in pool.nucs:
            terms = [nuc_temp_terms(xs[i], nuc, infos[i]["sf"]) for i in elig]
            num = _fsum(w[i] * t[0] for i, t in zip(elig, terms))
            den = _fsum(w[i] * t[1] for i, t in zip(elig, terms))
            nT[nuc] = num / den if den else 0.0
            ts = [c["T"] for i in elig for c in xs[i]["comps"] if nuc in c["nd"]]
            nTrange[nuc] = (min(ts), max(ts)) if ts else (0.0, 0.0)
        ref["nT"], ref["nTrange"] = nT, nTrange
        hm = [xs[i]["massHmBOL"] * fac[i] for i in range(len(members))]
        hsum = _fsum(hm[i] for i in elig)
        ref["bu_mean"] = _fsum(hm[i] * bu[i] for i in elig) / hsum if hsum else 0.0
        hmElig = [i for i in elig if hm[i] > 0]
        ref["bu_range"] = (min(bu[i] for i in hmElig), max(bu[i] for i in hmElig)) if hmElig else (0.0, 0.0)
    if rep == "Median":
        vals = sorted(bu[i] * w[i] for i in elig)
        n = len(vals)
        med = {vals[n // 2]} if n % 2 else {vals[n // 2 - 1], vals[n // 2]}
        ref["median_members"] = [i for i in elig if any(bu[i] * w[i] == v for v in med)]
    elif rep == "ComponentAverage1DCylinder":
        ref["same_struct"] = len({struct_class(infos[i]["type"]) for i in elig}) == 1
        names = [c["name"] for c in xs[elig[0]]["comps"]]
        cn = {}
        for name in names:
            cs = []
            for i in elig:
                m = [c for c in xs[i]["comps"] if c["name"] == name]
                cs.append(m[0] if m else None)
            if any(c is None for c in cs):
                continue
            nset = sorted(set().union(*[set(c["nd"]) for c in cs]))
            wa = [w[i] * c["A"] for i, c in zip(elig, cs)]
            tot = _fsum(wa)
            cn[name] = {nuc: ((_fsum(a * c["nd"].get(nuc, 0.0) for a, c in zip(wa, cs)) / tot) if tot > 0 else 0.0, min(c["nd"].get(nuc, 0.0) for c in cs), max(c["nd"].get(nuc, 0.0) for c in cs)) for nuc in nset}
        ref["cn"] = cn
    else:
        names = [[c["name"] for c in xs[i]["comps"]] for i in elig]
        similar = all(sorted(n) == sorted(names[0]) for n in names)
        if byComp and similar:
            ref["mode"] = "component"
            cn, cT = {}, {}
            for name in names[0]:
                cs = [[c for c in xs[i]["comps"] if c["name"] == name][0] for i in elig]
                cn[name] = {nuc: (_fsum(w[i] * c["nd"].get(nuc, 0.0) for i, c in zip(elig, cs)) / wsum, min(c["nd"].get(nuc, 0.0) for c in cs), max(c["nd"].get(nuc, 0.0) for c in cs)) for nuc in pool.nucs}
                # block weight with the volume taken out (the component mass carries it) x mass
                Tm = []
                for wt in ([fac[i] for i in elig], [w[i] / xs[i]["height"] for i in elig]):
                    mt = _fsum(a * c["m"] for a, c in zip(wt, cs))
                    if mt == 0.0:
                        Tm.append(_fsum(c["T"] for c in cs) / len(cs))  # massless (gap): plain mean, as documented
                    else:
                        Tm.append(_fsum(a * c["m"] * c["T"] for a, c in zip(wt, cs)) / mt)
                # Tm[1]: height as the volume proxy leaves the symmetry factor in (diagnosis only)
                cT[name] = (Tm[0], min(c["T"] for c in cs), max(c["T"] for c in cs), Tm[1])
            ref["cn"], ref["cT"] = cn, cT
        else:
            ref["mode"] = "block"
            bn = {}
            for nuc in pool.nucs:
                vals = [block_density(xs[i], nuc) for i in elig]
                bn[nuc] = (_fsum(w[i] * v for i, v in zip(elig, vals)) / wsum, min(vals), max(vals))
            ref["bn"] = bn
    return ref


def compare(pool, rep, filt, members, blocks, ref, status, res, rb, case):
    """Oracle: the outcome of the real call against the reference model."""
    vs = []

    def bad(key, msg):
        vs.append(core.viol("c20/" + key, "%s | members=%s rep=%s filter=%s variant=%s" % (msg, case["members"], rep, filt, case.get("variant", "base")), case))

    tag = {"Median": "median", "ComponentAverage1DCylinder": "cyl"}.get(rep, "avg")
    if ref["expect"] == "mixed-weights":
        if status != "raises:ValueError":
            bad("mixed-weights-accepted", "zero and non-zero weighting factors among the eligible members: expected ValueError, got %s" % status)
        return vs
    if status != "ok":
        if rep == "ComponentAverage1DCylinder" and not ref["same_struct"] and status == "raises:ValueError":
            return vs  # documented refusal: geometrically different blocks cannot be homogenised
        bad(tag + "-raises", "createRepresentativeBlock refused a valid collection: %s %s" % (status, res))
        return vs
    elig = ref["eligible"]
    xs, w, bu = ref["xs"], ref["w"], ref["bu"]
    x = res["x"]
    # ---- nuclide temperatures
    if rep == "Median":
        okm = []
        for i in ref["median_members"]:
            nT = {}
            for nuc in pool.nucs:
                a, b_ = nuc_temp_terms(xs[i], nuc, ref["infos"][i]["sf"])
                nT[nuc] = a / b_ if b_ else 0.0
            if all(_close(res["nT"].get(nuc, float("nan")), nT[nuc]) for nuc in pool.nucs):
                okm.append(i)
        if not okm:
            bad("median-nuclide-temperature", "avgNucTemperatures are not the nuclide temperatures of a member holding the median weighted burnup (candidates %s), e.g. U238: %r" % (ref["median_members"], res["nT"].get("U238")))
        # the representative is a copy of such a member
        o = intensive_obs(rb)
        from mcverif import observe

        match = [i for i in ref["median_members"] if not observe.diff(intensive_obs(blocks[i]), o, limit=1)]
        if not match:
            whichElig = [i for i in elig if not observe.diff(intensive_obs(blocks[i]), o, limit=1)]
            if whichElig:
                bad("median-wrong-member", "representative is a copy of member %s whose weighted burnup %r is not the median of %s" % (whichElig, [bu[i] * w[i] for i in whichElig], sorted(bu[i] * w[i] for i in elig)))
            else:
                anyM = [i for i in range(len(blocks)) if not observe.diff(intensive_obs(blocks[i]), o, limit=1)]
                if anyM:
                    bad("median-ineligible-member", "representative is a copy of member %s which is not eligible under the filter" % anyM)
                else:
                    d = observe.diff(intensive_obs(blocks[ref["median_members"][0]]), o, limit=3)
                    bad("median-not-a-copy", "representative is not an observation-equal copy of any member: %s" % d)
        elif okm and not set(match) & set(okm):
            bad("median-nuclide-temperature", "nuclide temperatures come from member %s but the representative copies member %s" % (okm, match))
        return vs
    for nuc in pool.nucs:
        got = res["nT"].get(nuc)
        want = ref["nT"][nuc]
        lo, hi = ref["nTrange"][nuc]
        if got is None or not _close(got, want):
            bad(tag + "-nuclide-temperature-mean", "avg temperature of %s = %r, block-weighted ratio of the eligible members' n*v*T and n*v terms = %r" % (nuc, got, want))
            break
    for nuc in pool.nucs:
        got = res["nT"].get(nuc)
        lo, hi = ref["nTrange"][nuc]
        if got is not None and not (lo - RTOL * abs(lo) - 1e-9 <= got <= hi + RTOL * abs(hi) + 1e-9):
            bad(tag + "-nuclide-temperature-range", "avg temperature of %s = %r outside [%r, %r] of the eligible members' components" % (nuc, got, lo, hi))
            break
    # ---- burn-up
    if not _close(res["bu"], ref["bu_mean"], atol=1e-12):
        lo, hi = ref["bu_range"]
        inel = [i for i in range(len(blocks)) if i not in elig and xs[i]["massHmBOL"] > 0 and bu[i] != ref["bu_mean"]]
        allm = list(range(len(blocks)))
        hm = [xs[i]["massHmBOL"] * ref["fac"][i] for i in allm]
        overall = _fsum(hm[i] * bu[i] for i in allm) / _fsum(hm) if _fsum(hm) else 0.0
        if inel and _close(res["bu"], overall, atol=1e-12):
            bad("burnup-includes-ineligible", "percentBu of the representative = %r is the heavy-metal-weighted mean over ALL members; over the eligible members %s it is %r" % (res["bu"], elig, ref["bu_mean"]))
        else:
            bad(tag + "-burnup-mean", "percentBu of the representative = %r, heavy-metal-weighted mean over the eligible members = %r (eligible burnups in [%r, %r])" % (res["bu"], ref["bu_mean"], lo, hi))
    # ---- densities
    if "bn" in ref:
        for nuc in pool.nucs:
            got = block_density(x, nuc)
            want, lo, hi = ref["bn"][nuc]
            if not _close(got, want):
                bad(tag + "-block-density-mean", "block density of %s = %r, weight-normalised mean over the eligible members = %r" % (nuc, got, want))
                break
        for nuc in pool.nucs:
            got = block_density(x, nuc)
            want, lo, hi = ref["bn"][nuc]
            if not (lo * (1 - RTOL) - 1e-30 <= got <= hi * (1 + RTOL) + 1e-30):
                bad(tag + "-block-density-range", "block density of %s = %r outside the members' [%r, %r]" % (nuc, got, lo, hi))
                break
    if "cn" in ref:
        got_by_name = {c["name"]: c for c in x["comps"]}
        done = False
        for name, nd in ref["cn"].items():
            c = got_by_name.get(name)
            if c is None:
                bad(tag + "-component-missing", "representative has no component %r" % name)
                break
            for nuc, (want, lo, hi) in nd.items():
                got = c["nd"].get(nuc, 0.0)
                if not _close(got, want):
                    bad(tag + "-component-density-mean", "density of %s in component %s = %r, weight-normalised mean over the matching components of the eligible members = %r" % (nuc, name, got, want))
                    done = True
                    break
                if not (lo * (1 - RTOL) - 1e-30 <= got <= hi * (1 + RTOL) + 1e-30):
                    bad(tag + "-component-density-range", "density of %s in component %s = %r outside [%r, %r]" % (nuc, name, got, lo, hi))
                    done = True
                    break
            if done:
                break
    if "cT" in ref:
        got_by_name = {c["name"]: c for c in x["comps"]}
        for name, (want, lo, hi, want2) in ref["cT"].items():
            c = got_by_name.get(name)
            if c is None:
                continue
            if not (lo - 1e-9 <= c["T"] <= hi + 1e-9):
                bad(tag + "-component-temperature-range", "temperature of component %s = %r outside the members' [%r, %r]" % (name, c["T"], lo, hi))
                break
            if not _close(c["T"], want):
                if _close(c["T"], want2):
                    bad("component-temperature-symmetry-factor-twice", "temperature of component %s = %r; weighting-parameter x component-mass weighted mean = %r; the result equals the mean in which the symmetry factor of a member enters twice (block weight / height x symmetry-reduced mass: %r)" % (name, c["T"], want, want2))
                else:
                    bad(tag + "-component-temperature-mean", "temperature of component %s = %r, weighting-parameter x component-mass weighted mean = %r" % (name, c["T"], want))
                break
    return vs


def result_vector(res):
    """Flat numeric view of a result for the metamorphic (duplication / rescaling) comparison."""
    out = {"bu": res["bu"]}
    for k, v in res["nT"].items():
        out["nT:" + k] = v
    for c in res["x"]["comps"]:
        out["T:" + c["name"]] = c["T"]
        for nuc, v in c["nd"].items():
            out["n:%s:%s" % (c["name"], nuc)] = v
    return out


VARIANTS = ("base", "dup", "scale")


def variants_for(rep):
    """Rescaling the weighting parameter only means something where it is used (the others get
    rotating flux patterns instead, which must not matter at all)."""
    return VARIANTS if REPS[rep][2] else ("base", "dup")


def eval_combo(pool, members, rep, filt, variants, counters=None, outcomes=None):
    """One member set x one representation x one filter, all requested variants.
    Returns (violations, number of real createRepresentativeBlock calls, number non-trivial)."""
    vs = []
    nev = nnt = 0
    base_vec = None
    base_status = None
    for variant in variants:
        mem = [list(m) for m in members]
        if variant == "scale":
            mem = [[m[0], m[1], m[2] * SCALE] for m in mem]
        blocks = pool.assign(mem)
        coll_blocks = blocks * 2 if variant == "dup" else blocks
        coll_mem = mem * 2 if variant == "dup" else mem
        case = {"kind": "coll", "members": [list(m) for m in members], "rep": rep, "filter": filt, "variant": variant}
        # the reference model sees the collection as given (duplicates are members too)
        refm = reference(pool, rep, filt, coll_mem, coll_blocks)
        if refm["expect"] == "no-eligible":
            if counters is not None:
                counters["skipped_no_eligible_member"] = counters.get("skipped_no_eligible_member", 0) + 1
            pool.reset(blocks)
            continue
        before = [fingerprint(b) for b in blocks]
        status, res, rb = run_collection(pool, rep, filt, coll_mem, coll_blocks)
        after = [fingerprint(b) for b in blocks]
        nev += 1
        if len({tuple(mem[i]) for i in refm["eligible"] if i < len(mem)}) >= 2:
            nnt += 1  # at least two eligible members in different states
        if counters is not None:
            k = "outcome_%s_%s" % (rep, status if status != "ok" else "ok")
            counters[k] = counters.get(k, 0) + 1
            if refm["expect"] == "mixed-weights":
                counters["mixed_weight_collections"] = counters.get("mixed_weight_collections", 0) + 1
        for i, (fa, fb) in enumerate(zip(before, after)):
            if fa != fb:
                vs.append(core.viol("c20/members-changed/" + ("raise" if status != "ok" else "ok"), "createRepresentativeBlock (%s, filter %s, %s) changed member %d %s: %s" % (rep, filt, status, i, mem[i], fp_diff(fa, fb)), case))
                pool._x.pop(id(blocks[i]), None)
        vs += compare(pool, rep, filt, coll_mem, coll_blocks, refm, status, res, rb, case)
        if status == "ok":
            if outcomes is not None:
                outcomes.add(core.jhash(sorted((k, "%.9e" % v) for k, v in result_vector(res).items())))
            vec = result_vector(res) if rep != "Median" else {"bu": res["bu"], **{"nT:" + k: v for k, v in res["nT"].items()}}
            if any("-burnup-" in v["key"] for v in vs):
                vec.pop("bu", None)  # already reported by the exact oracle; same mechanism
            if variant == "base":
                base_vec, base_status = vec, status
            elif base_vec is not None:
                worst = None
                for k, v in base_vec.items():
                    if k == "bu" and "bu" not in vec:
                        continue
                    v2 = vec.get(k)
                    if v2 is None or not _close(v, v2, rtol=1e-8, atol=1e-12 if k == "bu" else 1e-25):
                        worst = (k, v, v2)
                        break
                if worst:
                    what = "duplicating every member" if variant == "dup" else "multiplying every weighting-parameter value by %s" % SCALE
                    vs.append(core.viol("c20/%s-invariance/%s" % (variant, {"Median": "median", "ComponentAverage1DCylinder": "cyl"}.get(rep, "avg")), "%s changes the representative: %s %r -> %r | members=%s rep=%s filter=%s" % (what, worst[0], worst[1], worst[2], members, rep, filt), {"kind": "coll", "members": [list(m) for m in members], "rep": rep, "filter": filt, "variant": "all"}))
        elif variant == "base":
            base_status = status
        pool.reset(blocks)
    return vs, nev, nnt


def _eval_coll(case):
    pool = Pool()
    variants = variants_for(case["rep"]) if case.get("variant", "all") == "all" else (("base", case["variant"]) if case["variant"] != "base" else ("base",))
    vs, _n, _t = eval_combo(pool, [list(m) for m in case["members"]], case["rep"], case["filter"], variants)
    return vs


def _eval_chunk(item):
    """Worker: one reactor build, many member sets. item = {"sets": [[members, reps], ...], "filters": [...]}"""
    from mcverif import observe

    pool = Pool()
    d0 = observe.digest(observe.obs(pool.r, rank=True))
    vs, nev, nnt = [], 0, 0
    counters = {}
    outcomes = set()
    for members, reps in item["sets"]:
        for rep in reps:
            for filt in item["filters"]:
                v, n, t = eval_combo(pool, members, rep, filt, variants_for(rep), counters, outcomes)
                vs += v
                nev += n
                nnt += t
    d1 = observe.digest(observe.obs(pool.r, rank=True))
    if d0 != d1 and not any(v["key"].startswith("c20/members-changed") for v in vs):
        vs.append(core.viol("c20/core-changed-by-collections", "the reactor's observation differs after building representatives of %d member sets (members themselves unchanged)" % len(item["sets"]), {"kind": "chunk", "item": item}))
    # keep at most a few violations per key from one chunk
    kept, per = [], {}
    for v in vs:
        per[v["key"]] = per.get(v["key"], 0) + 1
        if per[v["key"]] <= 3:
            kept.append(v)
    return kept, nev, nnt, counters, sorted(outcomes), per


def _eval_chunk_case(case):
    return _eval_chunk(case["item"])[0]


# ---------------------------------------------------------------------------------------------
# enumeration of the member sets

BURNUPS = (0.0, 5.0, 10.0)
FLUXES = (0.0, 1e14, 3e14)
KINDS_QUICK = ["IC600h25c", "IC600h25", "IC400h25", "OC400h20", "BKIC600h25", "PL"]
KINDS_THOROUGH = [r[0] + s for r in _pool_layout() for s in ("", "c")]
NONFLUX_REPS = ["Median", "Average", "AverageByComponent", "ComponentAverage1DCylinder"]
FLUX_REPS = ["FluxWeightedAverage", "FluxWeightedAverageByComponent"]
# reduced (burnup, flux) alphabet of the size-3 sets of the flux-weighted options
BF3 = [(0.0, 0.0), (5.0, 1e14), (10.0, 3e14), (10.0, 0.0), (0.0, 3e14)]


def _avail(kind):
    return 1 if kind.endswith("c") else N_OTHER


def _msets(alphabet, n):
    """All multisets of size n over ``alphabet`` ([kind, ...] tuples) honouring the pool size."""
    for combo in itertools.combinations_with_replacement(alphabet, n):
        cnt = {}
        ok = True
        for m in combo:
            cnt[m[0]] = cnt.get(m[0], 0) + 1
            if cnt[m[0]] > _avail(m[0]):
                ok = False
                break
        if ok:
            yield combo


def member_sets(ctx):
    """[(members, reps)] - the bounded space, in one place."""
    kinds = KINDS_QUICK if ctx.quick else KINDS_THOROUGH
    kinds3 = kinds if ctx.quick else KINDS_QUICK + ["OC600h20c", "BKOC400h20"]
    out = []
    # options that ignore the weighting parameter: (kind, burnup) alphabet; the (irrelevant)
    # flux values rotate deterministically through all patterns, mixed ones included
    k = 0
    for n in (1, 2, 3):
        alpha = [(kd, bu) for kd in (kinds if n < 3 else kinds3) for bu in BURNUPS]
        for combo in _msets(alpha, n):
            members = [[m[0], m[1], FLUXES[(k + 2 * i) % 3]] for i, m in enumerate(combo)]
            k += 1
            out.append((members, NONFLUX_REPS))
    # flux-weighted options: full (kind, burnup, flux) alphabet for 1-2 members, reduced for 3
    for n in (1, 2):
        alpha = [(kd, bu, fl) for kd in kinds for bu in BURNUPS for fl in FLUXES]
        for combo in _msets(alpha, n):
            out.append(([list(m) for m in combo], FLUX_REPS))
    alpha = [(kd, bu, fl) for kd in kinds3 for (bu, fl) in (BF3 if ctx.quick else BF3 + [(5.0, 0.0), (5.0, 3e14)])]
    for combo in _msets(alpha, 3):
        out.append(([list(m) for m in combo], FLUX_REPS[:1] if ctx.quick else FLUX_REPS))
    return out


FILTERS_QUICK = [None, ["fuel"]]
FILTERS_THOROUGH = [None, ["fuel"], ["inner fuel"]]


# =============================================================================================
# manager level


def mgr_spec(case):
    """Small third-core hex reactor: 3 assemblies (centre + 2) x [fuel, fuel, plenum]; the
    xs types, fuel temperatures and (later) burn-ups come from the case."""
    from mcverif import build

    spec = build.hex_spec(rings=2, nblocks=3, sfp=False)
    spec["blocks"] = {"fuel": _fuel_design(600), "inner fuel": _fuel_design(400), "plenum": build.plenum_block()}
    for name, xs, designs in (("igniter fuel", case["xs"][0], case["designs"][0]), ("outer fuel", case["xs"][1], case["designs"][1])):
        a = spec["assemblies"][name]
        a["xs"] = list(xs)
        a["blocks"] = list(designs)
    return spec


def env_letter(n):
    return LETTERS[n]


def _eval_mgr(case):
    """case: {"kind":"mgr","xs":[[..3],[..3]],"designs":[[..3],[..3]],"bu":[9 numbers],"flux":[9],
    "buGroups":[...],"tempGroups":[...],"rep":..., "allTypes":bool}"""
    from armi.physics.neutronics import crossSectionGroupManager as X
    from mcverif import build, observe

    vs = []

    def bad(key, msg):
        vs.append(core.viol("c20/mgr-" + key, "%s | case=%s" % (msg, {k: v for k, v in case.items() if k != "kind"}), case))

    # the manager gets a settings object of its own (nothing shared with other executions)
    cs = _fresh_cs({"rep": case["rep"], "allTypes": case["allTypes"], "bu": case["buGroups"], "temp": case["tempGroups"]}, {})
    r = build.reactor(mgr_spec(case))
    blocks = r.core.getBlocks()
    blocks.sort(key=lambda b: (tuple(int(v) for v in b.parent.spatialLocator.getCompleteIndices()), int(b.spatialLocator.k)))
    for b, bu, fl in zip(blocks, case["bu"], case["flux"]):
        if b.p.massHmBOL > 0:
            b.p.percentBu = float(bu)
        b.p.flux = float(fl)
    mgr = X.CrossSectionGroupManager(r, cs)
    mgr.interactBOL()
    nucs = list(r.blueprints.allNuclidesInProblem)
    xsd = {id(b): extract(b) for b in blocks}
    sfs = {id(b): (3.0 if tuple(int(v) for v in b.parent.spatialLocator.getCompleteIndices())[:2] == (0, 0) else 1.0) for b in blocks}
    # ---- expected key of every block, recomputed from the bounds
    buB = list(case["buGroups"]) + [float("inf")]
    tB = list(case["tempGroups"]) + [float("inf")]
    want = {}
    envBefore = {id(b): b.p.envGroup for b in blocks}
    typ = {id(b): b.p.xsType for b in blocks}
    for b in blocks:
        if len(buB) == 1 and len(tB) == 1:
            env = envBefore[id(b)]
        else:
            bi = [i for i, u in enumerate(buB) if float(b.p.percentBu) <= u][0]
            nvt, nv = nuc_temp_terms(xsd[id(b)], "U238", sfs[id(b)])
            T = nvt / nv if nv > 0 else 0.0
            ti = [i for i, u in enumerate(tB) if T <= u][0] if len(tB) > 1 else 0
            env = env_letter(ti * len(buB) + bi)
        want[id(b)] = typ[id(b)] + env if len(typ[id(b)]) == 1 else typ[id(b)]
    obs0 = {id(b): observe.obs(b, exclude=("envGroup", "envGroupNum")) for b in blocks}
    try:
        groups = mgr.makeCrossSectionGroups()
    except Exception as e:
        bad("grouping-raises", "makeCrossSectionGroups raises %r" % e)
        return vs, 1
    core_ids = {id(b) for b in blocks}
    where = {}
    for key, coll in groups.items():
        for m in coll:
            if id(m) in core_ids:
                where.setdefault(id(m), []).append(key)
    for b in blocks:
        keys = where.get(id(b), [])
        if len(keys) != 1:
            bad("partition", "block %s (xs %s, bu %s) is in %d groups %s" % (b.getName(), typ[id(b)], b.p.percentBu, len(keys), keys))
        elif keys[0] != want[id(b)]:
            bad("group-key", "block %s (xs type %s, burnup %s, fuel T design %s) is in group %r; (xs type, env group) from the bounds bu%s/T%s gives %r" % (b.getName(), typ[id(b)], b.p.percentBu, b.getType(), keys[0], case["buGroups"], case["tempGroups"], want[id(b)]))
        if b.p.xsType != typ[id(b)]:
            bad("xstype-changed", "grouping changed the xs type of %s: %r -> %r" % (b.getName(), typ[id(b)], b.p.xsType))
    if vs:
        return vs, 1  # everything below is keyed by the expected groups: consequences only
    # same partition when asked again
    try:
        groups2 = mgr.makeCrossSectionGroups()
        p1 = {k: sorted(id(m) for m in c if id(m) in core_ids) for k, c in groups.items()}
        p2 = {k: sorted(id(m) for m in c if id(m) in core_ids) for k, c in groups2.items()}
        if p1 != p2:
            bad("grouping-not-idempotent", "a second makeCrossSectionGroups gives a different partition")
    except Exception as e:
        bad("grouping-raises", "second makeCrossSectionGroups raises %r" % e)
    clsWant = REPS[case["rep"]][0]
    for key, coll in groups.items():
        if type(coll).__name__ != clsWant:
            bad("collection-class", "group %s is a %s, setting asks for %s" % (key, type(coll).__name__, clsWant))
    # ---- representatives
    filt = None if case["allTypes"] else ["fuel"]
    usesFlux = REPS[case["rep"]][2]
    grp = {}
    for b in blocks:
        grp.setdefault(want[id(b)], []).append(b)
    # copies of blueprint blocks are added for suffixes "not yet represented" (documented); such a
    # copy must not end up inside a group of core blocks, whose representative it would then shape
    polluted = {}
    for key, coll in groups.items():
        foreign = [m for m in coll if id(m) not in core_ids]
        if foreign and len(foreign) < len(coll):
            polluted[key] = foreign
    if polluted:
        key = sorted(polluted)[0]
        bad(
            "blueprint-copies-join-core-group",
            "group %s of core blocks %s also holds %d copies of blueprint blocks (%s) that are not in the core; they take part in its representative"
            % (key, [m.getName() for m in groups[key] if id(m) in core_ids], len(polluted[key]), sorted({m.getType() for m in polluted[key]})),
        )
    mixed = False
    for key, ms in grp.items():
        el = [b for b in ms if eligible_by_type(b.getType(), filt)]
        fl = [float(b.p.flux) for b in el]
        if usesFlux and any(fl) and not all(fl):
            mixed = True
    try:
        mgr.createRepresentativeBlocks()
        status = "ok"
    except ValueError as e:
        status = "raises:ValueError"
        if not mixed and not (polluted and usesFlux):
            bad("representatives-raise", "createRepresentativeBlocks raises %r" % e)
    except Exception as e:
        status = "raises:" + type(e).__name__
        bad("representatives-raise", "createRepresentativeBlocks raises %r" % e)
    if status == "ok" and mixed:
        bad("mixed-weights-accepted", "a group mixes zero and non-zero flux among its eligible members, expected ValueError")
    # core unchanged except the documented environment-group fields
    for b in blocks:
        d = observe.diff(obs0[id(b)], observe.obs(b, exclude=("envGroup", "envGroupNum")), limit=3)
        if d:
            bad("core-changed", "createRepresentativeBlocks (%s) changed block %s: %s" % (status, b.getName(), d))
            break
    if status != "ok":
        return vs, 1
    reps = mgr.representativeBlocks
    wantKeys = sorted(k for k, ms in grp.items() if any(eligible_by_type(b.getType(), filt) for b in ms))
    extra = [k for k in reps if k not in wantKeys and (k in grp or k not in groups or any(id(m) in core_ids for m in groups[k]))]
    missing = [k for k in wantKeys if k not in reps]
    if extra or missing:
        bad("representative-keys", "representatives exist for %s, groups of core blocks with an eligible member are %s" % (sorted(reps.keys()), wantKeys))
    for key in wantKeys:
        if key not in reps or key in polluted:
            continue
        ms = grp[key]
        el = [b for b in ms if eligible_by_type(b.getType(), filt)]
        rb = reps[key]
        w = [xsd[id(b)]["Vsum"] / sfs[id(b)] * ((float(b.p.flux) if usesFlux and b.p.flux else 1.0)) for b in el]
        if case["rep"] == "Median":
            vals = sorted(float(b.p.percentBu) * wi for b, wi in zip(el, w))
            n = len(vals)
            med = {vals[n // 2]} if n % 2 else {vals[n // 2 - 1], vals[n // 2]}
            o = intensive_obs(rb)
            cands = [b for b, wi in zip(el, w) if float(b.p.percentBu) * wi in med]
            if not any(not observe.diff(intensive_obs(b), o, limit=1) for b in cands):
                bad("median", "representative of %s is not a copy of a member holding the median weighted burnup (%s)" % (key, [b.getName() for b in cands]))
        else:
            x = extract(rb)
            wsum = _fsum(w)
            for nuc in nucs:
                wantv = _fsum(wi * block_density(xsd[id(b)], nuc) for b, wi in zip(el, w)) / wsum
                if not _close(block_density(x, nuc), wantv):
                    bad("block-density-mean", "group %s: block density of %s = %r, weight-normalised mean over the eligible members %s = %r" % (key, nuc, block_density(x, nuc), [b.getName() for b in el], wantv))
                    break
            hm = [xsd[id(b)]["massHmBOL"] * ((float(b.p.flux) if usesFlux and b.p.flux else 1.0)) for b in el]
            wb = _fsum(h * float(b.p.percentBu) for h, b in zip(hm, el)) / _fsum(hm) if _fsum(hm) else 0.0
            if not _close(float(rb.p.percentBu), wb, atol=1e-12):
                bad("burnup-mean", "group %s: percentBu of the representative = %r, heavy-metal-weighted mean over the eligible members = %r" % (key, float(rb.p.percentBu), wb))
            for nuc in ("U238", "FE56", "NA23"):
                terms = [nuc_temp_terms(xsd[id(b)], nuc, sfs[id(b)]) for b in el]
                den = _fsum(wi * t[1] for wi, t in zip(w, terms))
                wantT = _fsum(wi * t[0] for wi, t in zip(w, terms)) / den if den else 0.0
                got = mgr.getNucTemperature(key, nuc)
                if got is None or not _close(got, wantT):
                    bad("nuclide-temperature-mean", "group %s: temperature of %s = %r, expected %r" % (key, nuc, None if got is None else float(got), wantT))
                    break
    return vs, 1


def mgr_cases(ctx):
    out = []
    xsPatterns = [
        (["A", "A", "A"], ["A", "A", "A"]),
        (["A", "A", "B"], ["B", "B", "B"]),
        (["A", "B", "A"], ["B", "A", "B"]),
        (["A", "B", "B"], ["A", "B", "A"]),
        (["B", "A", "A"], ["A", "A", "B"]),
    ]
    if not ctx.quick:
        xsPatterns = [(list(a), list(b)) for a in itertools.product("AB", repeat=3) for b in itertools.product("AB", repeat=3)]
    designPatterns = [(["fuel", "inner fuel", "plenum"], ["inner fuel", "fuel", "plenum"]), (["fuel", "fuel", "plenum"], ["fuel", "inner fuel", "plenum"])]
    buPatterns = [[0, 0, 0, 0, 0, 0, 0, 0, 0], [0, 5, 0, 10, 0, 0, 5, 10, 0], [10, 10, 0, 5, 5, 0, 0, 0, 0], [5, 0, 0, 5, 10, 0, 10, 5, 0]]
    if not ctx.quick:
        buPatterns += [[10, 5, 0, 0, 10, 0, 5, 0, 0], [10, 10, 0, 10, 10, 0, 10, 10, 0], [0, 10, 0, 0, 5, 0, 5, 5, 0]]
    fluxPatterns = [[0.0] * 9, [1e14, 3e14, 1e14, 2e14, 1e14, 3e14, 3e14, 1e14, 2e14], [1e14, 0.0, 0.0, 1e14, 1e14, 0.0, 1e14, 3e14, 0.0]]
    bounds = [([], []), ([5], []), ([], [500]), ([5], [500]), ([5, 10], [500])]
    if not ctx.quick:
        bounds += [([3, 7], []), ([5, 10], []), ([10], [450, 550])]
    k = 0
    for xs in xsPatterns:
        for des in designPatterns:
            for bu in buPatterns:
                for bg, tg in bounds:
                    for allTypes in (False, True):
                        # representation and flux pattern rotate through the combinations (all pairs
                        # of (rep, flux pattern) occur for every bounds setting over the xs patterns)
                        reps = ["Median", "Average", "FluxWeightedAverage"]
                        rep = reps[k % 3]
                        fl = fluxPatterns[(k // 3) % 3]
                        k += 1
                        out.append({"kind": "mgr", "xs": [list(xs[0]), list(xs[1])], "designs": [list(des[0]), list(des[1])], "bu": list(bu), "flux": list(fl), "buGroups": list(bg), "tempGroups": list(tg), "rep": rep, "allTypes": allTypes})
    # two-letter xs types are admitted when no environment groups are defined
    for rep in ("Median", "Average"):
        out.append({"kind": "mgr", "xs": [["AA", "zz", "AA"], ["Ad", "AA", "zz"]], "designs": [list(designPatterns[0][0]), list(designPatterns[0][1])], "bu": buPatterns[1], "flux": fluxPatterns[0], "buGroups": [], "tempGroups": [], "rep": rep, "allTypes": True})
    return out


def _eval_mgr_counted(case):
    vs, n = _eval_mgr(case)
    return vs[:6], n


# =============================================================================================
# manager re-use: short histories on the SAME settings / manager objects, differential oracle
# against a fresh settings + manager built from what is in effect

HIST_CORE = {"xs": [["A", "A", "B"], ["A", "B", "B"]], "designs": [["fuel", "inner fuel", "plenum"], ["inner fuel", "fuel", "plenum"]]}
HIST_BU = [0, 5, 0, 10, 0, 0, 5, 10, 0]
HIST_FLUX = [1e14, 3e14, 1e14, 2e14, 1e14, 3e14, 3e14, 1e14, 2e14]
HIST_BASE = {"rep": "Average", "allTypes": True, "bu": [5], "temp": []}
ENTRY_FULL = {"geometry": "0D", "blockRepresentation": "Median", "validBlockTypes": ["fuel"]}
ENTRY_INHERIT = {"geometry": "0D"}
HIST_INITS = {
    # settings in effect at the first use, explicit crossSectionControl entries
    "defaults-only": (dict(HIST_BASE), {}),
    "entry-inheriting": (dict(HIST_BASE), {"AA": ENTRY_INHERIT}),
    "median-fuel": ({"rep": "Median", "allTypes": False, "bu": [5], "temp": [500]}, {}),
}
HIST_OPS_QUICK = [
    ["rep", "Median"],
    ["rep", "FluxWeightedAverage"],
    ["excl"],  # toggle disableBlockTypeExclusionInXsGeneration
    ["bu", [2]],
    ["temp", [500]],
    ["entry", "AA"],  # toggle an explicit (fully specified) crossSectionControl entry
    ["newmgr"],  # a new manager on the same settings object (reads the group bounds)
    ["bol"],  # interactBOL (applies representation / block-type exclusion)
    ["use"],  # makeCrossSectionGroups + createRepresentativeBlocks, both compared with a fresh build
    ["blockbu", 1, 10.0],
    ["blockT", 0, 450.0],
]
HIST_OPS_THOROUGH = HIST_OPS_QUICK + [["rep", "Average"], ["bu", [5, 10]], ["temp", []], ["entry", "BA"], ["blockbu", 4, 0.0]]


def _fresh_cs(eff, entries):
    """A settings object that shares nothing with any other (Settings() deep-copies its defaults)."""
    from armi import settings as S
    from armi.physics.neutronics.crossSectionSettings import XSModelingOptions

    cs = S.Settings().modified(
        newSettings={"buGroups": list(eff["bu"]), "tempGroups": list(eff["temp"]), "xsBlockRepresentation": eff["rep"], "disableBlockTypeExclusionInXsGeneration": bool(eff["allTypes"]), "verbosity": "error", "branchVerbosity": "error"}
    )
    for xsID, kw in sorted(entries.items()):
        cs["crossSectionControl"][xsID] = XSModelingOptions(xsID, **{k: (list(v) if isinstance(v, list) else v) for k, v in kw.items()})
    return cs


def _snapshot(mgr, coreNames):
    """Partition, collection classes, candidates and representatives of one (re)grouping."""
    snap = {}
    try:
        groups = mgr.makeCrossSectionGroups()
    except Exception as e:
        return {"outcome": "grouping raises %s" % type(e).__name__}
    snap["partition"] = {k: sorted(m.getName() for m in c if m.getName() in coreNames) for k, c in groups.items()}
    snap["foreign"] = {k: sorted(m.getType() for m in c if m.getName() not in coreNames) for k, c in groups.items()}
    snap["class"] = {k: type(c).__name__ for k, c in groups.items()}
    snap["candidates"] = {k: sorted(m.getName() for m in c.getCandidateBlocks()) for k, c in groups.items()}
    try:
        mgr.createRepresentativeBlocks()
    except Exception as e:
        snap["outcome"] = "createRepresentativeBlocks raises %s" % type(e).__name__
        return snap
    snap["outcome"] = "ok"
    snap["reps"] = {k: intensive_obs(b) for k, b in mgr.representativeBlocks.items()}
    snap["nT"] = {k: {n: float(t) for n, t in v.items()} for k, v in mgr.avgNucTemperatures.items()}
    return snap


def _eval_hist(case):
    """case: {"kind": "hist", "init": name, "ops": [...]}. Returns (viols, number of compared uses)."""
    from armi.physics.neutronics import crossSectionGroupManager as X
    from armi.physics.neutronics.crossSectionSettings import XSModelingOptions, serializeXSSettings
    from mcverif import build, observe

    vs = []
    eff0, entries0 = HIST_INITS[case["init"]]
    cur = dict(eff0)  # what the settings object says now
    eff = dict(eff0)  # what is in effect (representation/exclusion: last interactBOL; bounds: manager construction)
    entries = {k: dict(v) for k, v in entries0.items()}  # consulted live by the manager
    r = build.reactor(mgr_spec(HIST_CORE))
    blocks = r.core.getBlocks()
    blocks.sort(key=lambda b: (tuple(int(v) for v in b.parent.spatialLocator.getCompleteIndices()), int(b.spatialLocator.k)))
    for b, bu, fl in zip(blocks, HIST_BU, HIST_FLUX):
        if b.p.massHmBOL > 0:
            b.p.percentBu = float(bu)
        b.p.flux = float(fl)
    coreNames = {b.getName() for b in blocks}
    cs = _fresh_cs(cur, entries)
    mgr = X.CrossSectionGroupManager(r, cs)
    mgr.interactBOL()
    nuse = 0

    def use(step):
        nonlocal nuse
        nuse += 1
        got = _snapshot(mgr, coreNames)
        # the reference is built from what the LIVE settings hold now: explicit entries with whatever
        # attributes they carry at this moment (setDefaults writes the defaults it fills in into the
        # entry, by design: an entry keeps them when the global default changes later), taken through
        # their public serialisation so that no hidden cache of the live object comes along
        live = serializeXSSettings(cs["crossSectionControl"])
        fresh = X.CrossSectionGroupManager(r, _fresh_cs(eff, live))
        fresh.interactBOL()
        want = _snapshot(fresh, coreNames)
        for what in ("outcome", "class", "candidates", "partition", "foreign", "reps", "nT"):
            a, b_ = got.get(what), want.get(what)
            if a == b_:
                continue
            if what in ("reps", "nT") and a is not None and b_ is not None and not observe.diff(a, b_, limit=1, rtol=1e-12):
                continue
            if isinstance(a, dict) and isinstance(b_, dict):
                ids = sorted(k for k in set(a) | set(b_) if a.get(k) != b_.get(k))
            else:
                ids = []
            xid = ids[0] if ids else "?"
            explicit = any(e[0] == xid[0] and (len(e) < 2 or len(xid) < 2 or e[1] <= xid[1]) for e in entries)
            det = observe.diff(a, b_, limit=2) if what in ("reps", "nT") else "%r, a fresh manager on fresh settings gives %r" % (a.get(xid) if isinstance(a, dict) else a, b_.get(xid) if isinstance(b_, dict) else b_)
            vs.append(
                core.viol(
                    "c20/reuse-differs-from-fresh/%s/%s" % ("explicit-entry" if explicit else "default-xsid", {"class": "collection-class", "reps": "representative", "nT": "nuclide-temperature"}.get(what, what)),
                    "after history %s on the same settings/manager (init %s; in effect: %s, entries %s), use #%d: %s of XS ID %s is %s" % (case["ops"][: step + 1], case["init"], eff, sorted(entries), nuse, what, xid, det),
                    {"kind": "hist", "init": case["init"], "ops": [list(o) for o in case["ops"][: step + 1]]},
                )
            )
            break

    use(-1)  # first use: everything is fresh anyway
    for step, op in enumerate(case["ops"]):
        k = op[0]
        if k == "rep":
            cur["rep"] = op[1]
            cs["xsBlockRepresentation"] = op[1]
        elif k == "excl":
            cur["allTypes"] = not cur["allTypes"]
            cs["disableBlockTypeExclusionInXsGeneration"] = cur["allTypes"]
        elif k == "bu":
            cur["bu"] = list(op[1])
            cs["buGroups"] = list(op[1])
        elif k == "temp":
            cur["temp"] = list(op[1])
            cs["tempGroups"] = list(op[1])
        elif k == "entry":
            if op[1] in entries:
                del entries[op[1]]
                del cs["crossSectionControl"][op[1]]
            else:
                entries[op[1]] = dict(ENTRY_FULL)
                cs["crossSectionControl"][op[1]] = XSModelingOptions(op[1], **{kk: (list(v) if isinstance(v, list) else v) for kk, v in ENTRY_FULL.items()})
        elif k == "newmgr":
            mgr = X.CrossSectionGroupManager(r, cs)
            eff["bu"], eff["temp"] = list(cur["bu"]), list(cur["temp"])
        elif k == "bol":
            mgr.interactBOL()
            eff["rep"], eff["allTypes"] = cur["rep"], cur["allTypes"]
        elif k == "blockbu":
            blocks[op[1]].p.percentBu = float(op[2])
        elif k == "blockT":
            for c in blocks[op[1]]:
                if c.name == "fuel":
                    c.setTemperature(float(op[2]))
        elif k == "use":
            use(step)
        else:
            raise ValueError(k)
    return vs, nuse


def _eval_hist_counted(case):
    vs, n = _eval_hist(case)
    return vs[:4], n


def hist_cases(ctx):
    """Every history of length <= depth that ends in a use (only a use observes anything)."""
    ops = HIST_OPS_QUICK if ctx.quick else HIST_OPS_THOROUGH
    depth = 3 if ctx.quick else 4
    out = []
    for init in HIST_INITS:
        for n in range(1, depth + 1):
            for pre in itertools.product(ops, repeat=n - 1):
                out.append({"kind": "hist", "init": init, "ops": [list(o) for o in pre] + [["use"]]})
    return out


# =============================================================================================
# collection re-use: short histories on ONE BlockCollection object (every list-mutating method
# the class inherits is part of its API), differential oracle against a fresh collection built
# from list(collection) and the current attributes

CH_BLOCKS = {
    # name: (kind, burnup, flux) - all fluxes positive: no mixed-weight refusals to begin with
    "m0": ("IC600h25c", 0.0, 1e14),
    "m1": ("OC400h20", 5.0, 3e14),
    "X": ("IC400h25", 10.0, 1e14),
    "Y": ("BKIC600h25", 5.0, 2e14),  # blanket: not eligible under [fuel]
    "Z": ("OC600h25", 10.0, 3e14),
}
CH_OPS_QUICK = [
    ["rep"],
    ["append", "X"],
    ["extend", ["X", "Y"]],
    ["iadd", ["Z"]],
    ["insert", 0, "Z"],
    ["remove", 0],
    ["pop"],
    ["flags", 0, "blanket"],  # a member's type flags change: eligibility under [fuel] changes
    ["bu", 1, 7.0],
    ["flux", 1, 2e14],
    ["T", 1, 500.0],
    ["wparam"],  # toggle the weightingParam attribute None <-> "flux"
    ["vtypes"],  # toggle the valid-representative-block-types attribute None <-> [fuel]
]
CH_OPS_THOROUGH = CH_OPS_QUICK + [["extend", ["Y"]], ["insert", 1, "X"], ["remove", 1], ["pop", 0], ["flags", 1, "blanket"], ["flux", 0, 0.0], ["bu", 0, 12.0], ["setitem", 0, "X"], ["delitem", 0], ["clear"]]
CH_REPS = ["Median", "Average", "AverageByComponent", "ComponentAverage1DCylinder", "FluxWeightedAverage"]


def _ch_outcome(bc, rep):
    """One createRepresentativeBlock on ``bc`` -> comparable description."""
    try:
        rb = bc.createRepresentativeBlock()
    except (ValueError, IndexError, ZeroDivisionError, KeyError, TypeError, AttributeError, RuntimeError) as e:
        return {"status": "raises:" + type(e).__name__}
    out = {"status": "ok", "name": rb.name, "vec": result_vector(observe_result(rep, rb, bc))}
    if rep == "Median":
        out["obs"] = intensive_obs(rb)
    return out


def _eval_chist(pool, case):
    """case: {"kind": "chist", "rep":..., "filter":..., "ops": [...]} -> (viols, number of compared requests)."""
    from armi.physics.neutronics import crossSectionGroupManager as X
    from armi.reactor.flags import Flags
    from mcverif import observe

    rep, filt = case["rep"], case["filter"]
    vs = []
    blk = {}
    for name, (kind, bu, fl) in CH_BLOCKS.items():
        b = pool.block(kind, 0)
        b.p.percentBu, b.p.flux = float(bu), float(fl)
        blk[name] = b
    saved_flags = {n: b.p.flags for n, b in blk.items()}
    saved_T = {}
    bc = make_collection(pool, rep, filt, [blk["m0"], blk["m1"]])
    nreq = 0

    def request(step):
        nonlocal nreq
        nreq += 1
        got = _ch_outcome(bc, rep)
        gotCand = sorted(b.getName() for b in bc.getCandidateBlocks())
        fresh = type(bc)(pool.nucs, validBlockTypes=None, averageByComponent=bc.averageByComponent)
        fresh._validRepresentativeBlockTypes = None if bc._validRepresentativeBlockTypes is None else list(bc._validRepresentativeBlockTypes)
        fresh.weightingParam = bc.weightingParam
        list.extend(fresh, list(bc))
        want = _ch_outcome(fresh, rep)
        wantCand = sorted(b.getName() for b in fresh.getCandidateBlocks())
        what = None
        if gotCand != wantCand:
            what, det = "candidates", "%s, a fresh collection of the current members %s gives %s" % (gotCand, [b.getName() for b in bc], wantCand)
        elif got["status"] != want["status"]:
            what, det = "outcome", "%s, fresh collection: %s" % (got["status"], want["status"])
        elif got["status"] == "ok":
            bad = [(k, v, want["vec"].get(k)) for k, v in got["vec"].items() if want["vec"].get(k) is None or not _close(v, want["vec"][k], rtol=1e-10, atol=1e-25)]
            if bad or set(got["vec"]) != set(want["vec"]) or got["name"] != want["name"]:
                what, det = "representative", "%s, fresh collection of the current members: %s" % ((bad[0] if bad else got["name"]), (want["name"]))
            elif rep == "Median":
                d = observe.diff(got["obs"], want["obs"], limit=2, rtol=1e-12)
                if d:
                    what, det = "representative", "median copy differs from the fresh collection's: %s" % d
        if what:
            vs.append(
                core.viol(
                    "c20/collection-reuse-differs-from-fresh/" + what,
                    "one %s collection (filter %s) first holding [m0, m1], request #%d after %s: %s is %s" % (rep, filt, nreq, case["ops"][: step + 1], what, det),
                    {"kind": "chist", "rep": rep, "filter": filt, "ops": [list(o) for o in case["ops"][: step + 1]]},
                )
            )

    try:
        request(-1)
        for step, op in enumerate(case["ops"]):
            k = op[0]
            if k == "rep":
                request(step)
            elif k == "append":
                bc.append(blk[op[1]])
            elif k == "extend":
                bc.extend([blk[n] for n in op[1]])
            elif k == "iadd":
                bc += [blk[n] for n in op[1]]
            elif k == "insert":
                bc.insert(op[1], blk[op[2]])
            elif k == "remove":
                if len(bc) > op[1]:
                    bc.remove(bc[op[1]])
            elif k == "pop":
                if len(bc):
                    bc.pop(*op[1:])
            elif k == "setitem":
                if len(bc) > op[1]:
                    bc[op[1]] = blk[op[2]]
            elif k == "delitem":
                if len(bc) > op[1]:
                    del bc[op[1]]
            elif k == "clear":
                bc.clear()
            elif k == "flags":
                if len(bc) > op[1]:
                    bc[op[1]].p.flags = Flags.fromString(op[2])
            elif k == "bu":
                if len(bc) > op[1]:
                    bc[op[1]].p.percentBu = float(op[2])
            elif k == "flux":
                if len(bc) > op[1]:
                    bc[op[1]].p.flux = float(op[2])
            elif k == "T":
                if len(bc) > op[1]:
                    for c in bc[op[1]]:
                        if c.name == "fuel":
                            saved_T.setdefault(id(c), (c, float(c.temperatureInC)))
                            c.setTemperature(float(op[2]))
            elif k == "wparam":
                bc.weightingParam = None if bc.weightingParam else "flux"
            elif k == "vtypes":
                bc._validRepresentativeBlockTypes = None if bc._validRepresentativeBlockTypes else [Flags.FUEL]
            else:
                raise ValueError(k)
    finally:
        for n, b in blk.items():
            b.p.flags = saved_flags[n]
            b.p.percentBu = 0.0
            b.p.flux = 0.0
            pool._x.pop(id(b), None)
        for c, T in saved_T.values():
            c.setTemperature(T)
    return vs, nreq


def _eval_chist_chunk(item):
    pool = Pool()
    vs, n, nh = [], 0, 0
    for case in item["cases"]:
        v, k = _eval_chist(pool, case)
        vs += v
        n += k
        nh += 1
    kept, per = [], {}
    for v in vs:
        per[v["key"]] = per.get(v["key"], 0) + 1
        if per[v["key"]] <= 2:
            kept.append(v)
    return kept, nh, n, per


def chist_cases(ctx):
    ops = CH_OPS_QUICK if ctx.quick else CH_OPS_THOROUGH
    depth = 3
    out = []
    for rep in CH_REPS:
        for filt in (None, ["fuel"]):
            for n in range(1, depth + 1):
                for pre in itertools.product(ops, repeat=n - 1):
                    out.append({"kind": "chist", "rep": rep, "filter": filt, "ops": [list(o) for o in pre] + [["rep"]]})
    return out


# =============================================================================================


def evaluate(case):
    k = case["kind"]
    if k == "labels":
        return _eval_labels(case)[0]
    if k == "envletters":
        return _eval_envletters(case)[0]
    if k == "coll":
        return _eval_coll(case)
    if k == "chunk":
        return _eval_chunk_case(case)
    if k == "mgr":
        return _eval_mgr(case)[0]
    if k == "hist":
        return _eval_hist(case)[0]
    if k == "chist":
        return _eval_chist(Pool(), case)[0]
    raise ValueError(k)


def run(ctx):
    # ---- labels (in-process: microseconds each)
    vs, nlab, numbers = _eval_labels({"kind": "labels"})
    ctx.add_violations(_cap(vs))
    ctx.count("labels_checked", nlab)
    ctx.count("label_numbers_distinct", len(numbers))
    vs, nenv, _ = _eval_envletters({"kind": "envletters"})
    ctx.add_violations(vs)
    ctx.count("env_letters_checked", nenv)
    # ---- collections
    sets = member_sets(ctx)
    filters = FILTERS_QUICK if ctx.quick else FILTERS_THOROUGH
    per = 60 if ctx.quick else 120
    items = [{"sets": [[m, r] for m, r in sets[i : i + per]], "filters": filters} for i in range(0, len(sets), per)]
    items = ctx.order(items)
    res = core.pmap(MOD, "_eval_chunk", items, chunksize=1)
    nev = nnt = 0
    outcomes = set()
    allv = []
    perkey = {}
    for (v, n, t, counters, outs, per_) in res:
        allv += v
        nev += n
        nnt += t
        outcomes.update(outs)
        for k, c in counters.items():
            ctx.count(k, c)
        for k, c in per_.items():
            perkey[k] = perkey.get(k, 0) + c
    # simplest counterexample first: fewest members, then enumeration order
    allv.sort(key=lambda v: (len(v["case"].get("members", ())), 0 if v["case"].get("variant") == "base" else 1))
    ctx.add_violations(_cap(allv))
    ctx.count("member_sets", len(sets))
    ctx.count("collection_evaluations", nev)
    ctx.count("distinct_representatives", len(outcomes))
    for k, c in perkey.items():
        ctx.count("violations_" + k, c)
    # ---- manager
    mc = ctx.order(mgr_cases(ctx))
    mres = core.pmap(MOD, "_eval_mgr_counted", mc)
    nm = 0
    mv = []
    for v, n in mres:
        mv += v
        nm += n
    ctx.add_violations(_cap(mv))
    ctx.count("manager_cores", nm)
    # ---- manager re-use histories
    hc = ctx.order(hist_cases(ctx))
    hres = core.pmap(MOD, "_eval_hist_counted", hc)
    nh = nuses = 0
    hv = []
    for v, n in hres:
        hv += v
        nh += 1
        nuses += n
    hv.sort(key=lambda v: len(v["case"]["ops"]))
    ctx.add_violations(_cap(hv))
    ctx.count("reuse_histories", nh)
    # ---- collection re-use histories
    cc = chist_cases(ctx)
    citems = ctx.order([{"cases": cc[i : i + 60]} for i in range(0, len(cc), 60)])
    nch = nreq = 0
    cv = []
    for v, k, n, per_ in core.pmap(MOD, "_eval_chist_chunk", citems, chunksize=1):
        cv += v
        nch += k
        nreq += n
        for kk, c in per_.items():
            ctx.count("violations_" + kk, c)
    cv.sort(key=lambda v: len(v["case"]["ops"]))
    ctx.add_violations(_cap(cv))
    ctx.count("collection_reuse_histories", nch)
    ctx.count("collection_reuse_requests_compared_with_fresh_collection", nreq)
    ctx.count("reuse_uses_compared_with_fresh_build", nuses)
    ctx.samples = [
        {"kind": "labels", "labels": ["A", "a", "Zz", "dA"]},
        {"kind": "coll", "members": sets[len(sets) // 3][0], "rep": sets[len(sets) // 3][1][1], "filter": ["fuel"], "variant": "base"},
        {"kind": "coll", "members": sets[-1][0], "rep": sets[-1][1][0], "filter": None, "variant": "dup"},
        mc[0],
        hc[len(hc) // 2],
        cc[len(cc) // 2],
    ]
    ctx.coverage.update(
        evaluations=nlab + nenv + nev + nm + nh + nch,
        distinct_nontrivial=nnt + nm + nlab - 26 + nh - len(HIST_INITS) + nch - 2 * len(CH_REPS),
        rule="labels: every one- and two-letter label over [A-Za-z] (the 26 upper-case single letters counted trivial); collections: every multiset of 1-3 member states (kind x burnup x flux) within the pool bounds x representation x filter x variant {base, duplicated, rescaled}, one real createRepresentativeBlock call each, distinct by construction, non-trivial = at least two eligible members in different states; manager: one generated core per (xs assignment, design, burnup pattern, bounds, exclusion setting), representation/flux pattern rotating; re-use: every history of at most 3 (quick) / 4 (thorough) operations ending in a use over {change representation, toggle block-type exclusion, change bu/temp bounds, toggle an explicit crossSectionControl entry, new manager on the same settings, interactBOL, use, change a block's burnup / fuel temperature} from 3 initial configurations on the SAME settings and manager objects, every use compared with a fresh settings+manager build of what is in effect (the use-only history of each initial configuration counted trivial); collection re-use: every history of at most 3 operations ending in createRepresentativeBlock on ONE collection object over {createRepresentativeBlock, append, extend, +=, insert, remove, pop, change a member's flags/burnup/flux/fuel temperature, toggle weightingParam, toggle the valid-block-type attribute} (+ setitem/delitem/clear and more positions in thorough) x 5 representations x filter {none,[fuel]}, every request compared with a fresh collection of list(collection) and the current attributes (the request-only history counted trivial)",
        exhaustive=True,
        member_sets=len(sets),
        member_kinds=list(KINDS_QUICK if ctx.quick else KINDS_THOROUGH),
        representations=NONFLUX_REPS + FLUX_REPS,
        filters=filters,
        manager_cores=nm,
        reuse_histories=nh,
        collection_reuse_histories=nch,
    )
    ctx.assumptions += [
        "member values come from finite alphabets: 2 compositions x fuel temperature {600,400} x height {25,20} (+ blanket, plenum, centre block with symmetry factor 3), burnup {0,5,10}, flux {0,1e14,3e14}; sets of at most 3 members (plus their duplication)",
        "size-3 sets of the flux-weighted options use a reduced (burnup, flux) alphabet in the quick tier; options that ignore the weighting parameter get rotating flux patterns",
        "SlabComponentsAverageBlockCollection and the duct-heterogeneous cylinder variant are not explored (no rectangular-slab blocks in the generator)",
        "reference model trusts per-component queries (getNumberDensities, getVolume, getArea, getMass, temperatureInC) and block parameters; the lumped-fission-product handling of the collections is not observed (blocks carry none)",
        "temperature-group bounds never coincide with a block temperature (floating point tie), burn-up bounds do",
        "re-use histories: what is 'in effect' follows the documented read points (representation / block-type exclusion at interactBOL, group bounds at manager construction, crossSectionControl entries live); one fixed 3-assembly core",
    ]


def _cap(vs, n=40):
    out, per = [], {}
    for v in vs:
        per[v["key"]] = per.get(v["key"], 0) + 1
        if per[v["key"]] <= n:
            out.append(v)
    return out
