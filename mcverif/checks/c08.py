"""C08 - grid symmetry and rotation operations agree with the physical geometry.

Part 1 (bounded-exhaustive cell enumeration, pure grid API)
    every cell within N rings (8 quick / 20 thorough) of both hex orientations:
      * reported symmetric equivalents  ==  cells whose centres are the 120/240 degree rotations of
        the cell's centre (centre by an affine map written here, image cell by the *inverse* affine
        map: no index arithmetic is shared with armi);
      * membership of the modelled third (``locatorInDomain`` with/without ``symmetryOverlap``,
        ``isInFirstThird``) == polar angle of the centre in [0,120) (+ the 120 degree line with
        overlap); hence exactly one orbit member in the domain unless the orbit is on a symmetry line;
      * ``overlapsWhichSymmetryLine`` == line read from the polar angle;
      * ``rotateIndex(loc,k)``, k in [-13,13] and a few huge k: centre rotated by 60k degrees CCW,
        ring / axial index / grid preserved, identity at multiples of 6, additive composition;
      * ``hexagon.getIndexOfRotatedCell`` == sequential number of the geometrically rotated cell.
    Cartesian quarter core, periodic/reflective x through-centre or not: images == 90 degree rotations
    / axis reflections of the centre, domain == closed first quadrant, one orbit member in the
    domain unless on an axis.

Part 2 (rotation histories on real HexBlocks / HexAssemblies built from generated blueprints)
    pin lattices of 1-3 rings in both pin-grid orientations; multi-location, single-location,
    free-coordinate and locator-less children; six distinct values in every CORNERS/EDGES located
    parameter; displacement vector; orientation.  Every history of <= 3 rotations over an alphabet of
    multiples of 60 degrees, through ``HexBlock.rotate`` and through ``HexAssembly.rotate``:
      (a) equals a single rotation by the summed angle applied to a fresh object (differential),
      (b) equals the geometric rotation of the initial observation (independent oracle).
    ``HexAssembly.rotate`` must accept every multiple of 60 degrees (k in [-13,13], three ways of
    writing the angle) and refuse non-multiples leaving the assembly unchanged.

A *case* is pure JSON; ``evaluate(case)`` rebuilds everything from it.
"""
import json
import math

from mcverif import core

PROPERTY = "C08"
LEVEL = "exploration"
MOD = "mcverif.checks.c08"
TOL = 1e-9
SQ3 = math.sqrt(3.0)

# enumeration bounds (one place) ---------------------------------------------------------------
BOUNDS = {
    "quick": dict(rings=8, kmax=13, compmax=6, hist_ops=[1, 2, 3, 4, 5, -1, -2], hist_len=3, accept_kmax=13),
    "thorough": dict(rings=20, kmax=13, compmax=13, hist_ops=[1, 2, 3, 4, 5, 6, 7, -1, -2, -3, -4, -5, -6, -7], hist_len=3, accept_kmax=40),
}
K_EXTRA = [-601, -60, 60, 601, 10**6 + 1]
BAD_ANGLES_DEG = [30.0, 45.0, 90.0, -30.0, 59.9, 60.001, 150.0, 400.0]
BAD_ANGLES_RAD = [1.0, 1e-6, 0.5 * math.pi]


# ---------------------------------------------------------------------------------------------
# boring geometry


def _close(a, b, tol=TOL):
    return len(a) == len(b) and all(abs(float(x) - float(y)) <= tol * (1.0 + abs(float(y))) for x, y in zip(a, b))


def hexdist(i, j):
    return max(abs(i), abs(j), abs(i + j))


def hex_cells(n):
    return [(i, j) for i in range(-n + 1, n) for j in range(-n + 1, n) if hexdist(i, j) <= n - 1]


def hex_unit(pitch, cornersUp):
    """Hex lattice vectors u_i, u_j (x,y) stated independently of armi (copied from c07)."""
    if cornersUp:
        return (pitch / 2.0, pitch * SQ3 / 2.0), (-pitch / 2.0, pitch * SQ3 / 2.0)
    return (pitch * SQ3 / 2.0, pitch / 2.0), (0.0, pitch)


def centre(i, j, ui, uj):
    return (i * ui[0] + j * uj[0], i * ui[1] + j * uj[1])


def rot(xy, deg):
    """Counter-clockwise rotation of a point about the origin. Multiples of 30 degrees use exact
    table values so that the oracle itself adds no rounding."""
    d = deg % 360.0
    table = {0: (1.0, 0.0), 30: (SQ3 / 2, 0.5), 60: (0.5, SQ3 / 2), 90: (0.0, 1.0), 120: (-0.5, SQ3 / 2), 150: (-SQ3 / 2, 0.5), 180: (-1.0, 0.0), 210: (-SQ3 / 2, -0.5), 240: (-0.5, -SQ3 / 2), 270: (0.0, -1.0), 300: (0.5, -SQ3 / 2), 330: (SQ3 / 2, -0.5)}
    if abs(d - round(d)) < 1e-12 and int(round(d)) in table:
        c, s = table[int(round(d))]
    else:
        c, s = math.cos(math.radians(deg)), math.sin(math.radians(deg))
    return (c * xy[0] - s * xy[1], s * xy[0] + c * xy[1])


def inv_cell(xy, ui, uj):
    """Inverse affine map: the lattice cell whose centre is ``xy`` (error if xy is no centre)."""
    det = ui[0] * uj[1] - ui[1] * uj[0]
    fi = (uj[1] * xy[0] - uj[0] * xy[1]) / det
    fj = (-ui[1] * xy[0] + ui[0] * xy[1]) / det
    i, j = int(round(fi)), int(round(fj))
    if abs(fi - i) > 1e-6 or abs(fj - j) > 1e-6:
        raise RuntimeError("oracle: %r is not a lattice point (%r, %r)" % (xy, fi, fj))
    return (i, j)


def polar_deg(xy):
    return math.degrees(math.atan2(xy[1], xy[0])) % 360.0


def sextant_line(theta):
    """m in 0..5 if theta is (numerically) 60*m degrees, else None."""
    m = int(round(theta / 60.0))
    if abs(theta - 60.0 * m) < 1e-7:
        return m % 6
    return None


def ring_walk(r):
    """Cells of ring r (1-based) counter-clockwise starting at the upper-right cell (r-1, 0) of a
    flats-up lattice: the numbering convention of pins/positions, stated as a walk."""
    if r == 1:
        return [(0, 0)]
    out = []
    i, j = r - 1, 0
    for di, dj in ((-1, 1), (-1, 0), (0, -1), (1, -1), (1, 0), (0, 1)):
        for _ in range(r - 1):
            out.append((i, j))
            i, j = i + di, j + dj
    return out


def _ij(e):
    return (int(e[0]), int(e[1]))


# ---------------------------------------------------------------------------------------------
# Part 1: hex symmetry


def _eval_hexsym(case):
    from armi.reactor import grids
    from armi.reactor.grids import constants as gc

    vs = []
    p, cu, n, sym = case["pitch"], case["cornersUp"], case["rings"], case["symmetry"]
    if case.get("from"):
        g = grids.HexGrid.fromPitch(case["from"], numRings=n, cornersUp=cu, symmetry=sym)
        g.changePitch(p)
    else:
        g = grids.HexGrid.fromPitch(p, numRings=n, cornersUp=cu, symmetry=sym)
    ui, uj = hex_unit(p, cu)
    third = sym.startswith("third")
    lines = {0: gc.BOUNDARY_0_DEGREES, 1: gc.BOUNDARY_60_DEGREES, 2: gc.BOUNDARY_120_DEGREES}
    nev = nt = 0
    cnt = {"hex_online_orbits": 0, "hex_offline_orbits": 0, "hex_order_120_then_240": 0}

    def bad(key, msg, **kw):
        c = dict(case)
        c.update(kw)
        vs.append(core.viol("c08/" + key, msg, c))

    only = case.get("cell")
    cells = [tuple(only)] if only else hex_cells(n)

    def indom_oracle(cell, overlap):
        if cell == (0, 0):
            return True
        th = (polar_deg(centre(cell[0], cell[1], ui, uj)) - (30.0 if cu else 0.0)) % 360.0
        m = sextant_line(th)
        if m is not None:
            return m in (0, 1) or (overlap and m == 2)
        return 0.0 < th < 120.0

    for i, j in cells:
        nev += 1
        c = centre(i, j, ui, uj)
        real = g.getCoordinates((i, j, 0))
        if not _close(real[:2], c):
            bad("hex-centre-premise", "cell (%d,%d): grid centre %s, affine map %s" % (i, j, list(real), c), cell=[i, j])
            continue
        loc = g[i, j, 0]
        # --- equivalents
        got = [_ij(e) for e in g.getSymmetricEquivalents((i, j, 0))]
        got2 = [_ij(e) for e in g.getSymmetricEquivalents((i, j))]
        if got != got2:
            bad("hex-equivalents-2index", "cell (%d,%d): equivalents differ for (i,j) and (i,j,k) input: %s vs %s" % (i, j, got2, got), cell=[i, j])
        if not third:
            if got:
                bad("hex-full-core-equivalents", "full-core grid reports equivalents %s for (%d,%d)" % (got, i, j), cell=[i, j])
            if not (g.locatorInDomain(loc) and g.locatorInDomain(loc, symmetryOverlap=True)):
                bad("hex-full-core-domain", "full-core grid: cell (%d,%d) not in domain" % (i, j), cell=[i, j])
            # isInFirstThird is pure geometry, independent of the grid's symmetry
            for ov in (False, True):
                if bool(g.isInFirstThird(loc, includeTopEdge=ov)) != indom_oracle((i, j), ov):
                    bad("hex-first-third", "isInFirstThird((%d,%d), includeTopEdge=%s)=%s, polar angle says %s" % (i, j, ov, g.isInFirstThird(loc, includeTopEdge=ov), indom_oracle((i, j), ov)), cell=[i, j])
            continue
        if (i, j) == (0, 0):
            exp = []
        else:
            nt += 1
            exp = [inv_cell(rot(c, 120), ui, uj), inv_cell(rot(c, 240), ui, uj)]
        if len(set(got)) != len(got) or (i, j) in got:
            bad("hex-equivalents-duplicate", "cell (%d,%d): equivalents %s contain a duplicate or the cell itself" % (i, j, got), cell=[i, j])
        if sorted(got) != sorted(exp):
            bad("hex-equivalents", "cell (%d,%d) centre %s: reported equivalents %s; cells at the 120/240 degree rotations of the centre are %s" % (i, j, c, got, exp), cell=[i, j])
            continue
        if got == exp and exp:
            cnt["hex_order_120_then_240"] += 1
        # --- domain membership of every orbit member, both overlap flags
        orbit = [(i, j)] + got
        th = (polar_deg(c) - (30.0 if cu else 0.0)) % 360.0
        m = sextant_line(th) if (i, j) != (0, 0) else None
        online = m is not None and m % 2 == 0
        for ov in (False, True):
            nin = 0
            for mem in orbit:
                ml = g[mem[0], mem[1], 0]
                r_ = bool(g.locatorInDomain(ml, symmetryOverlap=ov))
                nin += r_
                if mem == (i, j):
                    w_ = indom_oracle(mem, ov)
                    if r_ != w_:
                        bad("hex-domain-overlap" if ov else "hex-domain", "third-core locatorInDomain((%d,%d), symmetryOverlap=%s)=%s but the centre's polar angle (lattice frame) is %.6f deg => %s" % (i, j, ov, r_, th, w_), cell=[i, j])
                    if bool(g.isInFirstThird(ml, includeTopEdge=ov)) != r_:
                        bad("hex-first-third", "isInFirstThird and locatorInDomain disagree at (%d,%d), overlap=%s" % (i, j, ov), cell=[i, j])
            wantn = 1 if ((i, j) == (0, 0) or not online or not ov) else 2
            if nin != wantn:
                bad("hex-orbit-domain-count", "orbit %s (on symmetry line: %s): %d members in the domain with symmetryOverlap=%s, expected %d" % (orbit, online, nin, ov, wantn), cell=[i, j])
        if not bool(g.locatorInDomain(loc)) == bool(g.locatorInDomain(loc, symmetryOverlap=False)):
            bad("hex-domain", "default symmetryOverlap is not False at (%d,%d)" % (i, j), cell=[i, j])
        if (i, j) != (0, 0):
            cnt["hex_online_orbits" if online else "hex_offline_orbits"] += 1
        # --- symmetry-line classification
        if (i, j) == (0, 0):
            wl = gc.BOUNDARY_CENTER
        else:
            wl = lines.get(m) if m is not None else None
        gl = g.overlapsWhichSymmetryLine((i, j))
        gl3 = g.overlapsWhichSymmetryLine((i, j, 0))
        if gl != wl or gl3 != wl:
            bad("hex-symmetry-line", "overlapsWhichSymmetryLine((%d,%d))=%s/%s; the centre's polar angle (lattice frame) is %.6f deg => %s" % (i, j, gl, gl3, th, wl), cell=[i, j])
    return vs, nev, nt, cnt


# ---------------------------------------------------------------------------------------------
# Part 1: rotateIndex


def _eval_hexrot(case):
    from armi.reactor import grids

    vs = []
    p, cu, n = case["pitch"], case["cornersUp"], case["rings"]
    kmax, cm = case["kmax"], case["compmax"]
    g = grids.HexGrid.fromPitch(p, numRings=n, cornersUp=cu)
    gtwin = grids.HexGrid.fromPitch(p, numRings=2, cornersUp=cu)  # "roughly equal" grid
    ui, uj = hex_unit(p, cu)
    nev = nt = 0
    cnt = {"rot_distinct_images": 0}

    def bad(key, msg, **kw):
        c = dict(case)
        c.update(kw)
        vs.append(core.viol("c08/" + key, msg, c))

    only = case.get("cell")
    cells = [tuple(only)] if only else hex_cells(n)
    ks = list(range(-kmax, kmax + 1)) + K_EXTRA
    for i, j in cells:
        c = centre(i, j, ui, uj)
        table = {}
        images = set()
        for kk in ks:
            nev += 1
            for which, loc in (("own", g[i, j, 0]), ("k3", grids.IndexLocation(i, j, 3, g)), ("nogrid", grids.IndexLocation(i, j, 0, None)), ("twin", grids.IndexLocation(i, j, 0, gtwin))):
                try:
                    r = g.rotateIndex(loc, kk)
                except Exception as e:
                    bad("rotateIndex-raises", "rotateIndex((%d,%d) [%s], %d) raised %r" % (i, j, which, kk, e), cell=[i, j], k=kk)
                    continue
                gi = (int(r.i), int(r.j))
                if which == "own":
                    table[kk] = gi
                    images.add(gi)
                    want = inv_cell(rot(c, 60.0 * (kk % 6)), ui, uj)
                    if gi != want:
                        bad("rotateIndex-geometry", "rotateIndex((%d,%d), %d) -> %s; the cell whose centre is the centre rotated by %d x 60 deg CCW is %s (cornersUp=%s)" % (i, j, kk, gi, kk, want, cu), cell=[i, j], k=kk)
                    if hexdist(*gi) != hexdist(i, j) or g.getRingPos((gi[0], gi[1], 0))[0] != g.getRingPos((i, j, 0))[0]:
                        bad("rotateIndex-ring", "rotateIndex((%d,%d), %d) -> %s leaves the ring" % (i, j, kk, gi), cell=[i, j], k=kk)
                    if kk % 6 == 0 and gi != (i, j):
                        bad("rotateIndex-identity6", "rotateIndex((%d,%d), %d) -> %s, expected the identity" % (i, j, kk, gi), cell=[i, j], k=kk)
                    rc = g.getCoordinates((gi[0], gi[1], 0))
                    if not _close(rc[:2], rot(c, 60.0 * (kk % 6))):
                        bad("rotateIndex-coordinates", "centre of rotateIndex((%d,%d), %d) is %s, rotated centre %s" % (i, j, kk, list(rc), rot(c, 60.0 * (kk % 6))), cell=[i, j], k=kk)
                elif gi != table.get(kk):
                    bad("rotateIndex-locator-kind", "rotateIndex of (%d,%d) by %d differs for a %s locator: %s vs %s" % (i, j, kk, which, gi, table.get(kk)), cell=[i, j], k=kk)
                if int(r.k) != int(loc.k) or r.grid is not loc.grid:
                    bad("rotateIndex-kgrid", "rotateIndex((%d,%d,%d) [%s], %d) -> k=%s grid kept=%s" % (i, j, loc.k, which, kk, r.k, r.grid is loc.grid), cell=[i, j], k=kk)
        if (i, j) != (0, 0):
            nt += len(ks)
            cnt["rot_distinct_images"] += len(images)
            if len(images) != 6:
                bad("rotateIndex-orbit", "cell (%d,%d) has %d distinct images under rotateIndex, expected 6" % (i, j, len(images)), cell=[i, j])
        # additive composition
        for a in range(-cm, cm + 1):
            la = g.rotateIndex(g[i, j, 0], a)
            for b in range(-cm, cm + 1):
                nev += 1
                lab = g.rotateIndex(la, b)
                ls = g.rotateIndex(g[i, j, 0], a + b)
                if (int(lab.i), int(lab.j), int(lab.k)) != (int(ls.i), int(ls.j), int(ls.k)):
                    bad("rotateIndex-compose", "rotateIndex(rotateIndex((%d,%d),%d),%d)=%s but rotateIndex(.,%d)=%s" % (i, j, a, b, (lab.i, lab.j), a + b, (ls.i, ls.j)), cell=[i, j], k=a, k2=b)
    return vs, nev, nt, cnt


def _eval_rotcell(case):
    """hexagon.getIndexOfRotatedCell against the sequential number of the rotated cell."""
    from armi.utils import hexagon

    vs = []
    n = case["rings"]
    ui, uj = hex_unit(1.0, False)
    num = {}
    seq = []
    for r in range(1, n + 1):
        walk = ring_walk(r)
        # self-check of the oracle's numbering: counter-clockwise from 30 degrees
        if r > 1:
            angs = [(polar_deg(centre(i, j, ui, uj)) - 30.0 + 1e-9) % 360.0 for i, j in walk]
            if angs != sorted(angs) or len(set(walk)) != 6 * (r - 1):
                raise RuntimeError("oracle ring walk is not counter-clockwise from the upper right")
        for cell in walk:
            seq.append(cell)
            num[cell] = len(seq)
    nev = nt = 0
    for idx, cell in enumerate(seq, start=1):
        c = centre(cell[0], cell[1], ui, uj)
        for o in range(6):
            nev += 1
            nt += 1 if (idx > 1 and o) else 0
            want = num[inv_cell(rot(c, 60.0 * o), ui, uj)]
            try:
                got = hexagon.getIndexOfRotatedCell(idx, o)
            except Exception as e:
                got = repr(e)
            if got != want:
                kw = dict(case)
                kw.update(cellnum=idx, orientation=o)
                vs.append(core.viol("c08/rotated-cell-number", "getIndexOfRotatedCell(%d, %d)=%s; cell %d is %s, rotated %d x 60 deg CCW it is cell %d" % (idx, o, got, idx, cell, o, want), kw))
    return vs, nev, nt, {}


def _eval_pivot(case):
    """iterables.pivot(v, -k) is the k-step counter-clockwise shift of a per-corner vector
    (entry n moves to (n+k) mod 6) for the rotation numbers HexBlock.rotate produces (0..6)."""
    import numpy as np

    from armi.utils import iterables

    vs = []
    nev = nt = 0
    base = [[11.0, 12.0, 13.0, 14.0, 15.0, 16.0], ["a", "b", "c", "d", "e", "f"], [[1, -1], [2, -2], [3, -3], [4, -4], [5, -5], [6, -6]]]
    for bi, v in enumerate(base):
        for asarray in (False, True):
            if asarray and isinstance(v[0], str):
                continue
            for k in range(0, 7):
                nev += 1
                nt += 1 if k % 6 else 0
                src = np.array(v) if asarray else list(v)
                got = iterables.pivot(src, -k)
                got = got.tolist() if hasattr(got, "tolist") else list(got)
                want = [None] * 6
                for n in range(6):
                    want[(n + k) % 6] = v[n]
                after = src.tolist() if hasattr(src, "tolist") else list(src)
                if got != want or after != v:
                    kw = dict(case)
                    kw.update(vector=bi, asarray=asarray, k=k)
                    vs.append(core.viol("c08/pivot-shift", "pivot(%s, %d) = %s, expected %s (input afterwards %s)" % (v, -k, got, want, after), kw))
    return vs, nev, nt, {}


# ---------------------------------------------------------------------------------------------
# Part 1: Cartesian quarter core


def _eval_cartsym(case):
    """Images are computed from the *coordinates the grid reports* for the cell and compared with
    the coordinates the grid reports for the equivalents: no lattice map of our own is needed, so
    grids whose pitch was changed after construction are judged by the same oracle."""
    from armi.reactor import grids

    vs = []
    sym, thr, w, h, n = case["symmetry"], case["through"], case["w"], case["h"], case["rings"]
    frm = case.get("from")  # None: built at the final pitch; [w0, h0]: built at (w0, h0), then changePitch(w, h)
    if frm:
        g = grids.CartesianGrid.fromRectangle(frm[0], frm[1], numRings=n, symmetry=sym, isOffset=not thr)
        g.changePitch(w, h)
    else:
        g = grids.CartesianGrid.fromRectangle(w, h, numRings=n, symmetry=sym, isOffset=not thr)
    periodic = "periodic" in sym
    full = sym.startswith("full")
    if periodic and w != h:
        raise RuntimeError("periodic quarter symmetry needs a square pitch")
    tag = ("full" if full else ("periodic" if periodic else "reflective")) + ("-through-centre" if thr else "-offset")
    how = "built at pitch (%r, %r)" % (w, h) if not frm else "built at (%r, %r) then changePitch(%r, %r)" % (frm[0], frm[1], w, h)
    nev = nt = 0
    cnt = {"cart_online": 0, "cart_offline": 0}
    tol = 1e-9 * (1.0 + n * max(w, h))

    def bad(key, msg, **kw):
        c = dict(case)
        c.update(kw)
        vs.append(core.viol("c08/" + key, msg, c))

    def same(p, q):
        return abs(p[0] - q[0]) <= tol and abs(p[1] - q[1]) <= tol

    def xy_of(cell):
        c = g.getCoordinates((cell[0], cell[1], 0))
        return (float(c[0]), float(c[1]))

    if not _close(g.pitch, (w, h)):
        bad("cart-pitch", "%s: pitch reads %s" % (how, (g.pitch,)))
    rng = range(-n + 1, n) if thr else range(-n, n)
    only = case.get("cell")
    cells = [tuple(only)] if only else [(i, j) for i in rng for j in rng]
    if bool(g.symmetry.isThroughCenterAssembly) != thr and not full:
        bad("cart-through-centre-flag", "symmetry %r parsed with isThroughCenterAssembly=%s" % (sym, g.symmetry.isThroughCenterAssembly))
    for i, j in cells:
        nev += 1
        x, y = xy_of((i, j))
        got = [_ij(e) for e in g.getSymmetricEquivalents((i, j))]
        got3 = [_ij(e) for e in g.getSymmetricEquivalents((i, j, 0))]
        if got != got3:
            bad("cart-equivalents-2index", "cell (%d,%d): equivalents differ for 2- and 3-index input" % (i, j), cell=[i, j])
        loc = g[i, j, 0]
        if full:
            if got or not g.locatorInDomain(loc):
                bad("cart-full-core", "full-core Cartesian grid: equivalents %s / inDomain %s at (%d,%d)" % (got, g.locatorInDomain(loc), i, j), cell=[i, j])
            continue
        if periodic:
            imgs = [rot((x, y), 90), rot((x, y), 180), rot((x, y), 270)]
        else:
            imgs = [(-x, y), (-x, -y), (x, -y)]
        exp = []  # distinct images other than the centre itself
        for im in imgs:
            if not same(im, (x, y)) and not any(same(im, q) for q in exp):
                exp.append(im)
        if exp:
            nt += 1
        if len(set(got)) != len(got) or (i, j) in got:
            bad("cart-equivalents-duplicate-" + tag, "cell (%d,%d): equivalents %s contain a duplicate or the cell itself" % (i, j, got), cell=[i, j])
        gxy = [xy_of(e) for e in got]
        unmatched = [im for im in exp if not any(same(im, q) for q in gxy)]
        extra = [(e, q) for e, q in zip(got, gxy) if not any(same(im, q) for im in exp)]
        if unmatched or extra or len(got) != len(exp):
            bad(
                "cart-equivalents-" + tag,
                "%s, %s: cell (%d,%d) has its centre at %s; the %s of the centre are %s, but the reported equivalents %s have their centres at %s" % (how, sym, i, j, (x, y), "90/180/270 degree rotations" if periodic else "axis reflections", exp, got, gxy),
                cell=[i, j],
            )
            continue
        online = abs(x) <= tol or abs(y) <= tol
        cnt["cart_online" if online else "cart_offline"] += 1
        nin = 0
        for mem in [(i, j)] + got:
            ml = g[mem[0], mem[1], 0]
            r_ = bool(g.locatorInDomain(ml))
            nin += r_
            if mem == (i, j):
                w_ = x > -tol and y > -tol
                if r_ != w_ or bool(g.locatorInDomain(ml, symmetryOverlap=True)) != w_:
                    bad("cart-domain-" + tag, "%s: locatorInDomain((%d,%d))=%s but the centre %s is %s the closed first quadrant" % (how, i, j, r_, (x, y), "in" if w_ else "outside"), cell=[i, j])
        if not online and (nin != 1 or len(got) != 3):
            bad("cart-orbit-domain-count-" + tag, "orbit %s off the axes has %d members in the domain" % ([(i, j)] + got, nin), cell=[i, j])
        if online and nin < 1:
            bad("cart-orbit-domain-count-" + tag, "orbit %s on an axis has no member in the domain" % ([(i, j)] + got,), cell=[i, j])
    return vs, nev, nt, cnt


# ---------------------------------------------------------------------------------------------
# Part 2: real blocks / assemblies

_BP = {}


VECTOR_PATTERNS = ["generic", "x-zero", "y-zero", "zero", "equal"]


def _vec(pattern, a, b):
    """A 2-vector of the given shape: code that tests truthiness treats 0.0 like 'not set'."""
    return {"generic": [a, b], "x-zero": [0.0, b], "y-zero": [a, 0.0], "zero": [0.0, 0.0], "equal": [a, a]}[pattern]


def inits(ctx):
    s = ctx.seed
    out = []
    combo = 0
    nmixed = 0
    P = VECTOR_PATTERNS
    for rings in (1, 2, 3):
        for pcu in (False, True):
            for variant in ("blueprint", "mixed", "auto"):
                if variant == "auto" and rings == 1:
                    continue  # orientBlocks needs multiplicities {1, N}
                dx, dy = 0.3 + 0.01 * (s % 5), -0.7
                fx, fy = 0.37 + 0.05 * (s % 3), -0.21
                for via in ("block", "assembly"):
                    out.append(
                        {
                            "rings": rings,
                            "pinCornersUp": pcu,
                            "pinPitch": [1.0, 1.23, 1.1][(rings + s) % 3] if variant != "auto" else AUTO_PITCH,
                            "variant": variant,
                            "via": via,
                            # displacement of block 0, block 1: every shape occurs for both ways of rotating
                            "disps": [_vec(P[(combo + s) % 5], dx, dy), _vec(P[(combo + s + 2) % 5], dx + 1.0, dy - 2.0)],
                            # free-coordinate children (mixed variant): duct, coolant
                            "free": _vec(P[(nmixed + s) % 5], fx, fy) + [1.5],
                            "free2": _vec(P[(nmixed + s + 2) % 5], -fy, fx) + [0.0],
                            "orient0": [1.0, 2.0, 60.0 * ((s + rings) % 6)] if variant == "mixed" else [0.0, 0.0, 0.0],
                            "bbase": 10.0 + (s % 7),
                        }
                    )
                combo += 1
                nmixed += variant == "mixed"
    return out


AUTO_PITCH = 1.09 + 0.1  # cold clad od + wire od: the pin pitch orientBlocks derives


def _spec_auto(init):
    """No pin lattice in the blueprint: multiplicities {1, N}; the pin grid is made by orientBlocks."""
    from mcverif import build

    n = float(1 + 3 * init["rings"] * (init["rings"] - 1))
    spec = build.hex_spec(rings=2, pins=False, third=False, two_designs=False, sfp=False)
    spec["blocks"]["fuel"] = {
        "components": [
            build.comp("fuel", "Circle", "UZr", 25.0, 600.0, id=0.0, od=0.86, mult=n),
            build.comp("clad", "Circle", "HT9", 25.0, 470.0, id=1.0, od=1.09, mult="fuel.mult"),
            build.comp("wire", "Helix", "HT9", 25.0, 450.0, axialPitch=30.0, helixDiameter=1.19, id=0.0, od=0.1, mult="fuel.mult"),
            build.comp("coolant", "DerivedShape", "Sodium", 450.0, 450.0),
            build.comp("duct", "Hexagon", "HT9", 25.0, 450.0, ip=16.0, op=16.6, mult=1.0),
            build.comp("intercoolant", "Hexagon", "Sodium", 450.0, 450.0, ip="duct.op", op=16.75, mult=1.0),
        ]
    }
    return spec


def _spec(init):
    from mcverif import build

    if init["variant"] == "auto":
        return _spec_auto(init)
    rings = init["rings"]
    spec = build.hex_spec(rings=2, pins=True, third=False, two_designs=False, sfp=False)
    contents = {c: "F" for c in build.full_core_cells(rings)}
    fb = spec["blocks"]["fuel"]
    if rings >= 2:
        contents[(1, 0)] = "G"
        fb["components"].insert(2, build.comp("guide", "Circle", "HT9", 25.0, 470.0, id=0.2, od=0.5, latticeIDs=["G"]))
    if rings >= 3:
        contents[(-2, 1)] = "I"
        contents[(2, 0)] = "I"
        fb["components"].insert(3, build.comp("inst", "Circle", "HT9", 25.0, 470.0, id=0.1, od=0.4, latticeIDs=["I"]))
    spec["grids"]["pins"] = {"geom": "hex_corners_up" if init["pinCornersUp"] else "hex", "symmetry": "full", "pitch": [init["pinPitch"], 0.0], "contents": contents}
    return spec


def _bpkey(init):
    return json.dumps([init["variant"] == "auto", init["rings"], init["pinCornersUp"], init["pinPitch"]])


_BNAMES = {}


def _boundary_names(b):
    """Names of all parameters located at CORNERS or EDGES (definitions are static per block class)."""
    from armi.reactor.parameters import ParamLocation

    if type(b) not in _BNAMES:
        names = list(b.p.paramDefs.atLocation(ParamLocation.CORNERS).names) + list(b.p.paramDefs.atLocation(ParamLocation.EDGES).names)
        if len(set(names)) < 4:
            raise RuntimeError("expected several CORNERS/EDGES parameters, found %s" % names)
        _BNAMES[type(b)] = sorted(set(names))
    return _BNAMES[type(b)]


def _fresh(init):
    """A new real HexAssembly (fuel block with pin lattice + plenum block without grid), prepared."""
    import random

    import numpy as np

    from armi.reactor import assemblies, blocks, grids
    from mcverif import build

    key = _bpkey(init)
    if key not in _BP:
        _BP.clear()
        _BP[key] = build.blueprints(_spec(init))
    random.seed(0)
    a = _BP[key].constructAssem(build.settings(), name="igniter fuel")
    if init["variant"] == "auto":
        # the path every assembly placed in a core takes: pin grids from multiplicities, opposite
        # orientation to the system grid, one MultiIndexLocation shared by all pin components
        a.orientBlocks(grids.HexGrid.fromPitch(16.75, numRings=3) if init["pinCornersUp"] else None)
    if not isinstance(a, assemblies.HexAssembly) or not isinstance(a[0], blocks.HexBlock) or a[0].spatialGrid is None:
        raise RuntimeError("generator did not give a HexAssembly with a pin grid")
    for bi, b in enumerate(a):
        names = _boundary_names(b)
        for ni, name in enumerate(names):
            vals = [init["bbase"] + 100.0 * bi + 10.0 * ni + q + 1.0 for q in range(6)]
            if ni % 4 == 2:
                vals = [float(q - 2 - bi) for q in range(6)]  # negative entries and an exact 0.0
            elif ni % 4 == 3:
                vals = [5.0, 5.0, 0.0, 0.0, 7.0 + bi, 5.0]  # equal and zero entries, no rotational symmetry
            if init["variant"] == "auto" and ni == len(names) - 1:
                vals = [0.0] * 6  # set, but all zero
            if init["variant"] == "mixed" and ni == 0:
                b.p[name] = np.array([[v, -v] for v in vals])  # per-corner vector data
            else:
                b.p[name] = np.array(vals) if (ni % 2) else list(vals)
        d = init["disps"][bi % len(init["disps"])]
        b.p.displacementX = d[0]
        b.p.displacementY = d[1]
        if init["variant"] == "mixed":
            b.p.orientation = np.array(init["orient0"], dtype=float)
            g = b.spatialGrid
            if g is not None:
                for c in b:
                    if c.name == "duct":
                        c.spatialLocator = grids.CoordinateLocation(init["free"][0], init["free"][1], init["free"][2], g)
                    elif c.name == "coolant":
                        c.spatialLocator = grids.CoordinateLocation(init["free2"][0], init["free2"][1], init["free2"][2], g)
                    elif c.name == "intercoolant":
                        c.spatialLocator = None
                    elif c.name == "guide":
                        c.spatialLocator = g[1, 0, 0]  # single-location component
    return a


def _observe(a):
    """What the property can see of a hex assembly, as plain data."""
    out = []
    for b in a:
        g = b.spatialGrid
        comps = []
        for c in b:
            sl = c.spatialLocator
            t = type(sl).__name__
            if sl is None:
                comps.append({"name": c.name, "type": "None"})
            elif t == "MultiIndexLocation":
                comps.append({"name": c.name, "type": t, "idx": [[int(l.i), int(l.j), int(l.k)] for l in sl], "xyz": [[float(x) for x in l.getLocalCoordinates()] for l in sl], "gridok": bool(sl.grid is g and all(l.grid is g for l in sl))})
            elif t == "CoordinateLocation":
                comps.append({"name": c.name, "type": t, "xyz": [[float(x) for x in sl.getLocalCoordinates()]], "gridok": bool(sl.grid is None or sl.grid is g)})
            elif t == "IndexLocation":
                comps.append({"name": c.name, "type": t, "idx": [[int(sl.i), int(sl.j), int(sl.k)]], "xyz": [[float(x) for x in sl.getLocalCoordinates()]], "gridok": bool(sl.grid is g)})
            else:
                comps.append({"name": c.name, "type": t})
        if g is not None:
            pins = [[float(x) for x in row] for row in b.getPinCoordinates()]
            pinlocs = [[int(l.i), int(l.j), int(l.k)] for l in b.getPinLocations()]
        else:
            pins, pinlocs = [], []
        bnd = {}
        for name in _boundary_names(b):
            v = b.p[name]
            bnd[name] = v.tolist() if hasattr(v, "tolist") else v
        out.append(
            {
                "name": b.getType(),
                "grid": None if g is None else {"pitch": float(g.pitch), "cornersUp": bool(g.cornersUp)},
                "comps": comps,
                "pins": pins,
                "pinlocs": pinlocs,
                "bnd": bnd,
                "disp": [float(b.p.displacementX), float(b.p.displacementY)],
                "orient": [float(x) for x in b.p.orientation],
            }
        )
    return out


def _expected(o0, s, init, rotated_blocks):
    """Geometric rotation of an observation by s x 60 degrees CCW (independent of armi)."""
    deg = 60.0 * (s % 6)
    ui, uj = hex_unit(init["pinPitch"], init["pinCornersUp"])
    out = []
    for bi, b in enumerate(o0):
        if bi not in rotated_blocks:
            out.append(json.loads(json.dumps(b)))
            continue
        e = {"name": b["name"], "grid": b["grid"], "comps": [], "bnd": {}}
        for c in b["comps"]:
            ec = {"name": c["name"], "type": c["type"]}
            if "idx" in c:
                ec["idx"] = []
                for i, j, k in c["idx"]:
                    ni, nj = inv_cell(rot(centre(i, j, ui, uj), deg), ui, uj)
                    ec["idx"].append([ni, nj, k])
            if "xyz" in c:
                ec["xyz"] = [list(rot(p[:2], deg)) + [p[2]] for p in c["xyz"]]
            if "gridok" in c:
                ec["gridok"] = True
            e["comps"].append(ec)
        e["pins"] = [list(rot(p[:2], deg)) + [p[2]] for p in b["pins"]]
        e["pinlocs"] = [list(inv_cell(rot(centre(i, j, ui, uj), deg), ui, uj)) + [k] for i, j, k in b["pinlocs"]]
        for name, v in b["bnd"].items():
            if isinstance(v, list) and len(v) == 6:
                nv = [None] * 6
                for q in range(6):
                    nv[(q + s) % 6] = v[q]  # corners/edges are numbered counter-clockwise (user docs)
                e["bnd"][name] = nv
            else:
                e["bnd"][name] = v
        e["disp"] = list(rot(b["disp"], deg))
        e["orient"] = [b["orient"][0], b["orient"][1], b["orient"][2] + 60.0 * s]
        out.append(e)
    return out


def _diff_obs(got, want):
    """-> list of (aspect, text). Orientation compared modulo 360 degrees."""
    ds = []
    for bi, (g, w) in enumerate(zip(got, want)):
        where = "block %d (%s)" % (bi, w["name"])
        if [(c["name"], c["type"]) for c in g["comps"]] != [(c["name"], c["type"]) for c in w["comps"]]:
            ds.append(("child-locations", "%s: children/locator types %s, expected %s" % (where, [(c["name"], c["type"]) for c in g["comps"]], [(c["name"], c["type"]) for c in w["comps"]])))
        else:
            for cg, cw in zip(g["comps"], w["comps"]):
                if cg.get("idx") != cw.get("idx"):
                    ds.append(("child-locations", "%s component %s (%s): indices %s, expected %s" % (where, cw["name"], cw["type"], cg.get("idx"), cw.get("idx"))))
                elif "xyz" in cw and not all(_close(a, b) for a, b in zip(cg["xyz"], cw["xyz"])):
                    ds.append(("child-locations", "%s component %s (%s): local coordinates %s, expected %s" % (where, cw["name"], cw["type"], cg["xyz"], cw["xyz"])))
                elif cw.get("gridok") and not cg.get("gridok"):
                    ds.append(("child-grid", "%s component %s: locator no longer on the block's grid" % (where, cw["name"])))
        if len(g["pins"]) != len(w["pins"]) or not all(_close(a, b) for a, b in zip(g["pins"], w["pins"])):
            ds.append(("pins", "%s: pin coordinates %s, expected %s" % (where, g["pins"][:4], w["pins"][:4])))
        if g["pinlocs"] != w["pinlocs"]:
            ds.append(("pins", "%s: pin locations %s, expected %s" % (where, g["pinlocs"][:6], w["pinlocs"][:6])))
        for name in w["bnd"]:
            if g["bnd"].get(name) != w["bnd"][name]:
                ds.append(("boundary", "%s: %s = %s, expected %s" % (where, name, g["bnd"].get(name), w["bnd"][name])))
                break
        if not _close(g["disp"], w["disp"]):
            ds.append(("displacement", "%s: displacement %s, expected %s" % (where, g["disp"], w["disp"])))
        go, wo = g["orient"], w["orient"]
        dz = (go[2] - wo[2]) % 360.0
        if not _close(go[:2], wo[:2]) or min(dz, 360.0 - dz) > 1e-6:
            ds.append(("orientation", "%s: orientation %s, expected %s (mod 360)" % (where, go, wo)))
    if len(got) != len(want):
        ds.append(("blocks", "number of blocks changed"))
    return ds


def _angle(k, form="deg"):
    if form == "deg":
        return math.radians(60.0 * k)
    if form == "kpi/3":
        return k * math.pi / 3
    if form == "k(pi/3)":
        return k * (math.pi / 3)
    raise ValueError(form)


def _rotate(a, via, rad):
    """-> 'ok' | 'refused:ValueError' (assembly level only)."""
    if via == "assembly":
        try:
            a.rotate(rad)
        except ValueError:
            return "refused:ValueError"
    else:
        a[0].rotate(rad)
    return "ok"


REFUSE_KEY = "c08/hexassembly-rotate-refuses-multiple-of-60"


def _premise(o0, init):
    """The pin grid of the built block is the lattice the oracle assumes (C07's business, needed here)."""
    ui, uj = hex_unit(init["pinPitch"], init["pinCornersUp"])
    b = o0[0]
    if b["grid"] is None or abs(b["grid"]["pitch"] - init["pinPitch"]) > 1e-12 or b["grid"]["cornersUp"] != init["pinCornersUp"]:
        return "pin grid is %s" % (b["grid"],)
    for c in b["comps"]:
        if "idx" in c:
            for (i, j, k), xyz in zip(c["idx"], c["xyz"]):
                if not _close(xyz[:2], centre(i, j, ui, uj)):
                    return "locator (%d,%d) of %s at %s, affine map %s" % (i, j, c["name"], xyz, centre(i, j, ui, uj))
    if len(b["pins"]) != len(b["pinlocs"]) or not b["pins"]:
        return "no pins"
    return None


_OBS = {}  # pure-data observations of deterministic constructions, per worker


def _initial_obs(init):
    key = "0|" + json.dumps(init, sort_keys=True)
    if key not in _OBS:
        if len(_OBS) > 400:
            _OBS.clear()
        _OBS[key] = _observe(_fresh(init))
    return _OBS[key]


def _single_rotation_obs(init, s):
    """Observation of a fresh object after ONE rotation by s x 60 degrees through init['via'].
    If HexAssembly.rotate refuses the (valid) angle the blocks are rotated one by one instead."""
    key = "1|%d|" % s + json.dumps(init, sort_keys=True)
    if key not in _OBS:
        a2 = _fresh(init)
        out = _rotate(a2, init["via"], _angle(s))
        if out != "ok":
            a2 = _fresh(init)
            for b in a2:
                b.rotate(_angle(s))
        _OBS[key] = (out, _observe(a2))
    return _OBS[key]


def _eval_hist(case):
    init, hist = case["init"], case["hist"]
    via = init["via"]
    vs = []
    cnt = {}

    def bad(key, msg):
        vs.append(core.viol("c08/" + key, msg, case))

    o0 = _initial_obs(init)
    pm = _premise(o0, init)
    if pm:
        bad("block-premise", "generated block does not match the assumed pin lattice: " + pm)
        return vs, 1, 0, cnt
    nb = len(o0)
    rotated = set(range(nb)) if via == "assembly" else {0}
    # (1) the history, one operation at a time; the geometric oracle in every intermediate state
    a1 = _fresh(init)
    s = 0
    for n_, k in enumerate(hist):
        try:
            out = _rotate(a1, via, _angle(k))
        except Exception as e:
            bad("block-rotate-raises", "history %s via %s: rotate(%d x 60 deg) raised %r" % (hist[: n_ + 1], via, k, e))
            return vs, 1, 1, cnt
        if out != "ok":
            vs.append(core.viol(REFUSE_KEY, "HexAssembly.rotate(math.radians(%d)) refused with ValueError although the angle is a multiple of 60 degrees (history %s)" % (60 * k, hist[: n_ + 1]), case))
            return vs, 1, 1, cnt
        s += k
        o1 = _observe(a1)
        for aspect, text in _diff_obs(o1, _expected(o0, s, init, rotated)):
            bad("block-rotate-" + aspect, "init %s, history %s (x60 deg, via %s): %s" % (_short(init), hist[: n_ + 1], via, text))
        if vs:
            return vs, 1, 1, cnt
    # (2) differential: one rotation by the summed angle on a fresh object
    out, o2 = _single_rotation_obs(init, s)
    if out != "ok":
        vs.append(core.viol(REFUSE_KEY, "HexAssembly.rotate(math.radians(%d)) refused with ValueError although the angle is a multiple of 60 degrees (sum of history %s)" % (60 * s, hist), case))
    o1 = _observe(a1)
    for aspect, text in _diff_obs(o1, o2):
        bad("block-rotate-compose-" + aspect, "init %s: history %s (x60 deg, via %s) differs from a single rotation by %d deg: %s" % (_short(init), hist, via, 60 * s, text))
    cnt["net_%d" % (s % 6)] = 1
    return vs, 1, 1 if hist else 0, cnt


def _short(init):
    return "rings=%d pinCornersUp=%s %s" % (init["rings"], init["pinCornersUp"], init["variant"])


def _eval_accept(case):
    """HexAssembly.rotate must take every multiple of 60 degrees, however the angle is written."""
    init, k, form = case["init"], case["k"], case["form"]
    vs = []
    a0 = _fresh(init)
    o0 = _observe(a0)
    a1 = _fresh(init)
    rad = _angle(k, form)
    try:
        a1.rotate(rad)
    except ValueError as e:
        vs.append(core.viol(REFUSE_KEY, "HexAssembly.rotate(%r) [= %d x 60 deg written as %s] refused: %s" % (rad, k, form, str(e)[:120]), case))
        return vs, 1, 1, {"accept_refused": 1}
    for aspect, text in _diff_obs(_observe(a1), _expected(o0, k, init, set(range(len(o0))))):
        vs.append(core.viol("c08/block-rotate-" + aspect, "init %s: HexAssembly.rotate(%r) [= %d x 60 deg as %s]: %s" % (_short(init), rad, k, form, text), case))
    return vs, 1, 1, {"accept_ok": 1}


def _eval_refuse(case):
    """Non-multiples of 60 degrees are refused by HexAssembly.rotate and change nothing."""
    init, prefix, rad = case["init"], case["prefix"], case["angle"]
    vs = []
    a = _fresh(init)
    for k in prefix:
        for b in a:
            b.rotate(_angle(k))
    before = _observe(a)
    try:
        a.rotate(rad)
        vs.append(core.viol("c08/hexassembly-rotate-accepts-non-multiple", "HexAssembly.rotate(%r rad = %.6f deg) after %s was accepted" % (rad, math.degrees(rad), prefix), case))
    except ValueError:
        ds = _diff_obs(_observe(a), before)
        if ds:
            vs.append(core.viol("c08/hexassembly-refusal-changes-state", "refused HexAssembly.rotate(%r) changed the assembly: %s" % (rad, ds[0][1]), case))
    return vs, 1, 1, {"refusals": 1}


# ---------------------------------------------------------------------------------------------

_EVAL = {"pivot": _eval_pivot, "hexsym": _eval_hexsym, "hexrot": _eval_hexrot, "rotcell": _eval_rotcell, "cartsym": _eval_cartsym, "hist": _eval_hist, "accept": _eval_accept, "refuse": _eval_refuse}


def evaluate(case):
    return _EVAL[case["kind"]](case)[0]


def _evaluate_counted(case):
    vs, n, nt, cnt = _EVAL[case["kind"]](case)
    return vs[:20], n, nt, cnt


def cases(ctx):
    B = BOUNDS["quick" if ctx.quick else "thorough"]
    n = B["rings"]
    s = ctx.seed
    out = []
    pitches = [1.0, 16.75 + (s % 7) * 0.37, 0.123 * (1 + (s % 5))]
    for cu in (False, True):
        for p in pitches:
            out.append({"kind": "hexsym", "cornersUp": cu, "pitch": p, "rings": n, "symmetry": "third periodic"})
        out.append({"kind": "hexsym", "cornersUp": cu, "pitch": pitches[1], "rings": n, "symmetry": "third periodic", "from": 1.0})
        out.append({"kind": "hexsym", "cornersUp": cu, "pitch": pitches[1], "rings": n, "symmetry": "full"})
        for p in pitches[:2]:
            out.append({"kind": "hexrot", "cornersUp": cu, "pitch": p, "rings": n, "kmax": B["kmax"], "compmax": B["compmax"]})
    out.append({"kind": "rotcell", "rings": n})
    out.append({"kind": "pivot"})
    sq = 1.26 + 0.1 * (s % 3)
    for thr in (True, False):
        suffix = " through center assembly" if thr else ""
        # (final w, final h, built-at pitch or None); periodic symmetry needs a square final pitch
        periodic = [(1.0, 1.0, None), (sq, sq, None), (sq, sq, [1.0, 1.0]), (1.5, 1.5, [2.0, 0.5])]
        reflective = [(1.0, 1.0, None), (1.26, 2.5, None), (1.26, 2.5, [1.0, 1.0]), (3.0, 3.0, [1.0, 1.0]), (2.52, 5.0, [1.26, 2.5]), (1.0, 1.0, [2.0, 3.0]), (2.0, 3.0, [1.0, 1.0])]
        for name, fam in (("quarter periodic", periodic), ("quarter reflective", reflective), ("full", [(1.26, 2.5, None), (1.26, 2.5, [1.0, 1.0])])):
            for w_, h_, frm in fam:
                c = {"kind": "cartsym", "symmetry": name + suffix, "through": thr, "w": w_, "h": h_, "rings": n}
                if frm:
                    c["from"] = frm
                out.append(c)
    # Part 2
    ops = B["hist_ops"]
    hists = [[]]
    level = [[]]
    for _ in range(B["hist_len"]):
        level = [h + [k] for h in level for k in ops]
        hists += level
    ii = inits(ctx)
    for init in ii:
        for h in hists:
            out.append({"kind": "hist", "init": init, "hist": h})
        # identity / full turns / beyond one turn, as single operations
        for k in (0, 6, 7, 12, -6, -7):
            if [k] not in hists:
                out.append({"kind": "hist", "init": init, "hist": [k]})
    for init in ii:
        if init["via"] != "assembly" or init["rings"] != 2:
            continue
        for k in range(-B["accept_kmax"], B["accept_kmax"] + 1):
            for form in ("deg", "kpi/3", "k(pi/3)"):
                out.append({"kind": "accept", "init": init, "k": k, "form": form})
        for prefix in ([], [1], [4]):
            for rad in [math.radians(d) for d in BAD_ANGLES_DEG] + BAD_ANGLES_RAD:
                out.append({"kind": "refuse", "init": init, "prefix": prefix, "angle": rad})
    return out


def run(ctx):
    cs = cases(ctx)
    # keep the cases of one blueprint together (the per-worker blueprint cache holds one design)
    cs = ctx.order(cs)
    rank = {"accept": 1, "refuse": 2, "hist": 3}
    cs.sort(key=lambda c: (0, "") if "init" not in c else (rank[c["kind"]], _bpkey(c["init"])))
    res = core.pmap(MOD, "_evaluate_counted", cs)
    ev = nt = 0
    for c, (vs, n, t, cnt) in zip(cs, res):
        ev += n
        nt += t
        ctx.count("cases_" + c["kind"])
        ctx.count("evaluations_" + c["kind"], n)
        for k, v in cnt.items():
            ctx.count(k, v)
        ctx.add_violations(vs)
    # report the simplest witness of every class, independently of the exploration order
    ctx.violations.sort(key=lambda v: (len(json.dumps(v["case"], sort_keys=True)), json.dumps(v["case"], sort_keys=True)))
    B = BOUNDS["quick" if ctx.quick else "thorough"]
    small = [c for c in cs if c["kind"] in ("hexsym", "cartsym")][:2] + [c for c in cs if c["kind"] == "hist" and len(c["hist"]) == B["hist_len"]][:2] + [c for c in cs if c["kind"] == "refuse"][:1]
    ctx.samples = small
    ctx.coverage.update(
        evaluations=ev,
        distinct_nontrivial=nt,
        rule="Part 1: one evaluation per (grid configuration, cell[, k]) - non-trivial when the cell is not the centre cell (its orbit is itself); Part 2: one evaluation per (initial block/assembly, rotation history) - non-trivial when the history is not empty; all evaluations distinct by construction of the enumeration",
        exhaustive=True,
        ring_bound=B["rings"],
        rotateIndex_k_range=[-B["kmax"], B["kmax"]],
        history_alphabet_x60deg=B["hist_ops"],
        history_length=B["hist_len"],
        initial_objects=len(inits(ctx)),
    )
    ctx.assumptions += [
        "cells beyond the ring bound, pitches outside the finite family and rotation histories longer than the bound are not visited",
        "hex symmetry lines / first third are read in the lattice frame: polar angle of the centre minus 30 degrees for corners-up grids (the corners-up lattice is the flats-up lattice turned by 30 degrees)",
        "corner/edge parameter entries are numbered counter-clockwise (doc/user/spatial_block_parameters.rst): a rotation by k x 60 degrees moves entry n to (n+k) mod 6",
        "orientation is compared modulo 360 degrees; HexBlock.rotate with an angle that is not a multiple of 60 degrees is outside the property and not exercised (HexAssembly.rotate must refuse it)",
        "Cartesian quarter symmetry is exercised in the consistent combinations only (through-centre symmetry <-> grid without offset); CartesianGrid.overlapsWhichSymmetryLine is documented as unimplemented and not checked",
        "oracles: affine lattice maps, their inverses, exact rotation tables, written in this module independently of armi",
    ]
