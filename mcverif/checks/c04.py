"""C04 - a reactor saved to the database loads back observationally equal.

Model checking: explicit-state BFS over histories of state mutations (c04_ops.py) of reactors built
from generated blueprints (hex third core with pin lattice, hex full core corners-up, Cartesian
quarter (offset grid) and full core, theta-R-Z quarter core; each with a spent fuel pool holding one
or two assemblies).  In EVERY reached state
the real ``armi.bookkeeping.db.database.Database`` is driven:

    f1 = write(r);  x = load(f1);  y = load(f1);  f2 = write(x);  z = load(f2)

with the same settings and blueprints, and three relations are evaluated on canonical observations
(``observe.obs(persistent_only=True)`` + the supplementary public queries of ``_annotate``):

    write-load    obs(r) == obs(x)   children in the database's documented (sorted) order
    load-twice    obs(x) == obs(y)   children in loaded order
    rewrite-load  obs(x) == obs(z)   children in loaded order

The boring reference model is the in-memory reactor itself, observed through public queries only.
Serial numbers are compared raw (the property demands equality; all reactors of one comparison live
in one execution).  Canonical form of a state: the in-memory observation with serial numbers
replaced by ranks; the differential oracle compares the *loaded* observation of two histories that
reach the same canonical state.

Violation keys name the failing relation, the object group and the field, e.g.
``c04/write-load/Block/params/mgFlux``; six mechanisms recognised exactly get their own key
(``_special``: K_MODAREA, K_COORD, K_COORD_NOGRID, K_GEOMTYPE, K_BLOCKGRID, K_NODEFAULT), so that
each can be handled separately.  A class that is already red in a family's *initial* state is
reported from there and not again from deeper states of that family (``base_keys``), so that the
search continues below an open defect; once /repo is repaired nothing is suppressed.
"""
import os
import re
import shutil

from mcverif import core, env, explore, observe
from mcverif.checks import c04_ops as ops

PROPERTY = "C04"
LEVEL = "model_checking"
MOD = "mcverif.checks.c04"

# ---- bounds (one place) -------------------------------------------------------------------------
# per tier and family: the alphabet of each level of the search (depth = number of levels).
# FULL = whole alphabet of c04_ops (42-48 operations), SUB2 (11-16) and SUB3 (10-14) nested subsets.
# Explored: every history of length n whose operations all belong to the level-n alphabet
# (each operation at most once per history).
LEVELS = {
    "quick": {"hex3pins": ["FULL", "SUB2"], "hexfullcu": ["FULL"], "cartq": ["FULL", "SUB2"], "cartfull": ["FULL"], "trz": ["FULL"], "hexmany": ["SUB3"]},
    "thorough": {"hex3pins": ["FULL", "FULL", "SUB3"], "hexfullcu": ["FULL", "SUB2"], "cartq": ["FULL", "FULL"], "cartfull": ["FULL", "SUB2"], "trz": ["FULL", "FULL"], "hexmany": ["FULL", "SUB3"]},
}
MAX_STATES = {"quick": None, "thorough": None}

# Derived aggregates are sums whose order of association legitimately differs after a load
# (the loader sorts children; number-density dictionaries come back in sorted nuclide order):
# mass = sum over nuclides, block volume/mass = sum over children. 1e-12 >> n*eps for n <= 60 terms.
RTOL_SUMS = 1e-12
_SUM_FIELDS = ("comp/mass", "geom/mass", "geom/volume")
# Block parameters that Core.processLoading(dbLoad=True) / setBlockMassParams() RE-COMPUTE on both
# sides as sums of nuclide masses / moles over the children (not stored values passing through):
_SUM_FIELDS_BLOCK = ("params/kgHM", "params/kgFis", "params/puFrac")
# Everything else (parameters, number densities, dimensions, temperatures, component volume/area,
# heights, locations, grids, coordinates) is a pass-through and compared bit-exact.

_GROUPS = None


def _group(clsname):
    """Object group used in violation keys."""
    global _GROUPS
    if _GROUPS is None:
        from armi.reactor import assemblies, blocks, composites, reactors
        from armi.reactor.components import Component

        _GROUPS = {}
        for name, K in composites.ArmiObject.TYPES.items():
            if issubclass(K, Component):
                g = "Component"
            elif issubclass(K, blocks.Block):
                g = "Block"
            elif issubclass(K, assemblies.Assembly):
                g = "Assembly"
            elif issubclass(K, reactors.Core):
                g = "Core"
            elif issubclass(K, reactors.Reactor):
                g = "Reactor"
            else:
                g = name
            _GROUPS[name] = g
    return _GROUPS.get(clsname, clsname)


# ---------------------------------------------------------------------------------------------
# determinism: class-level ``assigned`` masks decide which parameters the writer emits; restore
# the start-up state before every execution so that execution n cannot change what n+1 writes.

_MASKS = None


def _restore_masks():
    global _MASKS
    from armi.reactor import parameters

    if _MASKS is None:
        _MASKS = [(pd, pd.assigned) for pd in parameters.ALL_DEFINITIONS]
        return
    for pd, m in _MASKS:
        pd.assigned = m


# ---------------------------------------------------------------------------------------------
# supplementary observation (public queries obs() does not make)


def _gxyz(o):
    from armi.reactor import grids

    sl = o.spatialLocator
    if sl is None:
        return None
    try:
        if isinstance(sl, grids.MultiIndexLocation):
            return [[float(v) for v in l.getGlobalCoordinates()] for l in sl]
        return [float(v) for v in sl.getGlobalCoordinates()]
    except Exception as e:
        return "<raises %s>" % type(e).__name__


def _q(f):
    try:
        return f()
    except Exception as e:
        return "<raises %s>" % type(e).__name__


def _annotate(o, d, sort, parent=None):
    """Adds d['x'] to every node of the observation ``d`` of ``o`` (same traversal as obs())."""
    from armi.reactor import assemblies, blocks, reactors

    x = {"gxyz": _gxyz(o), "parent_ok": o.parent is parent}
    if isinstance(o, (assemblies.Assembly, blocks.Block)):
        try:
            x["location"] = str(o.getLocation())
        except Exception as e:
            x["location"] = "<raises %s>" % type(e).__name__
    if isinstance(o, assemblies.Assembly) and isinstance(parent, reactors.Core):
        x["byName"] = _q(lambda: parent.getAssemblyByName(o.getName()) is o)
        x["byLocator"] = _q(lambda: parent.childrenByLocator.get(o.spatialLocator) is o)
        x["byLocation"] = _q(lambda: parent.getAssemblyWithStringLocation(o.getLocation()) is o)
    if isinstance(o, blocks.Block) and o.core is not None:
        x["byName"] = _q(lambda: o.core.getBlockByName(o.getName()) is o)
    d["x"] = x
    kids = sorted(o) if sort else list(o)
    if len(kids) != len(d["children"]):
        raise RuntimeError("annotate: traversal diverged from obs()")
    for c, dc in zip(kids, d["children"]):
        _annotate(c, dc, sort, o)


def _observe(r, sort):
    d = observe.obs(r, persistent_only=True, sort_children=sort)
    _annotate(r, d, sort)
    return d


def _is_sorted(o):
    kids = list(o)
    if kids != sorted(kids):
        return False
    return all(_is_sorted(c) for c in kids)


def _ranked_digest(d):
    """Digest of an observation with serial numbers replaced by their rank."""
    nodes = []

    def walk(n):
        nodes.append(n)
        for c in n["children"]:
            walk(c)

    walk(d)
    order = {s: i for i, s in enumerate(sorted(n["serial"] for n in nodes))}
    saved = [n["serial"] for n in nodes]
    for n in nodes:
        n["serial"] = order[n["serial"]]
    try:
        return observe.digest(d)
    finally:
        for n, s in zip(nodes, saved):
            n["serial"] = s


# ---------------------------------------------------------------------------------------------
# comparison and classification

_IDX = re.compile(r"\[\d+\]")
_LINE = re.compile(r"^(/[^:]*): (.*)$", re.S)


def _local(n):
    return {k: v for k, v in n.items() if k != "children"}


def _same_text(x, y):
    """np.str_ is a str: the numpy flavour of a name / nuclide key is not part of the observation."""
    return isinstance(x, str) and isinstance(y, str) and str(x) == str(y)


K_MODAREA = "modarea-none-loads-as-zero"
K_COORD = "coordinate-location-loads-as-index-location"
K_COORD_NOGRID = "gridless-coordinate-location-loads-onto-parent-grid"
K_GEOMTYPE = "grid-geomtype-hex-corners-up-loads-as-hex"
K_BLOCKGRID = "block-grid-anchored-to-other-object-in-memory"
K_NODEFAULT = "partially-assigned-nodefault-parameter-not-written"
_LOCFIELDS = ("loc/kind", "loc/xyz", "loc/idx", "x/gxyz")


def _special(group, field, detail, a, b):
    """Mechanisms recognised exactly in the write-load relation (own key each) -> key suffix or None."""
    if group == "Component":
        if field in ("params/modArea", "comp/dims/modArea", "comp/dims/modArea@hot") and detail == "None vs 0":
            return K_MODAREA
        la, lb = a.get("loc") or {}, b.get("loc") or {}
        if la.get("kind") == "coord" and la.get("grid") is None and lb.get("grid") == "parent":
            # a component that is in no grid although its block has one (Cartesian blocks) is
            # put into the block's grid by the loader (as index or as coordinate location)
            if field in _LOCFIELDS + ("loc/grid",):
                return K_COORD_NOGRID
        elif la.get("kind") == "coord" and lb.get("kind") == "index":
            # a free coordinate written as type 'C' comes back as grid[(x, y, z)] of the parent
            if field in _LOCFIELDS:
                return K_COORD
    if field.startswith("params/") and detail.endswith(" vs '<raises ParameterError>'") and not detail.startswith("'<raises"):
        # assigned in memory, undefined after the load: the writer drops a whole column as soon
        # as one object of the class has no value and the parameter has no default
        return K_NODEFAULT
    if field == "grid/reduce" and detail == "'hex_corners_up' vs 'hex'":
        return K_GEOMTYPE
    if group == "Block" and field == "grid/owner_ok" and detail == "False vs True":
        return K_BLOCKGRID
    return None


def compare(a, b, relation, path="", out=None, tainted=None):
    """Walks two observations in parallel. -> list of (key, message).

    ``tainted``: {node path: key} filled by the write-load relation for nodes whose free
    coordinate came back as an index location; the later relations (which start from that
    loaded reactor) attribute location differences of the same nodes to the same key.
    """
    if out is None:
        out = []
    if tainted is None:
        tainted = {}
    grp = _group(a.get("cls"))
    here = "%s/%s" % (path, a.get("name")) if path else str(a.get("name"))
    la, lb = _local(a), _local(b)
    for ln in observe.diff(la, lb, limit=100000):
        m = _LINE.match(ln)
        p, detail = (m.group(1), m.group(2)) if m else (ln, "")
        field = _IDX.sub("", p).strip("/")
        if field.startswith("comp/nd/"):
            field = "comp/nd"
        if field.startswith("x/gxyz"):
            field = "x/gxyz"
        if " vs " in detail:
            va, vb = _dig(la, p), _dig(lb, p)
            if _same_text(va, vb):
                continue
            if (field in _SUM_FIELDS or (grp == "Block" and field in _SUM_FIELDS_BLOCK)) and not observe.diff(va, vb, rtol=RTOL_SUMS):
                continue
        sp = None
        if relation == "write-load":
            sp = _special(grp, field, detail, a, b)
            if sp in (K_COORD, K_COORD_NOGRID):
                tainted[here] = sp
        elif here in tainted and field in _LOCFIELDS + ("loc/grid",):
            sp = tainted[here]
        key = "c04/" + sp if sp else "c04/%s/%s/%s" % (relation, grp, field)
        out.append((key, "%s [%s] %s: %s" % (here, a.get("cls"), p, detail[:160])))
    ca, cb = a["children"], b["children"]
    if len(ca) != len(cb):
        out.append(("c04/%s/%s/children-count" % (relation, grp), "%s [%s]: %d vs %d children" % (here, a.get("cls"), len(ca), len(cb))))
    for x, y in zip(ca, cb):
        compare(x, y, relation, here, out, tainted)
    return out


def _dig(d, p):
    """Value at diff path ``p`` ('/a/b[1]/c') of nested dict/list ``d``."""
    cur = d
    for tok in re.findall(r"/([^/\[]+)|\[(\d+)\]", p):
        cur = cur[tok[0]] if tok[0] else cur[int(tok[1])]
    return cur


# ---------------------------------------------------------------------------------------------
# the round trip on the real Database


def _write(r, fname):
    from armi.bookkeeping.db.database import Database

    db = Database(fname, "w")
    db.open()
    try:
        db.writeToDB(r)
    finally:
        db.close(True)


def _load(fname, cycle, node, cs, bp):
    from armi.bookkeeping.db.database import Database

    db = Database(fname, "r")
    db.open()
    try:
        return db.load(cycle, node, cs=cs, bp=bp)
    finally:
        db.close()


class Unwritable(Exception):
    """The writer refused the original state (value kinds the format cannot hold: C05's domain)."""


class Live:
    """The database of ONE execution: opened once, written at every ``write`` transition and at the
    final state of the same live reactor (as the DatabaseInterface does node after node)."""

    def __init__(self):
        self.dir = env.fresh_dir("c04")
        self.db = None
        self.snaps = []  # (cycle, node, observation of the in-memory reactor at that moment)

    def _in_dir(self, f):
        cwd = os.getcwd()
        os.chdir(self.dir)
        try:
            return f()
        finally:
            os.chdir(cwd)

    def write(self, r):
        from armi.bookkeeping.db.database import Database

        if self.db is None:
            self.db = Database("a.h5", "w")
            self._in_dir(self.db.open)
        try:
            self.db.writeToDB(r)
        except (TypeError, ValueError) as e:
            ex = Unwritable(type(e).__name__)
            ex.detail = str(e)[:160]
            raise ex

    def snapshot(self, r):
        """The ``write`` transition: write now, remember what was written, go to the next node."""
        cyc, node = int(r.p.cycle), int(r.p.timeNode)
        self.write(r)
        r.core.setBlockMassParams()  # same calibration as in the final state
        self.snaps.append((cyc, node, _observe(r, True)))
        r.p.timeNode = node + 1

    def close(self):
        if self.db is not None:
            self._in_dir(lambda: self.db.close(True))
            self.db = None

    def cleanup(self):
        try:
            self.close()
        except Exception:
            pass
        shutil.rmtree(self.dir, ignore_errors=True)


def check_state(r, cs, bp, live=None):
    """-> (list of (key,msg), canon digest, loaded digest, stats)"""
    found = []
    live = live or Live()
    x = y = z = None
    earlier = []
    try:
        cyc, node = int(r.p.cycle), int(r.p.timeNode)
        live.write(r)
        live.close()
        cwd = os.getcwd()
        os.chdir(live.dir)
        try:
            try:
                x = _load("a.h5", cyc, node, cs, bp)
                y = _load("a.h5", cyc, node, cs, bp)
            except Exception as e:
                found.append(("c04/load-raises/" + type(e).__name__, "loading the file just written raises %r" % (e,)))
            if x is not None and y is not None:
                try:
                    _write(x, "b.h5")
                    z = _load("b.h5", cyc, node, cs, bp)
                except Exception as e:
                    found.append(("c04/rewrite-load-raises/" + type(e).__name__, "writing the loaded reactor and loading that file raises %r" % (e,)))
            # every earlier snapshot of the same file must still load to what was written then
            for c0, n0, o0 in live.snaps:
                try:
                    earlier.append((c0, n0, o0, _load("a.h5", c0, n0, cs, bp)))
                except Exception as e:
                    found.append(("c04/load-raises/" + type(e).__name__, "loading the earlier snapshot (%d,%d) of the same file raises %r" % (c0, n0, e)))
        finally:
            os.chdir(cwd)
    finally:
        live.cleanup()
    # calibration (DESIGN 4/C04): the loader recomputes kgHM/kgFis/puFrac from the loaded
    # composition; bring the original to the same footing through the same public call.
    r.core.setBlockMassParams()
    oa = _observe(r, True)
    canon = _ranked_digest(oa)
    for c0, n0, o0, x0 in earlier:
        for key, msg in compare(o0, _observe(x0, True), "write-load"):
            found.append((key, "snapshot (%d,%d) written earlier in the history: %s" % (c0, n0, msg)))
    if x is None or y is None:
        return found, canon, None, {"nodes": _count(oa)}
    if _is_sorted(x):
        ox = oxs = _observe(x, False)
    else:
        found.append(("c04/loaded-children-not-sorted", "children of the loaded reactor are not in sorted order although sortReactor is on"))
        ox, oxs = _observe(x, False), _observe(x, True)
    tainted = {}
    found += compare(oa, oxs, "write-load", tainted=tainted)
    gx = observe.digest(ox)
    oy = _observe(y, False)
    if observe.digest(oy) != gx:
        found += compare(ox, oy, "load-twice", tainted=tainted)
    if z is not None:
        oz = _observe(z, False)
        if observe.digest(oz) != gx:
            found += compare(ox, oz, "rewrite-load", tainted=tainted)
    if x is y or x.core is y.core:
        found.append(("c04/load-twice/shared-objects", "two loads returned the same objects"))
    return found, canon, _ranked_digest(oxs), {"nodes": _count(oa)}


def _count(d):
    return 1 + sum(_count(c) for c in d["children"])


# ---------------------------------------------------------------------------------------------
# explorer plumbing


def _raised_file():
    return os.path.join(env.run_root(), "c04_mutation_raised.jsonl")


def _note_raised(init, hist, exc, kind="mutation_raised"):
    import json

    with open(_raised_file(), "a") as f:
        f.write(json.dumps({"kind": kind, "family": init["family"], "history": hist, "exception": "%s: %s" % (exc if kind == "unwritable" else type(exc).__name__, getattr(exc, "detail", str(exc)[:160]))}) + "\n")


def expand(item):
    _restore_masks()
    init = item["init"]
    r, cs, bp, tg = ops.build_state(init)
    out = "ok"
    live = Live()
    for k, op in enumerate(item["hist"]):
        if k == len(item["hist"]) - 1:
            # observers may leave caches behind (grid.reduce(), volume, lookups): look at the
            # reactor through the same public queries BEFORE the last mutation as well
            _observe(r, True)
        try:
            if op[0] == "write":
                live.snapshot(r)
                out = "ok"
            else:
                out = ops.apply(r, cs, tg, op)
        except ops.AlphabetError:
            live.cleanup()
            raise
        except Unwritable as e:
            live.cleanup()
            _note_raised(init, item["hist"], e, kind="unwritable")
            return {"canon": "unwritable:%s:%s" % (e, item["hist"]), "full": None, "viols": [], "ops": [], "out": "unwritable:%s" % e, "terminal": True, "suppressed": {}, "nodes": 0}
        except Exception as e:
            # The MUTATION itself raised (e.g. Assembly.moveTo scaling a dict-valued volume-integrated
            # parameter). That is not the database round trip C04 is about: the history is recorded
            # as outcome raised:<Exc>, not judged and not extended. Only write/load/compare decide C04.
            out = "raised:%s" % type(e).__name__
            live.cleanup()
            if k < len(item["hist"]) - 1:
                raise RuntimeError("prefix replay diverged: operation %d of %s raised %r" % (k, item["hist"], e))
            _note_raised(init, item["hist"], e)
            return {"canon": "raised:%s" % item["hist"], "full": None, "viols": [], "ops": [], "out": out, "terminal": True, "suppressed": {}, "nodes": 0}
        if k < len(item["outs"]) and out != item["outs"][k]:
            raise RuntimeError("prefix replay diverged at %d: %s != %s" % (k, out, item["outs"][k]))
    try:
        found, canon, loaded, st = check_state(r, cs, bp, live)
    except Unwritable as e:
        # not a C04 question: nothing was saved. The state is counted and not extended.
        _note_raised(init, item["hist"], e, kind="unwritable")
        return {"canon": "unwritable:%s:%s" % (e, item["hist"]), "full": None, "viols": [], "ops": [], "out": "unwritable:%s" % e, "terminal": True, "suppressed": {}, "nodes": 0}
    base = set(init.get("base_keys", ()))
    case = {"init": {k: v for k, v in init.items() if k not in ("base_keys", "levels")}, "hist": item["hist"], "outs": list(item["outs"][: max(0, len(item["hist"]) - 1)]) + ([out] if item["hist"] else [])}
    viols, seen, suppressed = [], {}, {}
    for key, msg in found:
        if key in base:
            suppressed[key] = suppressed.get(key, 0) + 1
            continue
        seen.setdefault(key, []).append(msg)
    for key, msgs in seen.items():
        viols.append(core.viol(key, "%s after history %s: %s%s" % (init["family"], item["hist"], msgs[0], " (+%d more of this class in this state)" % (len(msgs) - 1) if len(msgs) > 1 else ""), case))
    terminal = len(item["hist"]) >= len(init.get("levels") or ["FULL"])
    return {"canon": canon, "full": loaded, "viols": viols, "ops": [] if terminal else ops.enabled(init, item["hist"], tg), "out": out, "terminal": terminal, "suppressed": suppressed, "nodes": st["nodes"]}


def evaluate(case):
    return expand({"init": case["init"], "hist": case["hist"], "outs": case.get("outs", [])})["viols"]


def selftest():
    """Sensitivity of the comparison: each deliberate perturbation of a second build of the same
    reactor must be reported under the expected key; two unperturbed builds must compare equal
    apart from serial numbers. Raises RuntimeError (harness error) otherwise."""
    from armi.reactor import grids

    def mk():
        _restore_masks()
        r, cs, bp, tg = ops.build_state({"family": "hex3pins"})
        return r, tg

    def keys(a, b):
        return {k for k, _ in compare(a, b, "write-load")}

    r0, _ = mk()
    o0 = _observe(r0, True)
    r1, _ = mk()
    same = keys(o0, _observe(r1, True))
    if same - {"c04/write-load/%s/serial" % g for g in ("Reactor", "Core", "SpentFuelPool", "Assembly", "Block", "Component")}:
        raise RuntimeError("c04 selftest: two builds of the same spec differ: %s" % sorted(same))
    if not same:
        raise RuntimeError("c04 selftest: comparison is blind to serial numbers")

    def p_name(r, tg):
        tg["B0"].name = "B9999-000"

    def p_nd(r, tg):
        c = tg["K0.fuel"]
        c.setNumberDensity("U235", c.getNumberDensity("U235") * (1 + 1e-9))

    def p_param(r, tg):
        tg["B2"].p.power = 1e-9

    def p_pin(r, tg):
        c = tg["K0.fuel"]
        locs = list(c.spatialLocator)
        ml = grids.MultiIndexLocation(c.parent.spatialGrid)
        ml.extend(locs[:-1] + [c.parent.spatialGrid[2, 0, 0]])
        c.spatialLocator = ml

    def p_coord(r, tg):
        c = tg["K1.duct"]
        c.spatialLocator = grids.CoordinateLocation(1e-7, 0.0, 0.0, c.spatialLocator.grid)

    def p_link(r, tg):
        c = tg["K0.bond"]
        c.p.id = c.getDimension("id", cold=True)

    def p_temp(r, tg):
        tg["K2.clad"].setTemperature(470.5)

    def p_order(r, tg):
        a = tg["A0"]
        kids = list(a)
        kids[0].spatialLocator, kids[1].spatialLocator = kids[1].spatialLocator, kids[0].spatialLocator

    def p_gridoffset(r, tg):
        import numpy as np

        tg["P"].spatialGrid.offset = np.array([25.0, 25.0, 1e-6])

    expect = [
        (p_name, "c04/write-load/Block/name"),
        (p_nd, "c04/write-load/Component/comp/nd"),
        (p_param, "c04/write-load/Block/params/power"),
        (p_pin, "c04/write-load/Component/loc/idx"),
        (p_coord, "c04/write-load/Component/x/gxyz"),
        (p_link, "c04/write-load/Component/comp/dims/id"),
        (p_temp, "c04/write-load/Component/comp/T"),
        (p_order, "c04/write-load/Block/params/xsType"),
        (p_gridoffset, "c04/write-load/SpentFuelPool/grid/reduce"),
    ]
    for f, want in expect:
        r2, tg = mk()
        f(r2, tg)
        got = keys(o0, _observe(r2, True))
        if want not in got:
            raise RuntimeError("c04 selftest: perturbation %s not reported as %s (got %s)" % (f.__name__, want, sorted(k for k in got if not k.endswith("/serial"))[:8]))
    return len(expect)


def run(ctx):
    tier = "quick" if ctx.quick else "thorough"
    if os.path.exists(_raised_file()):
        os.remove(_raised_file())
    ctx.count("selftest_perturbations_detected", selftest())
    inits = [{"family": f, "seed": ctx.seed} for f in ops.FAMILIES]
    # pre-pass: the initial states. Violation classes already present there are reported from there
    # (shortest counterexample) and not reported again from deeper states, so that the search can
    # go on below them; nothing is suppressed that is not red at the root of the same family.
    roots = core.pmap(MOD, "expand", [{"init": i, "hist": [], "outs": []} for i in inits])
    total = {}
    inits2 = []
    for init, res in zip(inits, roots):
        ctx.add_violations(res["viols"])
        base = sorted({v["key"] for v in res["viols"]})
        for k in base:
            ctx.count("root_class:" + k)
        ctx.count("tree_nodes_" + init["family"], res["nodes"])
        inits2.append(dict(init, base_keys=base, levels=LEVELS[tier][init["family"]]))
    st = explore.bfs(ctx, MOD, inits2, depth=max(len(v) for v in LEVELS[tier].values()), max_states=MAX_STATES[tier])
    explore.merge_stats(total, st)
    for o, n in st["ops"].items():
        ctx.count("op_" + o, n)
    for o, n in st["outcomes"].items():
        ctx.count("outcome_" + o, n)
    raised = []
    if os.path.exists(_raised_file()):
        import json

        with open(_raised_file()) as f:
            raised = [json.loads(l) for l in f if l.strip()]
    unwritable = [x for x in raised if x.get("kind") == "unwritable"]
    raised = [x for x in raised if x.get("kind") != "unwritable"]
    ctx.count("mutation_raised", len(raised))
    ctx.count("unwritable", len(unwritable))
    ctx.coverage["mutation_raised"] = raised[:40]
    ctx.coverage["unwritable"] = unwritable[:40]
    if raised:
        ctx.notes.append("%d histories end in a mutation operation that itself raises (listed under mutation_raised; not judged, not extended). Whether e.g. Assembly.moveTo should cope with list/dict-valued volume-integrated block parameters is outside C04's statement." % len(raised))
    explore.finish(ctx, total, extra={"levels": LEVELS[tier], "families": list(ops.FAMILIES), "alphabet_size": {f: {n: len(ops.alphabet({"family": f, "levels": [n]})) for n in ("FULL", "SUB2", "SUB3")} for f in ops.FAMILIES}})
    ctx.coverage["database_round_trips"] = 5 * (total.get("traces", 0) + len(roots))
    ctx.coverage["exhaustive"] = True  # every history within the stated level alphabets was executed
    ctx.coverage["closure_reached"] = False  # bounded depth, not a fixed point of the state space
    ctx.assumptions += [
        "states = every history of length n <= depth whose operations all belong to the level-n alphabet (coverage.levels; FULL/SUB2/SUB3 of c04_ops, each operation at most once per history) on 5 generated reactors (3-9 assemblies x 2 blocks x 2-6 components + 1 pool assembly each): hex third core with blueprint pin lattice, hex full core corners-up, Cartesian quarter and full core, theta-R-Z quarter core",
        "a state the writer itself refuses (TypeError/ValueError while writing the original) is counted as outcome 'unwritable' and not judged: nothing was saved (value encodability is C05)",
        "parameter values / temperatures / dimensions come from a finite table (one value per kind and object class)",
        "same settings object and same blueprints object for write and load; database files written by this ARMI version only",
        "mass, block volume and the block parameters kgHM/kgFis/puFrac that both sides recompute (sums associated in a different order after a load: sorted children, sorted nuclide keys) compared to rtol 1e-12, everything else bit-exact",
        "violation classes red in a family's initial state are reported there and not re-reported from deeper states of that family",
    ]
