"""C04 - a reactor saved to the database loads back observationally equal.

Model checking: explicit-state BFS over histories of state mutations (c04_ops.py) of reactors built
from generated blueprints (hex third core with pin lattice, hex full core corners-up, Cartesian
quarter and full core; each with a spent fuel pool holding one assembly).  In EVERY reached state
the real ``armi.bookkeeping.db.database.Database`` is driven:

    f1 = write(r);  x = load(f1);  y = load(f1);  f2 = write(x);  z = load(f2)

with the same settings and blueprints, and three relations are evaluated on canonical observations
(``observe.obs(persistent_only=True)`` + the supplementary public queries of ``_annotate``):

    write-load    obs(r) == obs(x)   children in the database's documented (sorted) order
    load-twice    obs(x) == obs(y)   children in loaded order
    rewrite-load  obs(x) == obs(z)   children in loaded order

The boring reference model is the in-memory reactor itself, observed through public queries only.
Serial numbers are compared raw (the property demands equality; all reactors of one comparison live
in one execution).  Canonical form of a state: the in-memory observation with serial numbers
replaced by ranks; the differential oracle compares the *loaded* observation of two histories that
reach the same canonical state.

Violation keys name the failing relation, the object group and the field, e.g.
``c04/write-load/Block/params/mgFlux``; four mechanisms recognised exactly get their own key
(``_SPECIAL``), so that each can be handled separately.
"""
import os
import re
import shutil

from mcverif import core, env, explore, observe
from mcverif.checks import c04_ops as ops

PROPERTY = "C04"
LEVEL = "model_checking"
MOD = "mcverif.checks.c04"

# ---- bounds (one place) -------------------------------------------------------------------------
# depth per family and tier; quick: depth 1 everywhere + depth 2 for the pin-lattice hex family.
DEPTH = {
    "quick": {"hex3pins": 2, "hexfullcu": 1, "cartq": 1, "cartfull": 1},
    "thorough": {"hex3pins": 3, "hexfullcu": 2, "cartq": 2, "cartfull": 2},
}
# the third level of the thorough tier is restricted to this sub-alphabet (one op per mechanism)
MAX_STATES = {"quick": None, "thorough": 14000}

# Derived aggregates are sums whose order of association legitimately differs after a load
# (the loader sorts children; number-density dictionaries come back in sorted nuclide order):
# mass = sum over nuclides, block volume/mass = sum over children. 1e-12 >> n*eps for n <= 60 terms.
RTOL_SUMS = 1e-12
_SUM_FIELDS = ("comp/mass", "geom/mass", "geom/volume")
# Everything else (parameters, number densities, dimensions, temperatures, component volume/area,
# heights, locations, grids, coordinates) is a pass-through and compared bit-exact.

_GROUPS = None


def _group(clsname):
    """Object group used in violation keys."""
    global _GROUPS
    if _GROUPS is None:
        from armi.reactor import assemblies, blocks, composites, reactors
        from armi.reactor.components import Component

        _GROUPS = {}
        for name, K in composites.ArmiObject.TYPES.items():
            if issubclass(K, Component):
                g = "Component"
            elif issubclass(K, blocks.Block):
                g = "Block"
            elif issubclass(K, assemblies.Assembly):
                g = "Assembly"
            elif issubclass(K, reactors.Core):
                g = "Core"
            elif issubclass(K, reactors.Reactor):
                g = "Reactor"
            else:
                g = name
            _GROUPS[name] = g
    return _GROUPS.get(clsname, clsname)


# ---------------------------------------------------------------------------------------------
# determinism: class-level ``assigned`` masks decide which parameters the writer emits; restore
# the start-up state before every execution so that execution n cannot change what n+1 writes.

_MASKS = None


def _restore_masks():
    global _MASKS
    from armi.reactor import parameters

    if _MASKS is None:
        _MASKS = [(pd, pd.assigned) for pd in parameters.ALL_DEFINITIONS]
        return
    for pd, m in _MASKS:
        pd.assigned = m


# ---------------------------------------------------------------------------------------------
# supplementary observation (public queries obs() does not make)


def _gxyz(o):
    from armi.reactor import grids

    sl = o.spatialLocator
    if sl is None:
        return None
    try:
        if isinstance(sl, grids.MultiIndexLocation):
            return [[float(v) for v in l.getGlobalCoordinates()] for l in sl]
        return [float(v) for v in sl.getGlobalCoordinates()]
    except Exception as e:
        return "<raises %s>" % type(e).__name__


def _q(f):
    try:
        return f()
    except Exception as e:
        return "<raises %s>" % type(e).__name__


def _annotate(o, d, sort, parent=None):
    """Adds d['x'] to every node of the observation ``d`` of ``o`` (same traversal as obs())."""
    from armi.reactor import assemblies, blocks, reactors

    x = {"gxyz": _gxyz(o), "parent_ok": o.parent is parent}
    if isinstance(o, (assemblies.Assembly, blocks.Block)):
        try:
            x["location"] = str(o.getLocation())
        except Exception as e:
            x["location"] = "<raises %s>" % type(e).__name__
    if isinstance(o, assemblies.Assembly) and isinstance(parent, reactors.Core):
        x["byName"] = _q(lambda: parent.getAssemblyByName(o.getName()) is o)
        x["byLocator"] = _q(lambda: parent.childrenByLocator.get(o.spatialLocator) is o)
        x["byLocation"] = _q(lambda: parent.getAssemblyWithStringLocation(o.getLocation()) is o)
    if isinstance(o, blocks.Block) and o.core is not None:
        x["byName"] = _q(lambda: o.core.getBlockByName(o.getName()) is o)
    d["x"] = x
    kids = sorted(o) if sort else list(o)
    if len(kids) != len(d["children"]):
        raise RuntimeError("annotate: traversal diverged from obs()")
    for c, dc in zip(kids, d["children"]):
        _annotate(c, dc, sort, o)


def _observe(r, sort):
    d = observe.obs(r, persistent_only=True, sort_children=sort)
    _annotate(r, d, sort)
    return d


def _is_sorted(o):
    kids = list(o)
    if kids != sorted(kids):
        return False
    return all(_is_sorted(c) for c in kids)


def _ranked_digest(d):
    """Digest of an observation with serial numbers replaced by their rank."""
    nodes = []

    def walk(n):
        nodes.append(n)
        for c in n["children"]:
            walk(c)

    walk(d)
    order = {s: i for i, s in enumerate(sorted(n["serial"] for n in nodes))}
    saved = [n["serial"] for n in nodes]
    for n in nodes:
        n["serial"] = order[n["serial"]]
    try:
        return observe.digest(d)
    finally:
        for n, s in zip(nodes, saved):
            n["serial"] = s


# ---------------------------------------------------------------------------------------------
# comparison and classification

_IDX = re.compile(r"\[\d+\]")
_LINE = re.compile(r"^(/[^:]*): (.*)$", re.S)


def _local(n):
    return {k: v for k, v in n.items() if k != "children"}


def _normstr(v):
    """np.str_ is a str: the numpy flavour of a name is not part of the observation."""
    if isinstance(v, str):
        return str(v)
    if isinstance(v, list):
        return [_normstr(x) for x in v]
    if isinstance(v, dict):
        return {str(k): _normstr(x) for k, x in v.items()}
    return v


K_MODAREA = "modarea-none-loads-as-zero"
K_COORD = "coordinate-location-loads-as-index-location"
K_COORD_NOGRID = "gridless-coordinate-location-loads-onto-parent-grid"
K_GEOMTYPE = "grid-geomtype-hex-corners-up-loads-as-hex"
K_BLOCKGRID = "block-grid-anchored-to-other-object-in-memory"


def _special(group, field, detail, a, b):
    """Mechanisms recognised exactly (own key each). Returns key suffix or None."""
    if group == "Component":
        if field in ("params/modArea", "comp/dims/modArea", "comp/dims/modArea@hot") and detail == "None vs 0":
            return K_MODAREA
        la, lb = a.get("loc") or {}, b.get("loc") or {}
        if la.get("kind") == "coord" and lb.get("kind") == "index":
            # a free coordinate written as type 'C' comes back as grid[(x, y, z)] of the parent
            if la.get("grid") is None:
                if field in ("loc/kind", "loc/xyz", "loc/idx", "loc/grid", "x/gxyz"):
                    return K_COORD_NOGRID
            elif field in ("loc/kind", "loc/xyz", "loc/idx", "x/gxyz"):
                return K_COORD
    if field == "grid/reduce" and detail == "'hex_corners_up' vs 'hex'":
        return K_GEOMTYPE
    if group == "Block" and field == "grid/owner_ok" and detail == "False vs True":
        return K_BLOCKGRID
    return None


def compare(a, b, relation, path="", out=None):
    """Walks two observations in parallel. -> list of (key, message)."""
    if out is None:
        out = []
    grp = _group(a.get("cls"))
    here = "%s/%s" % (path, a.get("name")) if path else str(a.get("name"))
    la, lb = _normstr(_local(a)), _normstr(_local(b))
    lines = observe.diff(la, lb, limit=100000)
    for ln in lines:
        m = _LINE.match(ln)
        p, detail = (m.group(1), m.group(2)) if m else (ln, "")
        field = _IDX.sub("", p).strip("/")
        if field.startswith("comp/nd/"):
            field = "comp/nd"
        if field.startswith("x/gxyz"):
            field = "x/gxyz"
        if any(field == f for f in _SUM_FIELDS):
            if not observe.diff(_dig(la, p), _dig(lb, p), rtol=RTOL_SUMS):
                continue
        sp = _special(grp, field, detail, a, b) if relation == "write-load" else None
        key = "c04/" + sp if sp else "c04/%s/%s/%s" % (relation, grp, field)
        out.append((key, "%s [%s] %s: %s" % (here, a.get("cls"), p, detail[:160])))
    ca, cb = a["children"], b["children"]
    if len(ca) != len(cb):
        out.append(("c04/%s/%s/children-count" % (relation, grp), "%s [%s]: %d vs %d children" % (here, a.get("cls"), len(ca), len(cb))))
    for x, y in zip(ca, cb):
        compare(x, y, relation, here, out)
    return out


def _dig(d, p):
    """Value at diff path ``p`` ('/a/b[1]/c') of nested dict/list ``d``."""
    cur = d
    for tok in re.findall(r"/([^/\[]+)|\[(\d+)\]", p):
        cur = cur[tok[0]] if tok[0] else cur[int(tok[1])]
    return cur


# ---------------------------------------------------------------------------------------------
# the round trip on the real Database


def _write(r, fname):
    from armi.bookkeeping.db.database import Database

    db = Database(fname, "w")
    db.open()
    try:
        db.writeToDB(r)
    finally:
        db.close(True)


def _load(fname, cycle, node, cs, bp):
    from armi.bookkeeping.db.database import Database

    db = Database(fname, "r")
    db.open()
    try:
        return db.load(cycle, node, cs=cs, bp=bp)
    finally:
        db.close()


def check_state(r, cs, bp):
    """-> (list of (key,msg), canon digest, loaded digest, stats)"""
    found = []
    d = env.fresh_dir("c04")
    cwd = os.getcwd()
    os.chdir(d)
    try:
        cyc, node = int(r.p.cycle), int(r.p.timeNode)
        _write(r, "a.h5")
        x = _load("a.h5", cyc, node, cs, bp)
        y = _load("a.h5", cyc, node, cs, bp)
        _write(x, "b.h5")
        z = _load("b.h5", cyc, node, cs, bp)
    finally:
        os.chdir(cwd)
        shutil.rmtree(d, ignore_errors=True)
    # calibration (DESIGN 4/C04): the loader recomputes kgHM/kgFis/puFrac from the loaded
    # composition; bring the original to the same footing through the same public call.
    r.core.setBlockMassParams()
    oa = _observe(r, True)
    if _is_sorted(x):
        ox = oxs = _observe(x, False)
    else:
        found.append(("c04/loaded-children-not-sorted", "children of the loaded reactor are not in sorted order although sortReactor is on"))
        ox, oxs = _observe(x, False), _observe(x, True)
    oy = _observe(y, False)
    oz = _observe(z, False)
    found += compare(oa, oxs, "write-load")
    found += compare(ox, oy, "load-twice")
    found += compare(ox, oz, "rewrite-load")
    if x is y or x.core is y.core:
        found.append(("c04/load-twice/shared-objects", "two loads returned the same objects"))
    return found, _ranked_digest(oa), _ranked_digest(oxs), {"nodes": _count(oa)}


def _count(d):
    return 1 + sum(_count(c) for c in d["children"])


# ---------------------------------------------------------------------------------------------
# explorer plumbing


def expand(item):
    _restore_masks()
    init = item["init"]
    r, cs, bp, tg = ops.build_state(init)
    out = "ok"
    for k, op in enumerate(item["hist"]):
        out = ops.apply(r, cs, tg, op)
        if k < len(item["outs"]) and out != item["outs"][k]:
            raise RuntimeError("prefix replay diverged at %d: %s != %s" % (k, out, item["outs"][k]))
    found, canon, loaded, st = check_state(r, cs, bp)
    base = set(init.get("base_keys", ()))
    case = {"init": {k: v for k, v in init.items() if k not in ("base_keys", "depth")}, "hist": item["hist"], "outs": list(item["outs"][: max(0, len(item["hist"]) - 1)]) + ([out] if item["hist"] else [])}
    viols, seen, suppressed = [], {}, {}
    for key, msg in found:
        if key in base:
            suppressed[key] = suppressed.get(key, 0) + 1
            continue
        seen.setdefault(key, []).append(msg)
    for key, msgs in seen.items():
        viols.append(core.viol(key, "%s after history %s: %s%s" % (init["family"], item["hist"], msgs[0], " (+%d more of this class in this state)" % (len(msgs) - 1) if len(msgs) > 1 else ""), case))
    terminal = len(item["hist"]) >= init.get("depth", 99)
    return {"canon": canon, "full": loaded, "viols": viols, "ops": [] if terminal else ops.enabled(init, item["hist"], tg), "out": out, "terminal": terminal, "suppressed": suppressed, "nodes": st["nodes"]}


def evaluate(case):
    return expand({"init": case["init"], "hist": case["hist"], "outs": case.get("outs", [])})["viols"]


def run(ctx):
    tier = "quick" if ctx.quick else "thorough"
    inits = [{"family": f} for f in ops.FAMILIES]
    # pre-pass: the initial states. Violation classes already present there are reported from there
    # (shortest counterexample) and not reported again from deeper states, so that the search can
    # go on below them; nothing is suppressed that is not red at the root of the same family.
    roots = core.pmap(MOD, "expand", [{"init": i, "hist": [], "outs": []} for i in inits])
    total = {}
    inits2 = []
    for init, res in zip(inits, roots):
        ctx.add_violations(res["viols"])
        base = sorted({v["key"] for v in res["viols"]})
        for k in base:
            ctx.count("root_class:" + k)
        ctx.count("tree_nodes_" + init["family"], res["nodes"])
        inits2.append(dict(init, base_keys=base, depth=DEPTH[tier][init["family"]]))
    st = explore.bfs(ctx, MOD, inits2, depth=max(DEPTH[tier].values()), max_states=MAX_STATES[tier])
    explore.merge_stats(total, st)
    for o, n in st["ops"].items():
        ctx.count("op_" + o, n)
    for o, n in st["outcomes"].items():
        ctx.count("outcome_" + o, n)
    explore.finish(ctx, total, extra={"depth": DEPTH[tier], "families": list(ops.FAMILIES), "alphabet_size": {f: len(ops.alphabet({"family": f})) for f in ops.FAMILIES}})
    ctx.coverage["database_round_trips"] = total.get("traces", 0) + len(roots)
    ctx.assumptions += [
        "states = histories of at most DEPTH operations from the c04_ops alphabet (each operation at most once per history) on 4 generated reactors (3-9 assemblies x 2 blocks x 4-6 components + 1 pool assembly); theta-R-Z not covered",
        "parameter values / temperatures / dimensions come from a finite table (one value per kind and object class)",
        "same settings object and same blueprints object for write and load; database files written by this ARMI version only",
        "mass and block volume (sums associated in a different order after a load) compared to rtol 1e-12, everything else bit-exact",
        "violation classes red in a family's initial state are reported there and not re-reported from deeper states of that family",
    ]
