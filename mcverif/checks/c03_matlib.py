"""Run-time discovery of the ARMI material library (shared by C03 and C19).

Nothing here lists materials by name except the *exclusions*: the abstract bases and the two
placeholders that the property statements themselves set apart (Custom: user-defined composition;
Void: empty by definition).  Every other ``Material`` subclass defined in a module of the
``armi.materials`` package is a library material and is picked up automatically.
"""
import importlib
import inspect
import pkgutil

DEFAULT_RANGE_C = (20.0, 800.0)  # DESIGN C03: used when a material states no range for the property
C_TO_K = 273.15

# classes that are not library materials: bases meant to be subclassed
ABSTRACT = {
    "Material": "abstract base",
    "Fluid": "abstract base",
    "SimpleSolid": "abstract base",
    "FuelMaterial": "abstract base",
    "_Mixture": "homogenisation helper base (no composition of its own)",
    "Water": "abstract base: density raises NotImplementedError('use a concrete instance')",
}


def classes():
    """{class name: class} of every Material subclass defined in the armi.materials package."""
    import armi.materials
    from armi.materials import material

    found = {}
    for mi in sorted(pkgutil.walk_packages(armi.materials.__path__, "armi.materials."), key=lambda m: m.name):
        if ".tests" in mi.name or mi.name.endswith(".tests"):
            continue
        mod = importlib.import_module(mi.name)
        for name, obj in sorted(vars(mod).items()):
            if inspect.isclass(obj) and issubclass(obj, material.Material) and obj.__module__ == mod.__name__:
                if obj.__name__ in found and found[obj.__name__] is not obj:
                    raise RuntimeError("two material classes named %s" % obj.__name__)
                found[obj.__name__] = obj
    return found


def kind(cls):
    """'abstract' | 'custom' | 'void' | 'fluid' | 'solid'."""
    from armi.materials import custom, material, void

    if cls.__name__ in ABSTRACT:
        return "abstract"
    if issubclass(cls, custom.Custom):
        return "custom"
    if issubclass(cls, void.Void):
        return "void"
    if issubclass(cls, material.Fluid):
        return "fluid"
    return "solid"


def discover():
    """Sorted list of (name, kind)."""
    return sorted((n, kind(c)) for n, c in classes().items())


def make(name):
    return classes()[name]()


_CLASSES = None


def cls_of(name):
    global _CLASSES
    if _CLASSES is None:
        _CLASSES = classes()
    return _CLASSES[name]


def stated_range_C(name, method):
    """Range (lo, hi) in Celsius over which the material itself states ``method`` to be valid.

    Found by calling the method once on a fresh instance with ``checkPropertyTempRange`` replaced by a
    recorder: the labels it asks about index ``propertyValidTemperature``.  Several labels -> the
    intersection.  None asked -> (DEFAULT_RANGE_C, declared=False).
    Returns (lo, hi, labels, declared).
    """
    inst = cls_of(name)()
    labels = []
    inst.checkPropertyTempRange = lambda label, val: labels.append(label)
    try:
        getattr(inst, method)(Tk=600.0)
    except Exception:
        pass
    lo, hi = None, None
    used = []
    for lab in labels:
        if lab in used or lab not in inst.propertyValidTemperature:
            continue
        (a, b), unit = inst.propertyValidTemperature[lab]
        unit = str(unit).strip().upper()
        if unit in ("K", "KELVIN"):
            a, b = a - C_TO_K, b - C_TO_K
        elif unit not in ("C", "CELSIUS"):
            raise RuntimeError("%s: unknown temperature unit %r for %r" % (name, unit, lab))
        lo = a if lo is None else max(lo, a)
        hi = b if hi is None else min(hi, b)
        used.append(lab)
    if lo is None or not hi > lo:
        return DEFAULT_RANGE_C[0], DEFAULT_RANGE_C[1], used, False
    return float(lo), float(hi), used, True


def stated_endpoints(name, method):
    """The exact end points of the stated range of ``method`` in the unit they are declared in:
    [("Tc"|"Tk", value), ...] - only when the method consults exactly one declared label (else [])."""
    inst = cls_of(name)()
    labels = []
    inst.checkPropertyTempRange = lambda label, val: labels.append(label)
    try:
        getattr(inst, method)(Tk=600.0)
    except Exception:
        pass
    used = [l for l in dict.fromkeys(labels) if l in inst.propertyValidTemperature]
    if len(used) != 1:
        return []
    (a, b), unit = inst.propertyValidTemperature[used[0]]
    unit = str(unit).strip().upper()
    if not b > a:
        return []
    kw = "Tk" if unit in ("K", "KELVIN") else "Tc"
    return [(kw, float(a)), (kw, float(b))]


def grid(lo, hi, n):
    """n points from lo to hi inclusive; the end points are pulled 1e-9 of the span inside so that a
    K<->C round-off never puts them outside the stated range."""
    span = hi - lo
    eps = 1e-9 * span
    pts = [lo + eps] + [lo + span * k / (n - 1.0) for k in range(1, n - 1)] + [hi - eps]
    return [float(p) for p in pts]
