"""C18 - independent evaluator of a blueprint spec (no yamlize, no ARMI constructors).

``validate(spec)``   reasons why the document is inconsistent (must then be refused)
``expect(spec)``     what the document describes: placements, designs, blocks, components
``compare(spec, r)`` differences between that description and a real reactor

Closed forms written here: cold/hot areas of every 2-D shape class, link resolution by name,
multiplicity (numeric / linked / counted from the pin lattice), block stacking, flags from names
(word table), mass fractions after UZr weight-fraction modifications and custom isotopics
(mass fractions / number fractions with density, number densities), element expansion.

Trusted base (not re-derived): the material library's default mass fractions, reference densities
and thermal expansion correlations (properties C03/C19), atomic weights and natural abundances of
the nuclide directory (C19), ``units.AVOGADROS_NUMBER``.
"""
import math
import re

LINK = re.compile(r"^\s*([A-Za-z0-9_ ]+?)\.([A-Za-z0-9_]+)\s*$")
RTOL = 1e-10  # differently associated float arithmetic (areas, densities)

SHAPE_DIMS = {
    "Circle": ("od", "id", "mult"),
    "Hexagon": ("op", "ip", "mult"),
    "Rectangle": ("lengthOuter", "lengthInner", "widthOuter", "widthInner", "mult"),
    "SolidRectangle": ("lengthOuter", "widthOuter", "mult"),
    "Square": ("widthOuter", "widthInner", "mult"),
    "Triangle": ("base", "height", "mult"),
    "HoledHexagon": ("op", "holeOD", "nHoles", "mult"),
    "HexHoledCircle": ("od", "holeOP", "mult"),
    "HoledRectangle": ("holeOD", "lengthOuter", "widthOuter", "mult"),
    "HoledSquare": ("holeOD", "widthOuter", "mult"),
    "Helix": ("od", "axialPitch", "helixDiameter", "mult", "id"),
    "DerivedShape": (),
}
NOT_LENGTHS = ("mult", "nHoles")
DEFAULTS = {"id": 0.0, "ip": 0.0, "lengthInner": 0.0, "widthInner": 0.0, "mult": 1.0}
S3_2 = math.sqrt(3.0) / 2.0


def area(shape, d):
    """Closed-form area (cm2) of one shape with dimensions d, times multiplicity."""
    g = lambda k: d.get(k, DEFAULTS.get(k))  # noqa: E731
    m = g("mult")
    if shape == "Circle":
        a = math.pi / 4.0 * (g("od") ** 2 - g("id") ** 2)
    elif shape == "Hexagon":
        a = S3_2 * (g("op") ** 2 - g("ip") ** 2)
    elif shape == "Rectangle":
        a = g("lengthOuter") * g("widthOuter") - g("lengthInner") * g("widthInner")
    elif shape == "SolidRectangle":
        a = g("lengthOuter") * g("widthOuter")
    elif shape == "Square":
        a = g("widthOuter") ** 2 - g("widthInner") ** 2
    elif shape == "Triangle":
        a = 0.5 * g("base") * g("height")
    elif shape == "HoledHexagon":
        a = S3_2 * g("op") ** 2 - g("nHoles") * math.pi / 4.0 * g("holeOD") ** 2
    elif shape == "HexHoledCircle":
        a = math.pi / 4.0 * g("od") ** 2 - S3_2 * g("holeOP") ** 2
    elif shape == "HoledRectangle":
        a = g("lengthOuter") * g("widthOuter") - math.pi / 4.0 * g("holeOD") ** 2
    elif shape == "HoledSquare":
        a = g("widthOuter") ** 2 - math.pi / 4.0 * g("holeOD") ** 2
    elif shape == "Helix":
        # a wire of annular cross-section wound on a cylinder: horizontal cut is longer by
        # (length of one turn)/(axial pitch)
        turn = math.sqrt((math.pi * g("helixDiameter")) ** 2 + g("axialPitch") ** 2)
        a = math.pi / 4.0 * (g("od") ** 2 - g("id") ** 2) * turn / g("axialPitch")
    else:
        raise ValueError(shape)
    return a * m


# ---------------------------------------------------------------------------------------------
# flags from names

WORDS = {
    "fuel": "FUEL", "plenum": "PLENUM", "igniter": "IGNITER", "outer": "OUTER", "duct": "DUCT", "clad": "CLAD",
    "coolant": "COOLANT", "intercoolant": "INTERCOOLANT", "bond": "BOND", "gap": "GAP", "shield": "SHIELD",
    "dummy": "DUMMY", "liner": "LINER", "radial": "RADIAL", "test": "TEST", "feed": "FEED",
    "depletable": "DEPLETABLE", "slug": "SLUG", "grid": "GRID_PLATE", "plate": None, "extra": None,
}  # fmt: skip


def flags_of(name):
    out = set()
    for w in name.lower().split():
        w = w.strip("0123456789")
        if w and WORDS.get(w):
            out.add(WORDS[w])
    return out


# ---------------------------------------------------------------------------------------------
# helpers on the spec


def all_blocks(spec):
    return list(spec["blocks"].items()) + [tuple(x) for x in spec.get("extra_blocks", [])]


def all_assemblies(spec):
    return list(spec["assemblies"].items()) + [tuple(x) for x in spec.get("extra_assemblies", [])]


def lattice_count(spec, block, c):
    ids = c.get("latticeIDs")
    gname = block.get("grid name")
    if not ids or not gname:
        return None
    cont = spec["grids"][gname]["contents"]
    ids = [str(x) for x in ids]
    return sorted(tuple(k) for k, v in cont.items() if str(v) in ids)


class Invalid(Exception):
    pass


def resolve(block, cname, dim, hot, mats, _seen=(), spec=None):
    """Value of a dimension: numbers expand with their owner's material; links take the target's;
    a multiplicity left to the pin lattice is the number of lattice positions."""
    comps = {c["name"]: c for c in block["components"]}
    if (cname, dim) in _seen:
        raise Invalid("bad link: cycle through %s.%s" % (cname, dim))
    if cname not in comps:
        raise Invalid("bad link: no component %r" % cname)
    c = comps[cname]
    if dim not in SHAPE_DIMS.get(c["shape"], ()):
        raise Invalid("bad link: %s (%s) has no dimension %r" % (cname, c["shape"], dim))
    v = c["dims"].get(dim, DEFAULTS.get(dim))
    if v is None:
        raise Invalid("dimension %s.%s missing" % (cname, dim))
    if dim == "mult" and spec is not None and not isinstance(v, str) and float(v) == 1.0:
        cells = lattice_count(spec, block, c)
        if cells:
            return float(len(cells))
    if isinstance(v, str):
        m = LINK.match(v)
        if not m:
            raise Invalid("bad link: malformed %r" % v)
        return resolve(block, m.group(1), m.group(2), hot, mats, _seen + ((cname, dim),), spec)
    v = float(v)
    if hot and dim not in NOT_LENGTHS:
        v *= 1.0 + mats.dLL(c)
    return v


class Mats:
    """The trusted material library, evaluated independently of the blueprint machinery."""

    def __init__(self):
        self._c = {}

    def inst(self, name):
        from armi import materials

        if name not in self._c:
            self._c[name] = materials.resolveMaterialClassByName(name)()
        return self._c[name]

    def is_fluid(self, name):
        from armi.materials import material

        return isinstance(self.inst(name), material.Fluid)

    def dLL(self, c):
        if self.is_fluid(c["material"]) or c["material"] == "Custom":
            return 0.0
        return self.inst(c["material"]).linearExpansionFactor(Tc=c["Thot"], T0=c["Tinput"])


# ---------------------------------------------------------------------------------------------
# validity


def validate(spec):
    """Independent judgement: reasons for which the document is inconsistent."""
    R = []
    mats = Mats()
    specifiers = [a["specifier"] for _, a in all_assemblies(spec)]
    names = [n for n, _ in all_assemblies(spec)]
    if len(set(names)) != len(names):
        R.append("duplicate name: assembly")
    if len(set(specifiers)) != len(specifiers):
        R.append("duplicate name: specifier")
    bnames = [n for n, _ in all_blocks(spec)]
    if len(set(bnames)) != len(bnames):
        R.append("duplicate name: block")
    for sname, s in spec["systems"].items():
        g = spec["grids"].get(s["grid name"])
        if g is None:
            continue
        for k, v in g.get("contents", {}).items():
            if v not in specifiers:
                R.append("unknown specifier %r at %s" % (v, (k,)))
    for an, a in all_assemblies(spec):
        n = len(a["blocks"])
        for fld in ("heights", "xs", "mesh"):
            if len(a[fld]) != n:
                R.append("unequal lengths: %s of %s" % (fld, an))
        for k, v in (a.get("matmods") or {}).items():
            if k == "by component":
                for cn, mods in v.items():
                    for kk, vv in mods.items():
                        if len(vv) != n:
                            R.append("unequal lengths: by-component modification %s/%s of %s" % (cn, kk, an))
            elif len(v) != n:
                R.append("unequal lengths: modification %s of %s" % (k, an))
    used = {b for _, a in all_assemblies(spec) for b in a["blocks"]}
    for bn, b in all_blocks(spec):
        cn = [c["name"] for c in b["components"]]
        if len(set(cn)) != len(cn):
            R.append("duplicate name: component in block %s" % bn)
            continue
        if bn not in used:
            continue
        try:
            ar = block_areas(spec, b, mats)
        except Invalid as e:
            R.append(str(e))
            continue
        for c in b["components"]:
            for which in ("cold", "hot"):
                a_ = ar[c["name"]][which]
                if a_ is None or a_ >= 0.0:
                    continue
                solid = not mats.is_fluid(c["material"])
                if solid or (which == "cold" and c["material"] != "Void") or c["shape"] == "DerivedShape":
                    R.append("overlap: %s area of %s in block %s is %g" % (which, c["name"], bn, a_))
    return R


def block_areas(spec, b, mats):
    """{component: {"cold": area, "hot": area, "dims": {...}}}; the derived shape fills the rest."""
    out = {}
    derived = None
    for c in b["components"]:
        if c["shape"] == "DerivedShape":
            derived = c
            out[c["name"]] = {"cold": None, "hot": None, "dims": {}, "hotdims": {}}
            continue
        cold, hot = {}, {}
        for dn in SHAPE_DIMS[c["shape"]]:
            if dn == "mult":
                cells = lattice_count(spec, b, c)
                given = c["dims"].get("mult")
                if cells and (given is None or (not isinstance(given, str) and float(given) == 1.0)):
                    cold[dn] = hot[dn] = float(len(cells))
                    continue
            if dn not in c["dims"] and dn not in DEFAULTS:
                raise Invalid("dimension %s.%s missing" % (c["name"], dn))
            cold[dn] = resolve(b, c["name"], dn, False, mats, spec=spec)
            hot[dn] = resolve(b, c["name"], dn, True, mats, spec=spec)
        out[c["name"]] = {"cold": area(c["shape"], cold), "hot": area(c["shape"], hot), "dims": cold, "hotdims": hot}
    if derived is not None:
        outer = outermost(b, out)
        if outer is not None:
            oc = [c for c in b["components"] if c["name"] == outer][0]
            d = out[outer]["hotdims"]
            if oc["shape"] == "Hexagon":
                mx = S3_2 * d["op"] ** 2
            elif oc["shape"] in ("Square",):
                mx = d["widthOuter"] ** 2
            elif oc["shape"] in ("Rectangle",):
                mx = d["widthOuter"] * d["lengthOuter"]
            else:
                mx = None
            if mx is not None:
                rest = mx - sum(v["hot"] for k, v in out.items() if v["hot"] is not None)
                out[derived["name"]]["hot"] = rest
    return out


def outermost(b, areas):
    """Name of the component that closes the block (largest circumscribed circle at cold dims)."""
    best = None
    for c in b["components"]:
        d = areas[c["name"]]["dims"]
        if c["shape"] == "Hexagon":
            od = d["op"] * 2.0 / math.sqrt(3.0)
        elif c["shape"] == "Square":
            od = d["widthOuter"] * math.sqrt(2.0)
        elif c["shape"] == "Rectangle":
            od = math.hypot(d["widthOuter"], d["lengthOuter"])
        else:
            continue
        if best is None or od > best[0]:
            best = (od, c["name"])
    return best[1] if best else None


# ---------------------------------------------------------------------------------------------
# composition

ELEMENT = re.compile(r"^([A-Z]+)")


def element_of(nuc):
    return ELEMENT.match(nuc).group(1)


def expansion_table(spec):
    """element symbol -> list of isotope names it is expanded to (None: stays elemental).

    Rules of the document + default settings (xs kernel MC2v3): every element named in the
    nuclide flags is expanded to its natural isotopes, except carbon (kept elemental); oxygen
    becomes O16 only, tungsten drops W180, helium becomes HE4; an explicit expandTo wins."""
    from armi.nucDirectory import nuclideBases as nb

    tab = {}
    nf = spec["nuclide flags"]
    for name, f in nf.items():
        base = nb.byName[name]
        if not isinstance(base, nb.NaturalNuclideBase):
            continue
        if f.get("expandTo"):
            tab[name] = list(f["expandTo"])
        elif name == "C":
            tab[name] = None
        elif name == "O":
            tab[name] = ["O16"]
        elif name == "W":
            tab[name] = ["W182", "W183", "W184", "W186"]
        elif name == "HE":
            tab[name] = ["HE4"]
        else:
            tab[name] = [n.name for n in base.element.getNaturalIsotopics()]
    return tab


def custom_massfracs(iso):
    """Custom isotopics entry -> (mass fractions by input key, density or None)."""
    from armi.nucDirectory import nuclideBases as nb
    from armi.utils import units

    fmt = iso["input format"]
    vals = {k: float(v) for k, v in iso.items() if k not in ("input format", "density")}
    A = {k: nb.byName[k].weight for k in vals}
    if fmt == "mass fractions":
        return dict(vals), iso.get("density")
    if fmt == "number fractions":
        tot = sum(v * A[k] for k, v in vals.items())
        return {k: v * A[k] / tot for k, v in vals.items()}, iso.get("density")
    if fmt == "number densities":
        NA = units.AVOGADROS_NUMBER * 1e-24
        m = {k: v * A[k] / NA for k, v in vals.items()}
        rho = sum(m.values())
        return {k: v / rho for k, v in m.items()}, rho
    raise ValueError(fmt)


def component_composition(spec, c, mods, mats):
    """Expected number densities {nuclide: atoms/barn-cm} of component c under modifications
    ``mods`` ({name: value} that survive for this component), or None when not modelled."""
    from armi.nucDirectory import nuclideBases as nb
    from armi.utils import units

    name = c["material"]
    iso = spec.get("custom isotopics", {}).get(c.get("isotopics")) if c.get("isotopics") else None
    mat = mats.inst(name)
    if name == "Void":
        return {}
    if name == "Custom":
        if iso is None:
            return None
        w, rho = custom_massfracs(iso)
        if rho is None:
            return None
    elif name == "UZr":
        w = {"ZR": 0.1, "U235": 0.1 * 0.9, "U238": 0.9 * 0.9}
        z = 0.1
        if iso is not None:
            if iso.get("density") is not None:
                return None  # custom density on a library material: not modelled
            w, _ = custom_massfracs(iso)
        if mods:
            # documented: the input modifications have the final word; absent ones take the
            # material's defaults (10 % enrichment, 10 % zirconium)
            z = float(mods.get("ZR_wt_frac", 0.1))
            u = float(mods.get("U235_wt_frac", 0.1))
            w = dict(w)
            w.update({"ZR": z, "U235": u * (1.0 - z), "U238": (1.0 - u) * (1.0 - z)})
        rho_ref = 1.0 / ((1.0 - z) / 19.1 + z / 6.52)  # Vegard's law at the reference state
        rho = rho_ref / (1.0 + mat.linearExpansionPercent(Tc=c["Thot"]) / 100.0) ** 3
    else:
        if iso is not None:
            return None
        w = dict(mat.massFrac)
        if mats.is_fluid(name):
            rho = mat.density(Tc=c["Thot"])
        else:
            # the documented component rule: 2-D expanded (pseudo) density, then the axial expansion
            rho = mat.pseudoDensity(Tc=c["Thot"]) / (1.0 + mat.linearExpansionPercent(Tc=c["Thot"]) / 100.0)
    NA = units.AVOGADROS_NUMBER * 1e-24
    tab = expansion_table(spec)
    out = {}
    for k, wk in w.items():
        if wk == 0.0 and k not in ("U235", "U238", "ZR"):
            continue
        base = nb.byName[k]
        if isinstance(base, nb.NaturalNuclideBase) and tab.get(k, "absent") not in (None, "absent"):
            isos = [nb.byName[n] for n in tab[k]]
            denom = sum(i.abundance * i.weight for i in isos)
            for i in isos:
                out[i.name] = out.get(i.name, 0.0) + wk * rho * NA * i.abundance / denom
        else:
            out[k] = out.get(k, 0.0) + wk * rho * NA / base.weight
    return out


def mods_for(a, axial, block, c):
    """Material modifications that apply to component c of the block at axial index."""
    mm = a.get("matmods") or {}
    out = {}
    for k, v in mm.items():
        if k != "by component" and v[axial] not in ("", None):
            out[k] = v[axial]
    for cn, mods in (mm.get("by component") or {}).items():
        if cn == c["name"]:
            for k, v in mods.items():
                if v[axial] not in ("", None):
                    out[k] = v[axial]
    return out


# ---------------------------------------------------------------------------------------------
# expectation vs. reality


def _close(a, b, rtol=RTOL):
    return abs(a - b) <= rtol * max(abs(a), abs(b)) + 1e-300


def flagset(o):
    s = str(o.p.flags).split(".")[-1]
    return set(x for x in s.split("|") if x)


def compare(spec, r, limit=12):
    """List of (class, message) differences between the spec's description and the reactor r."""
    D = []
    mats = Mats()

    def bad(cls, msg):
        if len(D) < limit:
            D.append((cls, msg))

    sysd = spec["systems"]["core"]
    g = spec["grids"][sysd["grid name"]]
    by_spec = {a["specifier"]: (an, a) for an, a in spec["assemblies"].items()}
    core = r.core
    # ---- placement
    got = {}
    for a in core:
        idx = tuple(int(x) for x in a.spatialLocator.getCompleteIndices()[:2])
        if idx in got:
            bad("placement", "two assemblies at %s" % (idx,))
        got[idx] = a
    want = {tuple(k): v for k, v in g["contents"].items()}
    if set(got) != set(want):
        bad("placement", "assemblies at %s, the document names %s (missing %s, unexpected %s)" % (sorted(got), sorted(want), sorted(set(want) - set(got)), sorted(set(got) - set(want))))
    if g.get("pitch") and g["geom"].startswith("hex"):
        if not _close(core.spatialGrid.pitch, g["pitch"][0]):
            bad("grid", "core grid pitch %r, document gives %r" % (core.spatialGrid.pitch, g["pitch"][0]))
    geomname = type(core.spatialGrid).__name__
    if (g["geom"].startswith("hex")) != (geomname == "HexGrid"):
        bad("grid", "core grid class %s for geom %s" % (geomname, g["geom"]))
    if geomname == "HexGrid" and bool(core.spatialGrid.cornersUp) != (g["geom"] == "hex_corners_up"):
        bad("grid", "cornersUp=%s for geom %s" % (core.spatialGrid.cornersUp, g["geom"]))
    tab = None
    for idx in sorted(set(got) & set(want)):
        a = got[idx]
        an, ad = by_spec[want[idx]]
        where = "assembly at %s (design %r)" % (idx, an)
        if a.getType() != an:
            bad("design", "%s: built type %r" % (where, a.getType()))
            continue
        wf = flags_of(ad["flags"]) if ad.get("flags") else flags_of(an)
        if flagset(a) != wf:
            bad("assembly-flags", "%s: flags %s expected %s" % (where, sorted(flagset(a)), sorted(wf)))
        blocks = list(a)
        if [b.getType() for b in blocks] != list(ad["blocks"]):
            bad("block-order", "%s: blocks %s expected %s" % (where, [b.getType() for b in blocks], ad["blocks"]))
            continue
        z = 0.0
        for k, (b, bn) in enumerate(zip(blocks, ad["blocks"])):
            bd = spec["blocks"][bn]
            wb = "%s block %d (%s)" % (where, k, bn)
            h = float(ad["heights"][k])
            if not _close(b.getHeight(), h) or not _close(b.p.zbottom, z) or not _close(b.p.ztop, z + h):
                bad("block-height", "%s: height %r z %r..%r expected height %r z %r..%r" % (wb, b.getHeight(), b.p.zbottom, b.p.ztop, h, z, z + h))
            z += h
            if b.p.xsType != ad["xs"][k]:
                bad("block-xs", "%s: xs type %r expected %r" % (wb, b.p.xsType, ad["xs"][k]))
            if int(b.p.axMesh) != int(ad["mesh"][k]):
                bad("block-mesh", "%s: axial mesh points %r expected %r" % (wb, b.p.axMesh, ad["mesh"][k]))
            wf = flags_of(bd["flags"]) if bd.get("flags") else flags_of(bn)
            if flagset(b) != wf:
                bad("block-flags", "%s: flags %s expected %s" % (wb, sorted(flagset(b)), sorted(wf)))
            if tuple(int(x) for x in b.spatialLocator.indices) != (0, 0, k):
                bad("block-order", "%s: axial locator %s" % (wb, b.spatialLocator.indices))
            comps = list(b)
            # (the reactor is sorted after construction: components are ordered by size, not as written)
            if sorted(c.name for c in comps) != sorted(c["name"] for c in bd["components"]):
                bad("components", "%s: components %s expected %s" % (wb, [c.name for c in comps], [c["name"] for c in bd["components"]]))
                continue
            byname = {c.name: c for c in comps}
            areas = block_areas(spec, bd, mats)
            burn = any(f.get("burn") for f in spec["nuclide flags"].values())
            for cd in bd["components"]:
                c = byname[cd["name"]]
                wc = "%s component %s" % (wb, cd["name"])
                if type(c).__name__ != cd["shape"]:
                    bad("shape", "%s: shape %s expected %s" % (wc, type(c).__name__, cd["shape"]))
                    continue
                if type(c.material).__name__ != cd["material"]:
                    bad("material", "%s: material %s expected %s" % (wc, type(c.material).__name__, cd["material"]))
                if float(c.inputTemperatureInC) != cd["Tinput"] or float(c.temperatureInC) != cd["Thot"]:
                    bad("temperature", "%s: Tinput/Thot %r/%r expected %r/%r" % (wc, c.inputTemperatureInC, c.temperatureInC, cd["Tinput"], cd["Thot"]))
                exp_ndens = component_composition(spec, cd, mods_for(ad, k, bd, cd), mats)
                wf = flags_of(cd["flags"]) if cd.get("flags") else flags_of(cd["name"])
                if not cd.get("flags") and burn and exp_ndens and any(spec["nuclide flags"].get(n, {}).get("burn") for n in exp_ndens):
                    wf = wf | {"DEPLETABLE"}
                if flagset(c) != wf:
                    bad("component-flags", "%s: flags %s expected %s" % (wc, sorted(flagset(c)), sorted(wf)))
                # dimensions: raw (number or link) and resolved cold value
                ar = areas[cd["name"]]
                for dn in SHAPE_DIMS[cd["shape"]]:
                    raw = c.p[dn]
                    given = cd["dims"].get(dn, DEFAULTS.get(dn))
                    cells = lattice_count(spec, bd, cd) if dn == "mult" else None
                    if isinstance(given, str):
                        m = LINK.match(given)
                        ok = isinstance(raw, tuple) and len(raw) == 2 and getattr(raw[0], "name", None) == m.group(1) and raw[1] == m.group(2) and raw[0] in comps
                        if not ok:
                            bad("link", "%s: dimension %s is %r, document links it to %s" % (wc, dn, raw, given))
                    elif cells and (given is None or float(given) == 1.0):
                        if isinstance(raw, tuple) or float(raw) != float(len(cells)):
                            bad("mult-lattice", "%s: mult %r, the pin lattice holds %d positions" % (wc, raw, len(cells)))
                    else:
                        if isinstance(raw, tuple) or raw is None or float(raw) != float(given):
                            bad("dimension", "%s: cold dimension %s is %r, document gives %r" % (wc, dn, raw, given))
                    v = c.getDimension(dn, cold=True)
                    if v is None or not _close(float(v), ar["dims"][dn], 0.0):
                        bad("dimension-resolved", "%s: cold %s resolves to %r expected %r" % (wc, dn, v, ar["dims"][dn]))
                    vh = c.getDimension(dn)
                    if vh is None or not _close(float(vh), ar["hotdims"][dn]):
                        bad("dimension-hot", "%s: hot %s is %r expected %r (expansion of the owning component)" % (wc, dn, vh, ar["hotdims"][dn]))
                if ar["cold"] is not None:
                    ac = c.getArea(cold=True)
                    if not _close(ac, ar["cold"]):
                        bad("area-cold", "%s: cold area %r, closed form %r" % (wc, ac, ar["cold"]))
                if ar["hot"] is not None:
                    ah = c.getArea()
                    if not _close(ah, ar["hot"], 1e-9):
                        bad("area-hot", "%s: hot area %r, closed form %r" % (wc, ah, ar["hot"]))
                cells = lattice_count(spec, bd, cd)
                if cells is not None and not cells:
                    # none of its IDs is in the map: the component is not on the lattice
                    if type(c.spatialLocator).__name__ == "MultiIndexLocation" and len(c.spatialLocator):
                        bad("pin-placement", "%s: lattice positions %s, the map holds none of its IDs" % (wc, list(c.spatialLocator)))
                elif cells is not None:
                    if type(c.spatialLocator).__name__ == "MultiIndexLocation":
                        gl = sorted(tuple(int(x) for x in l.indices[:2]) for l in c.spatialLocator)
                    else:
                        gl = "not on the lattice: %r" % (c.spatialLocator,)
                    if gl != cells:
                        bad("pin-placement", "%s: lattice positions %s expected %s" % (wc, gl, cells))
                # composition
                if exp_ndens is not None:
                    nd = {k_: float(v) for k_, v in c.getNumberDensities().items()}
                    for nuc in sorted(set(nd) | set(exp_ndens)):
                        w_, g_ = exp_ndens.get(nuc, 0.0), nd.get(nuc, 0.0)
                        if not _close(g_, w_, 1e-9):
                            bad("composition", "%s: number density of %s is %r expected %r (modifications %s, isotopics %s)" % (wc, nuc, g_, w_, mods_for(ad, k, bd, cd), cd.get("isotopics")))
                            break
            if bd.get("grid name"):
                sg = b.spatialGrid
                if sg is None or type(sg).__name__ != "HexGrid":
                    bad("pin-grid", "%s: pin grid %r" % (wb, sg))
    return D
