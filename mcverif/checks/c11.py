"""C11 - re-meshing an assembly axially conserves atoms and integrated quantities.

Bounded-exhaustive enumeration over integer meshes (DESIGN 4/C11).  With total height H (6 quick,
8 thorough) in units of ``scale`` cm:

* remesh   every source stack (composition of H into 2-4 blocks, per-block distinct materials and
           parameter profiles) x every target mesh (subset of {1..H-1} + {H}, plus each with one
           interior point moved by +-1e-9 / +-1e-13): ``makeAssemWithUniformMesh`` A->B and
           ``setAssemblyStateFromOverlaps`` B->A on the real heterogeneous assembly, real ParamMapper
* between  ``getBlocksBetweenElevations(z0,z1)`` / ``getBlockAtElevation`` on every pair of grid points
* setmesh  ``setBlockMesh`` (flag True / False / "auto") and ``Block.setHeight(conserveMass=True)``
           onto every mesh with the same number of blocks, and back
* gen      ``UniformMeshGenerator`` (+ the real NeutronicsUniformMeshConverter there and back) on
           generated 2-3 assembly cores whose assemblies have meshes from the same family
* filter   ``_filterMesh`` on every point subset of {0..7} x minimum x anchor subset x preference
* resample ``mathematics.resampleStepwise`` on every pair of integer meshes (lists, ints, ndarrays,
           None entries, array-valued entries; avg both ways; eps-shifted and out-of-span outputs)
* avg1d    ``average1DWithinTolerance`` on every pair / triple of equal-length family meshes

Oracles are the interval-arithmetic reference models of ``c11_model`` (no armi code).
Tolerances: 1e-12 relative (rounding).  ``getBlocksBetweenElevations`` documents that it discards
overlaps below 1e-10 of a block; on eps-shifted meshes the oracle therefore accepts a result with or
without each such sliver (``c11_model.droppable``): for assembly totals this is the 1e-10..2e-10
band of DESIGN 4/C11, for a destination cell it is exactly the sliver's weight in that cell.
"""
import itertools
import json
import random

from mcverif import core
from mcverif.checks import c11_model as M

PROPERTY = "C11"
LEVEL = "exploration"
MOD = "mcverif.checks.c11"

TOL_COINCIDENT = 1e-12  # same arithmetic, differently associated sums of <= 8 terms
TOL_EPS = 2e-10  # getBlockAtElevation: a top within 1e-10 (relative) of the elevation counts as reached
# (overlaps thinner than 1e-10 of a source block may be dropped - documented; the oracle allows for exactly
#  the weight of those slivers, see c11_model.droppable, instead of a blanket tolerance)
TOL_ASSOC = 1e-10  # DESIGN 3.4: N*h_old/h_new style re-association
NAME = "igniter fuel"
STACK = ["shield", "fuel", "control", "oxide fuel"]
SCALES = [1.0, 10.0, 25.0, 2.5]  # exactly representable; VERIF_SEED rotates the representative
MAXV = 3  # violations kept per key per work item (all are counted)


def bounds(quick):
    """All enumeration bounds in one place."""
    return {
        "H": 6 if quick else 8,  # total height of the re-meshed assemblies (units)
        "H_gen": 6,  # total height of the assemblies of generated cores
        "gen_full": not quick,  # every (IC, OC, control) triple instead of every (IC, OC) pair x {one control, none}
        "filter_points": 8 if quick else 10,  # _filterMesh candidates = subsets of {0..n-1}
        "filter_mins": [1, 2, 3] if quick else [1, 2, 3, 1.5],
        "H_resample": 6 if quick else 8,
        "H_avg": 6 if quick else 7,
    }


# ---------------------------------------------------------------------------------------------
# small helpers


class Acc:
    """Per-item accumulator: counts everything, keeps the first MAXV violations of each key."""

    def __init__(self):
        self.viols, self.cnt, self.n, self.nt = [], {}, 0, 0
        self._k = {}

    def count(self, name, n=1):
        self.cnt[name] = self.cnt.get(name, 0) + n

    def bad(self, key, msg, case):
        key = "c11/" + key
        self.count("viol:" + key)
        self._k[key] = self._k.get(key, 0) + 1
        if self._k[key] <= MAXV:
            self.viols.append(core.viol(key, msg, case))

    def result(self):
        return {"viols": self.viols, "cnt": self.cnt, "n": self.n, "nt": self.nt}


class Bad:
    """A value read from the implementation that is not None / number / 1-D numeric sequence."""

    def __init__(self, v):
        self.text = "%s %s" % (type(v).__name__, repr(v)[:120])

    def __repr__(self):
        return "<unusable value: %s>" % self.text

    def __eq__(self, other):
        return isinstance(other, Bad) and other.text == self.text

    __hash__ = None


def _pv(v):
    """Parameter value -> None | float | list of floats | Bad (total: never raises)."""
    import numpy as np

    try:
        if v is None:
            return None
        if isinstance(v, (list, tuple, np.ndarray)):
            arr = np.asarray(v)
            if arr.ndim != 1 or arr.dtype == object or arr.dtype.kind not in "fiub":
                return Bad(v)
            return [float(x) for x in arr] if len(arr) else None
        if isinstance(v, (str, bytes)):
            return Bad(v)
        return float(v)
    except Exception:
        return Bad(v)


def _shape(v):
    """None | 0 (scalar) | n (1-D sequence of n numbers) | 'bad'."""
    if v is None:
        return None
    if isinstance(v, Bad):
        return "bad"
    return len(v) if isinstance(v, list) else 0


class Precondition(RuntimeError):
    """A requirement on the generated input (not on armi) does not hold: a harness error."""


def total(driver, case_of=lambda args: args[-1]):
    """Decorator: whatever the implementation returns, evaluating it never escapes as an exception -
    an oracle that cannot evaluate a result reports that result as a violation."""
    import functools
    import traceback

    def deco(f):
        @functools.wraps(f)
        def g(acc, *args):
            try:
                return f(acc, *args)
            except Precondition:
                raise
            except Exception as e:
                tb = traceback.extract_tb(e.__traceback__)[-1]
                try:
                    case = case_of(args)
                except Exception:
                    case = {"kind": "unknown"}
                acc.bad(driver + "-oracle-cannot-evaluate", "evaluating the implementation's result raised %s: %s (at %s:%d %s)" % (type(e).__name__, str(e)[:200], tb.filename.split("/")[-1], tb.lineno, (tb.line or "")[:80]), case)

        return g

    return deco


def _mag(v):
    if v is None:
        return 0.0
    if isinstance(v, list):
        return max([abs(x) for x in v] or [0.0])
    return abs(v)


def _cmp(got, want, tol):
    if want is None:
        return got is None
    if got is None:
        return False  # a set value (0.0 and zeros included) never reads as unset
    if isinstance(want, list):
        return isinstance(got, list) and len(got) == len(want) and all(abs(g - w) <= tol for g, w in zip(got, want))
    return (not isinstance(got, list)) and abs(got - want) <= tol


def _tot(vals):
    """Sum of a profile (None = nothing); lists summed element-wise."""
    acc = None
    for v in vals:
        if v is not None:
            acc = M._add(acc, v)
    return acc


# ---------------------------------------------------------------------------------------------
# generated assemblies


def _ctrl_block():
    from mcverif import build

    return {
        "components": [
            build.comp("control", "Circle", "B4C", 25.0, 600.0, id=0.0, od=0.9, mult=7.0),
            build.comp("clad", "Circle", "HT9", 25.0, 470.0, id=1.0, od=1.09, mult="control.mult"),
            build.comp("coolant", "DerivedShape", "Sodium", 450.0, 450.0),
            build.comp("duct", "Hexagon", "HT9", 25.0, 450.0, ip=16.0, op=16.6, mult=1.0),
            build.comp("intercoolant", "Hexagon", "Sodium", 450.0, 450.0, ip="duct.op", op=16.75, mult=1.0),
        ]
    }


def _block_table():
    from mcverif import build

    return {
        "shield": build.shield_block(),
        "fuel": build.fuel_block(),
        "control": _ctrl_block(),
        "oxide fuel": build.fuel_block(fuel_mat="UraniumOxide"),
        "plenum": build.plenum_block(),
    }


def _assem_spec(heights, scale, rot=0):
    """One assembly design: len(heights) blocks of pairwise different materials (ZR only in 'fuel',
    B10/B11 only in 'control', O16 only in 'oxide fuel')."""
    from mcverif import build

    n = len(heights)
    order = STACK[rot % 4 :] + STACK[: rot % 4]
    stack = order[:n]
    tab = _block_table()
    return {
        "blocks": {k: tab[k] for k in stack},
        "assemblies": {NAME: build.assem("IC", stack, [h * scale for h in heights], ["A", "B", "C", "D"][:n])},
        "grids": {"core": {"geom": "hex", "symmetry": "third periodic", "contents": {(0, 0): "IC"}}},
        "systems": {"core": {"grid name": "core", "origin": [0.0, 0.0, 0.0]}},
    }


class _Factory:
    """Parses the blueprint of one source stack once and constructs a *fresh* assembly per use."""

    def __init__(self, heights, scale, rot):
        from mcverif import build

        self.cs = build.settings()
        self.bp = build.blueprints(_assem_spec(heights, scale, rot))
        self.k = 0

    def fresh(self):
        self.k += 1
        random.seed(self.k)
        return self.bp.constructAssem(self.cs, name=NAME)


PARAMS = [
    ("mgFluxGamma", "unset"),  # array parameter never set - FIRST in the mapper's list
    ("power", "vi"),
    ("mgFlux", "vi"),  # array valued
    ("reactionRates", "vi"),  # array valued, unset in the FIRST (every even) block
    ("flux", "avg"),
    ("pdens", "const"),
    ("THhotChannelCladODT", "unset"),  # scalar parameter never set - in the middle
    ("extSrc", "avg"),  # array valued
    ("fluxPeak", "peak"),
    ("adjMgFlux", "vi"),  # array valued, set only in every other block (unset in odd blocks)
    # falsy-but-set boundary values: 0.0 and arrays of zeros are *set* and must be mapped like any value
    ("powerGamma", "vi"),  # scalar, 0.0 in odd blocks
    ("lastMgFlux", "vi"),  # array, all zeros in odd blocks
    ("mgFluxSK", "vi"),  # array, all zeros in even blocks
    ("mgNeutronVelocity", "avg"),  # array, zeros everywhere
    ("fluxAdj", "avg"),  # scalar, 0.0 in even blocks
    ("pdensDecay", "const"),  # constant 0.0
    ("fluxAdjPeak", "peak"),  # 0.0 except in block 2
]
# after A -> B these are written afresh on B (a solver's new state, zeros included) before B is mapped back
REWRITTEN = ("powerGamma", "lastMgFlux", "mgFluxSK", "mgNeutronVelocity", "fluxAdj", "pdensDecay", "fluxAdjPeak")
# array lengths (for the stale values written on a destination before state is mapped onto it)
ARRLEN = {"mgFlux": 3, "extSrc": 2, "mgFluxGamma": 2, "adjMgFlux": 2, "reactionRates": 4, "lastMgFlux": 3, "mgFluxSK": 3, "mgNeutronVelocity": 2}
PEAKS = [3.0, 9.0, 4.0, 1.0, 7.0, 2.0, 8.0, 5.0]


def _profile(name, k, vs):
    if name == "power":
        return 100.0 * (k + 1) + 7.0 + vs
    if name == "mgFlux":
        return [(k + 1) * g + vs for g in (1.0, 2.0, 3.0)]
    if name == "flux":
        return 10.0 * (k + 1) ** 2 + vs
    if name == "pdens":
        return 3.25 + vs
    if name == "extSrc":
        return [5.0 * (k + 2), 7.0 * (k + 2) + vs]
    if name == "fluxPeak":
        return PEAKS[k % len(PEAKS)] + vs
    if name == "adjMgFlux":
        return [1.0 * (k + 1), 1.5 * (k + 1) + vs] if k % 2 == 0 else None
    if name == "reactionRates":
        return [0.5 * k + g + vs for g in (1.0, 2.0, 3.0, 4.0)] if k % 2 else None
    if name == "powerGamma":
        return 0.0 if k % 2 else 50.0 * (k + 1) + vs
    if name == "lastMgFlux":
        return [0.0, 0.0, 0.0] if k % 2 else [(k + 2) * g + vs for g in (1.0, 0.5, 0.25)]
    if name == "mgFluxSK":
        return [0.0, 0.0, 0.0] if k % 2 == 0 else [(k + 1) * g + vs for g in (2.0, 4.0, 8.0)]
    if name == "mgNeutronVelocity":
        return [0.0, 0.0]
    if name == "fluxAdj":
        return 0.0 if k % 2 == 0 else 6.0 * k + vs
    if name == "pdensDecay":
        return 0.0
    if name == "fluxAdjPeak":
        return 6.0 + vs if k == 2 else 0.0
    return None


def _stale(name, k):
    """A value no mapping can produce: written on every block of a destination that already exists, so
    that 'mapped' and 'left alone' are distinguishable."""
    v = 7777.0 + 13.0 * k
    return [v + g for g in range(ARRLEN[name])] if name in ARRLEN else v


# aliasing between destination values is a boundary case of a stale destination: ONE object assigned to
# every block (float array, integer array, python list); the other array parameters get one array per block
ALIASED = {"mgFlux": "float", "lastMgFlux": "int", "extSrc": "list", "mgNeutronVelocity": "float"}


def _set_stale(a, names):
    """Writes stale values on every block; returns the ids of the stale container objects."""
    import numpy as np

    shared = {}
    for name in names:
        how = ALIASED.get(name)
        if how:
            v = _stale(name, 0)
            shared[name] = list(v) if how == "list" else np.array(v, dtype=int if how == "int" else float)
    ids = set(id(o) for o in shared.values())
    keep = list(shared.values())
    for k, b in enumerate(a):
        for name in names:
            if name in shared:
                b.p[name] = shared[name]
                continue
            v = _stale(name, k)
            if isinstance(v, list):
                v = np.array(v)
                ids.add(id(v))
                keep.append(v)
            b.p[name] = v
    return ids, keep


def _check_independent(acc, key, case, dest, names, stale_ids, source=None, what=""):
    """After a mapping: changing one destination block's mapped array in place must not change any other
    block's value (nor the source's). Values still living in a stale container were left alone - skipped."""
    import numpy as np

    for name in names:
        objs = [b.p[name] for b in dest]
        mapped = [k for k, o in enumerate(objs) if isinstance(o, np.ndarray) and o.size and id(o) not in stale_ids]
        if not mapped:
            continue
        before = [_pv(b.p[name]) for b in dest]
        sbefore = [_pv(b.p[name]) for b in source] if source is not None else None
        k0 = mapped[0]
        o = objs[k0]
        orig = o.flat[0]
        o.flat[0] = orig + 1000.0
        after = [_pv(b.p[name]) for b in dest]
        changed = [k for k in range(len(after)) if k != k0 and after[k] != before[k]]
        o.flat[0] = orig  # restored exactly
        if changed:
            acc.bad(key + "-destination-values-aliased", "%s%s: writing into block %d's array also changed block(s) %s (values %s)" % (what, name, k0, changed, before), case)
        elif sbefore is not None and [_pv(b.p[name]) for b in source] != sbefore:
            acc.bad(key + "-destination-aliases-source", "%s%s: writing into destination block %d's array changed the source assembly" % (what, name, k0), case)


def _set_profiles(a, vs):
    import numpy as np

    prof = {}
    for name, _kind in PARAMS:
        prof[name] = []
        for k, b in enumerate(a):
            v = _profile(name, k, vs)
            prof[name].append(v)
            if v is not None:
                b.p[name] = np.array(v) if isinstance(v, list) else v
    return prof


def _mapper(a, rot=0):
    """Real ParamMapper; the position of the unset / partially unset names in its list varies with rot."""
    from armi.reactor.converters import uniformMesh as um

    names = [n for n, _k in PARAMS]
    r = (5 * rot) % len(names)
    pm = um.ParamMapper([], names[r:] + names[:r], a[0])
    for n, kind in PARAMS:  # precondition of the oracle: the location kinds are what the table says
        want = (kind == "vi", kind == "peak")
        if (bool(pm.isVolIntegrated[n]), bool(pm.isPeak[n])) != want and kind != "unset":
            raise Precondition("parameter %s is not of kind %s in this armi" % (n, kind))
    return pm


def _densities(a, nucs):
    return [dict(zip(nucs, (float(x) for x in b.getNuclideNumberDensities(nucs)))) for b in a]


MASS_NUCS = ("U235", "ZR90", "B10", "O16", "FE56", "NA23")


def _masses(a, nucs):
    """getMass through the component volumes: total and one nuclide of every material (all nuclides of a
    component share its volume; every nuclide is covered by the N*h observable)."""
    out = {n: float(a.getMass(n)) for n in nucs if n in MASS_NUCS}
    out["<all>"] = float(a.getMass())
    return out


def _params(a):
    return {n: [_pv(b.p[n]) for b in a] for n, _k in PARAMS}


def _check_params(acc, tag, sfx, case, prof, got, sb, db, tol, prev=None, skip=()):
    """prof: source profile per param; got: destination values; prev: destination values before.
    ``tol`` is the relative rounding tolerance; overlaps thinner than 1e-10 of a source block may or
    may not be seen by the implementation (documented), the oracle allows for exactly their weight."""
    bad = set(skip)
    for name, kind in PARAMS:
        if name in bad:
            continue  # the source values themselves were already reported as unusable
        g = got[name]
        pv = prev[name] if prev else None
        # kind and shape first: scalar vs array (and its length) must be that of the reference
        shapes = set(_shape(v) for v in list(prof[name]) + list(pv or []) if v is not None)
        wrong = [(j, v) for j, v in enumerate(g) if v is not None and (_shape(v) == "bad" or (shapes and _shape(v) not in shapes))]
        if wrong or len(shapes) > 1:
            j, v = wrong[0] if wrong else (None, None)
            acc.bad(tag + "-param-kind" + sfx, "%s: destination cell %s reads %r after mapping %s -> %s; expected %s like the source values %s" % (name, j, v, sb, db, " / ".join("scalar" if x == 0 else "array of %s" % x for x in sorted(shapes, key=str)) or "unset", prof[name]), case)
            bad.add(name)
            continue
        try:
            _check_one_param(acc, tag, sfx, case, name, kind, prof[name], g, pv, sb, db, tol)
        except Exception as e:
            acc.bad(tag + "-oracle-cannot-evaluate" + sfx, "%s: destination values %r (source %s, mapping %s -> %s) cannot be evaluated: %s: %s" % (name, g, prof[name], sb, db, type(e).__name__, str(e)[:120]), case)
            bad.add(name)
    return bad


def _check_one_param(acc, tag, sfx, case, name, kind, src, g, pv, sb, db, tol):
    for _once in (1,):
        ref = max([_mag(v) for v in src] + [1.0])
        if kind == "unset":
            # documented: an unset source value is skipped, the destination is left alone
            if g != (pv if pv is not None else [None] * len(g)):
                acc.bad(tag + "-unset-param-set" + sfx, "%s was never set on the source but reads %s after mapping %s -> %s (destination held %s)" % (name, g, sb, db, pv), case)
            continue
        if kind == "peak":
            want = M.map_peak(src, sb, db, pv)
            for j, (lo, hi) in enumerate(want):
                ok = (g[j] is None and hi is None) or (g[j] is not None and hi is not None and g[j] <= hi + tol * ref and (lo is None or g[j] >= lo - tol * ref))
                if not ok:
                    acc.bad(tag + "-peak" + sfx, "%s: destination cell %d [%r,%r] reads %r, largest overlapped source value is %r (source %s on %s)" % (name, j, db[j], db[j + 1], g[j], hi, src, sb), case)
                    break
            continue
        if kind == "vi":
            want = M.map_integrated(src, sb, db, pv)
            t_src, t_got = _tot(src), _tot(g)
            # a destination cell that overlaps no set source cell keeps its previous value: the total is
            # only comparable when all such cells were unset before
            kept = [j for j, (w, _s, only) in enumerate(M.map_integrated(src, sb, db)) if w is None or only]
            comparable = all(pv is None or pv[j] is None for j in kept)
            ttol = tol * max(_mag(_tot([_mul_abs(v) for v in src])), 1.0) + M.total_slack(src, sb, db)
            if comparable and not _cmp(t_got, t_src, ttol):
                acc.bad(tag + "-integrated-total" + sfx, "%s (volume integrated): assembly total %r before, %r after mapping mesh %s -> %s" % (name, t_src, t_got, sb, db), case)
                continue
            key = "-integrated-block"
        else:
            want = M.map_averaged(src, sb, db, pv)
            key = "-average-block" if kind == "avg" else "-constant-not-constant"
        for j, (w, slack, only) in enumerate(want):
            if _cmp(g[j], w, tol * ref + slack):
                continue
            if only and g[j] == (pv[j] if pv is not None else None):
                continue  # nothing but droppable slivers carried a value: the previous value survived
            acc.bad(tag + key + sfx, "%s: destination cell %d [%r,%r] reads %r, overlap-weighted value of source %s on %s is %r" % (name, j, db[j], db[j + 1], g[j], src, sb, w), case)
            break


def _mul_abs(v):
    if v is None:
        return None
    if isinstance(v, list):
        return [abs(x) for x in v]
    return abs(v)


def _drop_frac(sb, db):
    """Largest fraction of any source block's content that droppable slivers may take away."""
    frac = 0.0
    for j in range(len(db) - 1):
        for i, o in enumerate(M.overlaps(sb, db[j], db[j + 1])):
            if M.droppable(o, sb[i + 1] - sb[i]):
                frac += o / (sb[i + 1] - sb[i])
    return frac


def _check_atoms(acc, tag, sfx, case, nucs, sdens, sb, dest, db, tol, smass=None):
    """Per-cell N' = sum N_i o_i / H and assembly totals, from block number densities and getMass."""
    ddens = _densities(dest, nucs)
    for n in nucs:
        src = [d[n] for d in sdens]
        ref = max(src)
        want = M.map_averaged(src, sb, db)
        for j, (w, slack, _only) in enumerate(want):
            if abs(ddens[j][n] - w) > tol * ref + slack:
                acc.bad(tag + "-block-density" + sfx, "%s: destination cell %d [%r,%r] has number density %r, atoms of the source in that interval give %r (source %s on %s)" % (n, j, db[j], db[j + 1], ddens[j][n], w, src, sb), case)
                return ddens
        ta = sum(src[i] * (sb[i + 1] - sb[i]) for i in range(len(src)))
        tb = sum(ddens[j][n] * (db[j + 1] - db[j]) for j in range(len(ddens)))
        # atoms in droppable slivers: N_i * o (total_slack works per unit source height, so pass N_i*h_i)
        tslack = M.total_slack([src[i] * (sb[i + 1] - sb[i]) for i in range(len(src))], sb, db)
        if abs(ta - tb) > tol * ta + tslack:
            acc.bad(tag + "-atoms-total" + sfx, "%s: sum N*h = %r on mesh %s, %r after mapping onto %s (relative %.3g)" % (n, ta, sb, tb, db, (tb - ta) / ta), case)
            return ddens
    if smass is not None:
        dmass = _masses(dest, nucs)
        frac = _drop_frac(sb, db)
        for n in sorted(smass):
            mb = dmass[n]
            if abs(mb - smass[n]) > (tol + frac) * smass[n]:
                acc.bad(tag + "-mass-total" + sfx, "getMass(%s) = %r before, %r after mapping %s -> %s (relative %.3g)" % (n, smass[n], mb, sb, db, (mb - smass[n]) / smass[n]), case)
                break
    return ddens


def _mesh_of(a):
    return [0.0] + [float(b.p.ztop) for b in a]


def _check_mesh(acc, key, case, a, want_bounds, what):
    """zbottom/ztop/height/getAxialMesh/grid bounds all agree with ``want_bounds``."""
    tol = 1e-12 * want_bounds[-1]
    ok = len(a) == len(want_bounds) - 1
    if ok:
        for k, b in enumerate(a):
            if abs(b.p.zbottom - want_bounds[k]) > tol or abs(b.p.ztop - want_bounds[k + 1]) > tol or abs(b.getHeight() - (want_bounds[k + 1] - want_bounds[k])) > tol:
                ok = False
        am = [float(x) for x in a.getAxialMesh()]
        gb = [float(x) for x in a.spatialGrid._bounds[2]]
        if any(abs(x - y) > tol for x, y in zip(am, want_bounds[1:])) or len(gb) != len(want_bounds) or any(abs(x - y) > tol for x, y in zip(gb, want_bounds)):
            ok = False
    if not ok:
        acc.bad(key, "%s: blocks are [%s], axial mesh %s, expected bounds %s" % (what, ", ".join("%r..%r h=%r" % (b.p.zbottom, b.p.ztop, b.getHeight()) for b in a), list(a.getAxialMesh()), want_bounds), case)
    return ok


# ---------------------------------------------------------------------------------------------
# remesh: A -> B (new assembly on the target mesh) -> A (state mapped back)


@total("remesh")
def _remesh_one(acc, fac, case):
    from armi.reactor.converters import uniformMesh as um

    heights, scale, mesh, eps, vs = case["heights"], case["scale"], case["mesh"], case["eps"], case["vs"]
    sfx = "@eps" if eps else ""
    tol = TOL_COINCIDENT  # rounding only; droppable slivers are accounted for by the oracle
    sb = [0.0] + M.tops(heights, scale)
    db = [0.0] + list(mesh)
    acc.n += 1
    if db != sb:
        acc.nt += 1
    A = fac.fresh()
    if not _check_mesh(acc, "build-zcoords", case, A, sb, "freshly built assembly"):
        return
    areas = [float(b.getVolume()) / float(b.getHeight()) for b in A]
    if max(areas) - min(areas) > 1e-9 * max(areas):
        raise Precondition("generator precondition: blocks of unequal area %s" % areas)
    prof = _set_profiles(A, vs)
    pm = _mapper(A, case["rot"])
    nucs = sorted(A.getNuclides())
    sdens = _densities(A, nucs)
    smass = _masses(A, nucs)
    if min(smass.values()) <= 0.0:
        raise Precondition("generator precondition: nuclide without mass")
    # ---- A -> B
    try:
        B = um.UniformMeshGeometryConverter.makeAssemWithUniformMesh(A, list(mesh), paramMapper=pm, mapNumberDensities=True)
    except Exception as e:
        acc.bad("remesh-raises" + sfx, "makeAssemWithUniformMesh(%s -> %s) raised %s: %s" % (sb, db, type(e).__name__, str(e)[:200]), case)
        return
    if not _check_mesh(acc, "remesh-mesh-not-applied" + sfx, case, B, db, "new assembly"):
        return
    if _densities(A, nucs) != sdens or _params(A) != {n: [_pv(v) for v in prof[n]] for n in prof}:
        acc.bad("remesh-source-modified" + sfx, "mapping %s -> %s changed the source assembly" % (sb, db), case)
        return
    extra = sorted(set(B.getNuclides()) - set(nucs))
    if any(B.getMass(n) > 0 for n in extra):
        acc.bad("remesh-new-nuclide" + sfx, "nuclides %s appear in the re-meshed assembly only" % extra, case)
    bdens = _check_atoms(acc, "remesh", sfx, case, nucs, sdens, sb, B, db, tol, smass)
    bpar = _params(B)
    badp = _check_params(acc, "remesh", sfx, case, prof, bpar, sb, db, tol)
    _check_independent(acc, "remesh", case, B, [n for n in ARRLEN if n not in badp], set(), source=A)
    if eps:
        acc.count("remesh_sliver_droppable" if _drop_frac(sb, db) > 0.0 else "remesh_sliver_must_be_counted" if any(0.0 < o < 1e-6 for j in range(len(db) - 1) for o in M.overlaps(sb, db[j], db[j + 1])) else "remesh_eps_no_sliver")
    # ---- B -> A on the real (heterogeneous) source assembly, which holds DIFFERENT prior values of every
    # mapped parameter: whatever B carries (zeros included) must replace them, only unset values leave them
    stale_ids, _keep = _set_stale(A, [n for n, _k in PARAMS])
    apar0 = _params(A)
    import numpy as np

    for j, b in enumerate(B):  # new state computed on B itself (independent of what A -> B delivered)
        for name in REWRITTEN:
            v = _profile(name, j + 1, vs)
            b.p[name] = np.array(v) if isinstance(v, list) else v
    bpar = _params(B)
    try:
        um.UniformMeshGeometryConverter.setAssemblyStateFromOverlaps(B, A, pm, mapNumberDensities=True)
    except Exception as e:
        acc.bad("backmap-raises" + sfx, "setAssemblyStateFromOverlaps(%s -> %s) raised %s: %s" % (db, sb, type(e).__name__, str(e)[:200]), case)
        return
    if not _check_mesh(acc, "backmap-heights-changed" + sfx, case, A, sb, "assembly after mapping state back"):
        return
    bmass = _masses(B, nucs)
    _check_atoms(acc, "backmap", sfx, case, nucs, bdens, db, A, sb, tol, bmass)
    badp = _check_params(acc, "backmap", sfx, case, bpar, _params(A), db, sb, tol, prev=apar0, skip=[n for n in badp if n not in REWRITTEN])
    _check_independent(acc, "backmap", case, A, [n for n in ARRLEN if n not in badp], stale_ids, source=B)
    # ---- there and back: totals restored (two mappings -> twice the per-mapping tolerance)
    amass = _masses(A, nucs)
    for n in sorted(smass):
        m2 = amass[n]
        if abs(m2 - smass[n]) > (2 * tol + _drop_frac(sb, db) + _drop_frac(db, sb)) * smass[n]:
            acc.bad("roundtrip-mass-total" + sfx, "getMass(%s) = %r originally, %r after %s -> %s -> %s (relative %.3g)" % (n, smass[n], m2, sb, db, sb, (m2 - smass[n]) / smass[n]), case)
            break
    apar = _params(A)
    for name, kind in PARAMS:
        if kind != "vi" or name in REWRITTEN or name in badp:
            continue
        if any(w is None or only for w, _s, only in M.map_integrated(bpar[name], db, sb)):
            continue  # a cell that received nothing keeps its prior (stale) value: no total to restore
        t0, t2 = _tot(prof[name]), _tot(apar[name])
        slack = M.total_slack(prof[name], sb, db) + M.total_slack(bpar[name], db, sb)
        if not _cmp(t2, t0, 2 * tol * max(_mag(t0), 1.0) + slack):
            acc.bad("roundtrip-integrated-total" + sfx, "%s: assembly total %r originally, %r after %s -> %s -> %s" % (name, t0, t2, sb, db, sb), case)


def _eval_remesh(case):
    acc = Acc()
    _remesh_one(acc, _Factory(case["heights"], case["scale"], case["rot"]), case)
    return acc


def _eval_remesh_batch(item):
    acc = Acc()
    fac = _Factory(item["heights"], item["scale"], item["rot"])
    for mesh, eps in item["meshes"]:
        case = {"kind": "remesh", "heights": item["heights"], "scale": item["scale"], "rot": item["rot"], "vs": item["vs"], "mesh": mesh, "eps": eps}
        _remesh_one(acc, fac, case)
    return acc


# ---------------------------------------------------------------------------------------------
# between: getBlocksBetweenElevations / getBlockAtElevation on every pair of grid points


def _grid_points(H, scale):
    pts = [k * scale for k in range(H + 1)]
    for k in range(1, H):
        for e in M.EPS_SHIFTS:
            pts.append(k * scale + e)
    return sorted(pts)


@total("between", lambda a: dict(a[4], kind="between1", z0=a[2], z1=a[3]))
def _between_pair(acc, A, sb, z0, z1, base):
    case = dict(base, kind="between1", z0=z0, z1=z1)
    acc.n += 1
    want = M.overlaps(sb, z0, z1)
    if sum(1 for o in want if o > 0) >= 2:
        acc.nt += 1
    htot = sb[-1]
    try:
        got = A.getBlocksBetweenElevations(z0, z1)
    except Exception as e:
        acc.bad("between-raises", "getBlocksBetweenElevations(%r,%r) on mesh %s raised %s: %s" % (z0, z1, sb, type(e).__name__, str(e)[:160]), case)
        return
    blocks = list(A)
    idx = []
    for b, h in got:
        k = [i for i, x in enumerate(blocks) if x is b]
        if len(k) != 1:
            acc.bad("between-foreign-block", "getBlocksBetweenElevations(%r,%r) returned a block that is not a child" % (z0, z1), case)
            return
        idx.append(k[0])
        if not h > 0.0:
            acc.bad("between-nonpositive-height", "getBlocksBetweenElevations(%r,%r) on mesh %s reports block %d with overlap height %r" % (z0, z1, sb, k[0], h), case)
            return
        if abs(h - want[k[0]]) > 1e-12 * htot:
            acc.bad("between-wrong-height", "getBlocksBetweenElevations(%r,%r) on mesh %s: block %d overlap %r, interval arithmetic gives %r" % (z0, z1, sb, k[0], h, want[k[0]]), case)
            return
    if idx != sorted(set(idx)):
        acc.bad("between-order", "getBlocksBetweenElevations(%r,%r) on mesh %s returns blocks %s (not bottom-up / repeated)" % (z0, z1, sb, idx), case)
        return
    missing = [i for i, o in enumerate(want) if o > 0.0 and not M.droppable(o, sb[i + 1] - sb[i]) and i not in idx]
    if missing:
        acc.bad("between-missing-block", "getBlocksBetweenElevations(%r,%r) on mesh %s omits block(s) %s overlapping by %s" % (z0, z1, sb, missing, [want[i] for i in missing]), case)
        return
    tot = sum(h for _b, h in got)
    dropped = sum(o for i, o in enumerate(want) if M.droppable(o, sb[i + 1] - sb[i]))
    if abs(tot - (z1 - z0)) > 1e-12 * htot + dropped:
        acc.bad("between-sum", "getBlocksBetweenElevations(%r,%r) on mesh %s: overlap heights sum to %r, interval length %r" % (z0, z1, sb, tot, z1 - z0), case)
    if len(idx) < sum(1 for o in want if o > 0):
        acc.count("between_sliver_dropped")


@total("blockat", lambda a: dict(a[3], kind="blockat1", z=a[2]))
def _blockat(acc, A, sb, z, base):
    case = dict(base, kind="blockat1", z=z)
    acc.n += 1
    try:
        b = A.getBlockAtElevation(z)
    except Exception as e:
        acc.bad("blockat-raises", "getBlockAtElevation(%r) on mesh %s raised %s" % (z, sb, type(e).__name__), case)
        return
    k = [i for i, x in enumerate(A) if x is b]
    # admissible: the cell containing z (top inclusive); within 2e-10 (relative) of a boundary either neighbour
    ok = [i for i in range(len(sb) - 1) if sb[i] - TOL_EPS * z < z <= sb[i + 1] + TOL_EPS * z]
    strict = [i for i in range(len(sb) - 1) if sb[i] < z <= sb[i + 1]]
    if len(ok) == 1:
        acc.nt += 1
    if (not k and strict) or (k and k[0] not in ok):
        acc.bad("blockat-wrong", "getBlockAtElevation(%r) on mesh %s gives block %s, expected one of %s" % (z, sb, k or None, ok), case)


def _eval_between(item):
    acc = Acc()
    fac = _Factory(item["heights"], item["scale"], item["rot"])
    A = fac.fresh()
    sb = [0.0] + M.tops(item["heights"], item["scale"])
    base = {"heights": item["heights"], "scale": item["scale"], "rot": item["rot"]}
    if not _check_mesh(acc, "build-zcoords", dict(base, kind="between"), A, sb, "freshly built assembly"):
        return acc
    pts = _grid_points(item["H"], item["scale"])
    for z0, z1 in itertools.combinations(pts, 2):
        _between_pair(acc, A, sb, z0, z1, base)
    for z in pts[1:]:
        _blockat(acc, A, sb, z, base)
    return acc


def _eval_between1(case):
    acc = Acc()
    A = _Factory(case["heights"], case["scale"], case["rot"]).fresh()
    sb = [0.0] + M.tops(case["heights"], case["scale"])
    if case["kind"] == "between1":
        _between_pair(acc, A, sb, case["z0"], case["z1"], case)
    else:
        _blockat(acc, A, sb, case["z"], case)
    return acc


# ---------------------------------------------------------------------------------------------
# setmesh: setBlockMesh with the conservation flag / Block.setHeight(conserveMass=True)


def _comp_state(a):
    """Per block, per component: (name, is fuel, is fluid, number densities, mass)."""
    from armi.materials.material import Fluid
    from armi.reactor.flags import Flags

    out = []
    for b in a:
        row = []
        for c in b:
            row.append((c.name, bool(c.hasFlags(Flags.FUEL)), isinstance(c.material, Fluid), {n: float(v) for n, v in c.getNumberDensities().items()}, float(c.getMass())))
        out.append(row)
    return out


def _apply_mesh(a, mesh, flag):
    if flag == "blockSetHeight":
        z = 0.0
        for b, top in zip(list(a), mesh):
            b.setHeight(top - z, conserveMass=True, adjustList=list(b.getNuclides()))
            z = top
    else:
        a.makeAxialSnapList(refMesh=a.getAxialMesh(), force=True)
        a.setBlockMesh(list(mesh), conserveMassFlag=flag)


@total("setmesh")
def _setmesh_one(acc, fac, case):
    from armi.reactor.flags import Flags

    heights, scale, target, flag = case["heights"], case["scale"], case["target"], case["flag"]
    sb = [0.0] + M.tops(heights, scale)
    db = [0.0] + M.tops(target, scale)
    acc.n += 1
    if sb != db:
        acc.nt += 1
    A = fac.fresh()
    nucs = sorted(A.getNuclides())
    d0 = _densities(A, nucs)
    c0 = _comp_state(A)
    m0 = [_masses(b, nucs) for b in A]
    isfuel = [bool(b.hasFlags(Flags.FUEL)) for b in A]
    try:
        _apply_mesh(A, db[1:], flag)
    except Exception as e:
        acc.bad("setmesh-raises", "changing block mesh %s -> %s (flag %r) raised %s: %s" % (sb, db, flag, type(e).__name__, str(e)[:160]), case)
        return
    if not _check_mesh(acc, "setmesh-heights", case, A, db, "assembly after block mesh change (flag %r)" % (flag,)):
        return
    d1 = _densities(A, nucs)
    c1 = _comp_state(A)
    if flag in (True, "blockSetHeight"):
        for k, b in enumerate(A):
            for n in nucs:
                a0, a1 = d0[k][n] * (sb[k + 1] - sb[k]), d1[k][n] * (db[k + 1] - db[k])
                if abs(a0 - a1) > TOL_ASSOC * max(a0, 1e-30):
                    acc.bad("setmesh-atoms-not-conserved" if flag is True else "blocksetheight-atoms-not-conserved", "block %d, %s: N*h = %r before, %r after %s -> %s with mass conservation requested" % (k, n, a0, a1, sb, db), case)
                    return
            m1 = _masses(b, nucs)
            for n in sorted(m1):
                if abs(m1[n] - m0[k][n]) > TOL_ASSOC * max(m0[k][n], 1e-30):
                    acc.bad("setmesh-mass-not-conserved" if flag is True else "blocksetheight-mass-not-conserved", "block %d: getMass(%s) = %r before, %r after %s -> %s with mass conservation requested" % (k, n, m0[k][n], m1[n], sb, db), case)
                    return
    elif flag is False:
        # homogenised densities are recomputed from component volumes: equal up to rounding
        ch = [(k, n, d0[k][n], d1[k][n]) for k in range(len(d0)) for n in nucs if abs(d1[k][n] - d0[k][n]) > TOL_COINCIDENT * d0[k][n]]
        if ch:
            acc.bad("setmesh-density-changed", "setBlockMesh %s -> %s without conservation changed number densities: block %d %s %r -> %r" % ((sb, db) + ch[0]), case)
            return
    else:  # "auto": fuel of fuel blocks keeps its mass; solids below the fuel column keep theirs
        below = True
        for k in range(len(c0)):
            if isfuel[k]:
                below = False
            for (name, cf, fluid, _nd0, mass0), (_n1, _f1, _fl1, _nd1, mass1) in zip(c0[k], c1[k]):
                keep = (isfuel[k] and cf) or (not isfuel[k] and below and not fluid)
                if keep and abs(mass1 - mass0) > TOL_ASSOC * max(mass0, 1e-30):
                    acc.bad("setmesh-auto-mass", "block %d component %s: mass %r -> %r after setBlockMesh(%s -> %s, 'auto'); documented to be conserved" % (k, name, mass0, mass1, sb, db), case)
                    return
    # and back onto the original mesh: restores heights and (with conservation) every density
    try:
        _apply_mesh(A, sb[1:], flag)
    except Exception as e:
        acc.bad("setmesh-raises", "changing block mesh back %s -> %s (flag %r) raised %s" % (db, sb, flag, type(e).__name__), case)
        return
    if not _check_mesh(acc, "setmesh-heights", case, A, sb, "assembly after block mesh restored (flag %r)" % (flag,)):
        return
    d2 = _densities(A, nucs)
    for k in range(len(d0)):
        for n in nucs:
            if abs(d2[k][n] - d0[k][n]) > TOL_ASSOC * max(d0[k][n], 1e-30):
                acc.bad("setmesh-back-not-restored", "block %d %s: number density %r originally, %r after %s -> %s -> %s (flag %r)" % (k, n, d0[k][n], d2[k][n], sb, db, sb, flag), case)
                return


def _eval_setmesh(case):
    acc = Acc()
    _setmesh_one(acc, _Factory(case["heights"], case["scale"], case["rot"]), case)
    return acc


def _eval_setmesh_batch(item):
    acc = Acc()
    fac = _Factory(item["heights"], item["scale"], item["rot"])
    for target in item["targets"]:
        for flag in (True, False, "auto", "blockSetHeight"):
            _setmesh_one(acc, fac, {"kind": "setmesh", "heights": item["heights"], "scale": item["scale"], "rot": item["rot"], "target": target, "flag": flag})
    return acc


# ---------------------------------------------------------------------------------------------
# gen: UniformMeshGenerator (+ converter there and back) on generated cores

F_STACK = {2: ["fuel", "plenum"], 3: ["shield", "fuel", "plenum"], 4: ["shield", "fuel", "fuel", "plenum"]}
C_STACK = {2: ["control", "plenum"], 3: ["shield", "control", "plenum"], 4: ["shield", "control", "control", "plenum"]}


def _core_spec(h1, h2, hc, scale):
    from mcverif import build

    tab = _block_table()
    assems = {
        "igniter fuel": build.assem("IC", F_STACK[len(h1)], [h * scale for h in h1], ["A"] * len(h1)),
        "outer fuel": build.assem("OC", F_STACK[len(h2)], [h * scale for h in h2], ["B"] * len(h2)),
    }
    contents = {(0, 0): "IC", (1, 0): "OC"}
    if hc:
        assems["primary control"] = build.assem("PC", C_STACK[len(hc)], [h * scale for h in hc], ["C"] * len(hc))
        contents[(0, 1)] = "PC"
    used = set(sum([a["blocks"] for a in assems.values()], []))
    return {
        "blocks": {k: v for k, v in tab.items() if k in used},
        "assemblies": assems,
        "grids": {"core": {"geom": "hex", "symmetry": "third periodic", "contents": contents}},
        "systems": {"core": {"grid name": "core", "origin": [0.0, 0.0, 0.0]}},
    }


def _material_bounds(h1, h2, hc, scale):
    """{'fuel': [(bottom of first fuel block, top of last fuel block) per fuel assembly], 'control': [...]}"""
    out = {"fuel": [], "control": []}
    for h, stack, what in ((h1, F_STACK, "fuel"), (h2, F_STACK, "fuel"), (hc, C_STACK, "control")):
        if not h:
            continue
        b = [0.0] + M.tops(h, scale)
        ks = [k for k, t in enumerate(stack[len(h)]) if t == what]
        out[what].append((b[ks[0]], b[ks[-1] + 1]))
    return out


def _set_ctrl(r, hc, scale):
    """Move the absorber of the control assembly with the real Block.setHeight (total height kept)."""
    a = [x for x in r.core if x.getType() == "primary control"][0]
    for b, h in zip(a, hc):
        b.setHeight(h * scale)


def _gen_build(case):
    from mcverif import build

    csd = build.settings(detailedAxialExpansion=True)
    if case.get("ctrl_via_setheight"):
        r = build.reactor(_core_spec(case["h1"], case["h2"], [2, 2, 2], case["scale"]), cs=csd)
        _set_ctrl(r, case["hc"], case["scale"])
        return r
    return build.reactor(_core_spec(case["h1"], case["h2"], case["hc"], case["scale"]), cs=csd)


@total("gen")
def _gen_one(acc, case):
    _gen_judge(acc, _gen_build(case), case)


@total("gen")
def _gen_judge(acc, r, case):
    import numpy as np
    from armi.reactor.converters import uniformMesh as um

    h1, h2, hc, scale = case["h1"], case["h2"], case["hc"], case["scale"]
    meshes = [M.tops(h, scale) for h in (h1, h2, hc) if h]
    htot = meshes[0][-1]
    same = [m for m in meshes if len(m) == len(meshes[0])]  # the reference is the centre fuel assembly
    bnds = _material_bounds(h1, h2, hc, scale)
    fuel_lo = min(lo for lo, _hi in bnds["fuel"])
    fuel_hi = max(hi for _lo, hi in bnds["fuel"])
    mb = set(x for pairs in bnds.values() for pair in pairs for x in pair)
    got_meshes = sorted([float(x) for x in a.getAxialMesh()] for a in r.core)
    if got_meshes != sorted(meshes):
        raise Precondition("generator precondition: core meshes %s, wanted %s" % (got_meshes, meshes))
    avg_mesh = None
    if None not in case["mins"]:  # replaying a single minimum: the candidate set needs the average mesh
        g0 = um.UniformMeshGenerator(r, minimumMeshSize=None)
        try:
            g0.generateCommonMesh()
            avg_mesh = [float(x) for x in g0._commonMesh]
        except ValueError:
            pass
    for m in case["mins"]:
        c1 = dict(case, mins=[m])
        acc.n += 1
        if m is not None or len(set(map(tuple, meshes))) > 1:
            acc.nt += 1
        g = um.UniformMeshGenerator(r, minimumMeshSize=None if m is None else m * scale)
        try:
            g.generateCommonMesh()
            res = [float(x) for x in g._commonMesh]
        except ValueError as e:
            res = None
            msg = str(e)
        except Exception as e:
            acc.bad("gen-raises-unexpected", "generateCommonMesh(min=%r) on core meshes %s raised %s: %s" % (m, meshes, type(e).__name__, str(e)[:160]), c1)
            continue
        if m is None:
            if res is None:
                acc.count("gen_average_refused")
                if len(set(map(tuple, same))) == 1:
                    acc.bad("gen-average-refuses-identical", "average mesh of identical meshes %s refused: %s" % (same, msg[:100]), c1)
                continue
            avg_mesh = res
            if any(not res[i] < res[i + 1] for i in range(len(res) - 1)) or len(res) != len(same[0]):
                acc.bad("gen-average-not-increasing", "average mesh %s of %s" % (res, same), c1)
            elif any(not (min(s[c] for s in same) - 1e-12 * htot <= res[c] <= max(s[c] for s in same) + 1e-12 * htot) for c in range(len(res))):
                acc.bad("gen-average-envelope", "average mesh %s leaves the envelope of %s" % (res, same), c1)
            elif len(set(map(tuple, same))) == 1 and any(abs(x - y) > 1e-12 * htot for x, y in zip(res, same[0])):
                acc.bad("gen-average-identical", "average of identical meshes %s is %s" % (same[0], res), c1)
            acc.count("gen_ok_average")
        else:
            mm = m * scale
            if avg_mesh is None:
                acc.count("gen_average_refused")
                continue
            cand = set(avg_mesh) | mb
            # the assembly bottom (0.0) is a mesh boundary too: a material boundary closer to it than
            # the minimum is a legitimate reason to refuse
            close = sorted(mb | {0.0})
            close = [(close[i], close[i + 1]) for i in range(len(close) - 1) if close[i + 1] - close[i] < mm]
            if res is None:
                acc.count("gen_valueerror")
                if not close:
                    acc.bad("gen-valueerror-without-close-boundaries", "generateCommonMesh(min=%r) refused although the assembly bottom and all fuel/control boundaries %s are at least the minimum apart: %s" % (mm, sorted(mb), msg[:100].replace("\n", " ")), c1)
                continue
            acc.count("gen_ok_decusped")
            # anchors: the lowest fuel bottom and the highest fuel top (a fuel bottom on the assembly
            # bottom is the implicit first boundary of the mesh, not a cell top)
            for clause, text in M.filter_check(sorted(cand), mm, [z for z in (fuel_lo, fuel_hi) if z > 0.0], res):
                acc.bad("gen-mesh-" + clause, "generateCommonMesh(min=%r) on core meshes %s (average %s, material boundaries %s): %s" % (mm, meshes, avg_mesh, sorted(mb), text), c1)
            if res and res[0] - 0.0 < mm:
                # the common mesh lists cell tops; the first cell starts at the assembly bottom (0.0)
                acc.bad("gen-mesh-thin-first-cell", "generateCommonMesh(min=%r) on core meshes %s gives %s: the first cell [0.0, %r] is thinner than the minimum (material boundaries %s)" % (mm, meshes, res, res[0], sorted(mb)), c1)
                continue
            if res and abs(res[-1] - htot) > 1e-9 * htot:
                acc.count("gen_mesh_drops_assembly_top")  # outside the statement; reported as an observation
                continue
        if m in case.get("convert", []) and res and abs(res[-1] - htot) <= 1e-9 * htot:
            _convert_roundtrip(acc, dict(c1, convert=[m]), h1, h2, hc, scale, m, res)


@total("conv", lambda a: a[0])
def _convert_roundtrip(acc, case, h1, h2, hc, scale, m, mesh):
    """Real NeutronicsUniformMeshConverter: convert (atoms), set state on the uniform core, map it back."""
    import numpy as np
    from armi.reactor.converters import uniformMesh as um
    from mcverif import build

    over = {"detailedAxialExpansion": True}
    if m is not None:
        over["uniformMeshMinimumSize"] = m * scale
    cs = build.settings(**over)
    r = build.reactor(_core_spec(h1, h2, hc, scale), cs=cs)
    # not counted as an evaluation of its own: whether it runs depends on the generator's outcome
    src = {}
    for a in r.core:
        nucs = sorted(a.getNuclides())
        src[a.getName()] = (nucs, _densities(a, nucs), _masses(a, nucs), _mesh_of(a))
    conv = um.NeutronicsUniformMeshConverter(cs, calcReactionRates=False)
    try:
        conv.convert(r)
    except Exception as e:
        acc.bad("conv-raises", "convert() on core meshes %s (min %r) raised %s: %s" % ([s[3] for s in src.values()], m, type(e).__name__, str(e)[:160]), case)
        return
    db = [0.0] + list(mesh)
    # mapped "out" by the neutronics converter; includes the profiles with 0.0 / zeros
    names = ["power", "mgFlux", "flux", "pdens", "fluxPeak", "lastMgFlux", "mgFluxSK", "mgNeutronVelocity", "fluxAdj", "pdensDecay", "fluxAdjPeak"]
    kinds = dict(PARAMS)
    state = {}
    for ai, a in enumerate(conv.convReactor.core):
        nucs, sdens, smass, sb = src[a.getName()]
        if not _check_mesh(acc, "conv-mesh", case, a, db, "converted assembly"):
            return
        _check_atoms(acc, "conv", "", case, nucs, sdens, sb, a, db, TOL_COINCIDENT * 10, smass)
        prof = {n: [] for n in names}
        for k, b in enumerate(a):
            for n in names:
                v = _profile(n, k + ai, 0.0)
                prof[n].append(v)
                b.p[n] = np.array(v) if isinstance(v, list) else v
        state[a.getName()] = prof
    stale_ids, keep = set(), []
    for a in r.core:  # the original core holds other (stale, partly aliased) values of everything mapped back
        ids, kp = _set_stale(a, names)
        stale_ids |= ids
        keep += kp
    try:
        conv.applyStateToOriginal()
    except Exception as e:
        acc.bad("conv-back-raises", "applyStateToOriginal() on core meshes %s raised %s: %s" % ([s[3] for s in src.values()], type(e).__name__, str(e)[:160]), case)
        return
    tol = TOL_COINCIDENT * 10
    for a in r.core:
        nucs, sdens, smass, sb = src[a.getName()]
        prof = state[a.getName()]
        if _densities(a, nucs) != sdens:
            acc.bad("conv-back-densities-changed", "applyStateToOriginal changed number densities of the source assembly %s" % sb, case)
            return
        for n in names:
            g = [_pv(b.p[n]) for b in a]
            shapes = set(_shape(v) for v in prof[n] if v is not None)
            wrong = [(j, v) for j, v in enumerate(g) if v is not None and _shape(v) not in shapes]
            if wrong:
                acc.bad("conv-back-param-kind", "%s: cell %d of %s reads %r after applyStateToOriginal; the uniform mesh held %s" % (n, wrong[0][0], sb, wrong[0][1], prof[n]), case)
                continue
            ref = max([_mag(v) for v in prof[n]] + [1.0])
            if kinds[n] == "vi":
                want = M.map_integrated(prof[n], db, sb)
                if not _cmp(_tot(g), _tot(prof[n]), tol * max(_mag(_tot(prof[n])), 1.0)):
                    acc.bad("conv-back-integrated-total", "%s: total %r on the uniform mesh %s, %r after mapping back onto %s" % (n, _tot(prof[n]), db, _tot(g), sb), case)
                    return
            elif kinds[n] == "peak":
                want = None
                for j, (lo, hi) in enumerate(M.map_peak(prof[n], db, sb)):
                    if g[j] is None or g[j] > hi + tol * ref or (lo is not None and g[j] < lo - tol * ref):
                        acc.bad("conv-back-peak", "%s: cell %d of %s reads %r, largest overlapped value on %s is %r" % (n, j, sb, g[j], db, hi), case)
                        return
            else:
                want = M.map_averaged(prof[n], db, sb)
            if want is not None:
                for j, (w, slack, _only) in enumerate(want):
                    if not _cmp(g[j], w, tol * ref + slack):
                        acc.bad("conv-back-" + ("integrated-block" if kinds[n] == "vi" else "average-block" if kinds[n] == "avg" else "constant-not-constant"), "%s: cell %d of %s reads %r, overlap-weighted value from %s on %s is %r" % (n, j, sb, g[j], prof[n], db, w), case)
                        return
    for a in r.core:
        _check_independent(acc, "conv-back", case, a, [n for n in names if n in ARRLEN], stale_ids)
    acc.count("conv_roundtrips")


def _eval_gen(case):
    acc = Acc()
    _gen_one(acc, case)
    return acc


def ctrl_variants(H):
    """(bottom, top) of the absorber over the integer candidates 1..H-1 and those +-0.4 (so that control
    boundaries fall within less than the minimum of the fuel boundaries on both sides, and onto them)."""
    vals = sorted(p + d for p in range(1, H) for d in (0.0, -0.4, 0.4))
    return [[zb, zt] for zb in vals for zt in vals if zt - zb > 0.1]


def _eval_genctl_batch(item):
    """One core (built once), the absorber column of its control assembly moved through every variant."""
    acc = Acc()
    H = item["H"]
    base = {"kind": "gen", "h1": item["h1"], "h2": item["h2"], "scale": item["scale"], "mins": item["mins"], "convert": [], "ctrl_via_setheight": True}
    r = _gen_build(dict(base, hc=[2, 2, 2]))
    for zb, zt in item["variants"]:
        hc = [zb, zt - zb, H - zt]
        _set_ctrl(r, hc, item["scale"])
        _gen_judge(acc, r, dict(base, hc=hc))
    return acc


def _eval_gen_batch(item):
    acc = Acc()
    for hc in item["hcs"]:
        _gen_one(acc, {"kind": "gen", "h1": item["h1"], "h2": item["h2"], "hc": hc, "scale": item["scale"], "mins": item["mins"], "convert": item["convert"] if hc in item["convert_for"] else []})
    return acc


# ---------------------------------------------------------------------------------------------
# filter: UniformMeshGenerator._filterMesh


@total("filter", lambda a: {"kind": "filter1", "points": a[1], "min": a[2], "anchors": a[3], "pref": a[4], "ghost": a[5], "order": a[6]})
def _filter_one(acc, gen, points, minimum, anchors, pref, ghost, order):
    case = {"kind": "filter1", "points": points, "min": minimum, "anchors": anchors, "pref": pref, "ghost": ghost, "order": order}
    acc.n += 1
    pts = sorted(points)
    if any(abs(pts[i + 1] - pts[i]) < minimum for i in range(len(pts) - 1)):
        acc.nt += 1
    given = list(points)
    if order:
        random.Random(order).shuffle(given)
    anch = list(anchors) + ([g for g in ghost] if ghost else [])
    expect_err = M.filter_expect_error(points, minimum, anchors)
    try:
        res = gen._filterMesh(list(given), minimum, list(anch), preference=pref)
    except ValueError as e:
        acc.count("filter_valueerror")
        if not expect_err:
            acc.bad("filter-error-spurious", "_filterMesh(%s, min=%r, anchors=%s, %s) raised ValueError (%s) although no two anchors are closer than the minimum" % (given, minimum, anch, pref, str(e)[:60].replace("\n", " ")), case)
        return
    except Exception as e:
        acc.bad("filter-raises-unexpected", "_filterMesh(%s, min=%r, anchors=%s, %s) raised %s: %s" % (given, minimum, anch, pref, type(e).__name__, str(e)[:100]), case)
        return
    acc.count("filter_ok")
    if expect_err:
        acc.bad("filter-error-missing", "_filterMesh(%s, min=%r, anchors=%s, %s) returned %s although two anchors are closer than the minimum" % (given, minimum, anch, pref, list(res)), case)
        return
    for clause, text in M.filter_check(points, minimum, anchors, res):
        acc.bad("filter-" + clause, "_filterMesh(%s, min=%r, anchors=%s, %s): %s" % (given, minimum, anch, pref, text), case)


def _eval_filter(item):
    from armi.reactor.converters import uniformMesh as um

    acc = Acc()
    gen = um.UniformMeshGenerator(None)
    pts = item["points"]
    for minimum in item["mins"]:
        for k in range(len(pts) + 1):
            for anchors in itertools.combinations(pts, k):
                for pref in ("bottom", "top"):
                    _filter_one(acc, gen, pts, minimum, list(anchors), pref, None, item["order"])
                    if len(anchors) <= 2:  # anchors that are not mesh points must be irrelevant
                        _filter_one(acc, gen, pts, minimum, list(anchors), pref, item["ghost"], item["order"])
    return acc


def _eval_filter1(case):
    from armi.reactor.converters import uniformMesh as um

    acc = Acc()
    _filter_one(acc, um.UniformMeshGenerator(None), case["points"], case["min"], case["anchors"], case["pref"], case["ghost"], case["order"])
    return acc


# ---------------------------------------------------------------------------------------------
# resample: mathematics.resampleStepwise

MODES = ["list", "intlist", "ndarray", "none", "arrlist", "ndarray2d"]


def _yin(mode, n, vs):
    """Oracle-side values (python) for n cells."""
    if mode == "intlist":
        return [3 + 7 * i + i * i for i in range(n)]
    if mode in ("arrlist", "ndarray2d"):
        return [[3.0 + 7 * i + i * i + vs, 2.0 * (n - i) + 0.5] for i in range(n)]
    y = [3.0 + 7 * i + i * i + vs for i in range(n)]
    if mode == "none":
        y[n // 2] = None
    return y


def _real_inputs(mode, xin, yin, xout):
    import numpy as np

    if mode == "ndarray":
        return np.array(xin, dtype=float), np.array(yin, dtype=float), np.array(xout, dtype=float)
    if mode == "ndarray2d":
        return list(xin), np.array(yin, dtype=float), list(xout)
    if mode == "arrlist":
        return list(xin), [np.array(v, dtype=float) for v in yin], list(xout)
    return list(xin), list(yin), list(xout)


def _snap(x):
    import numpy as np

    if isinstance(x, np.ndarray):
        return x.tolist()
    return [v.tolist() if isinstance(v, np.ndarray) else v for v in x]


def _resample_call(mode, xin, yin, xout, avg):
    """-> ('ok', values as python, inputs-modified?) | ('exc', name, text)"""
    from armi.utils.mathematics import resampleStepwise

    rx, ry, ro = _real_inputs(mode, xin, yin, xout)
    before = (_snap(rx), _snap(ry), _snap(ro))
    try:
        out = resampleStepwise(rx, ry, ro, avg=avg)
    except Exception as e:
        return ("exc", type(e).__name__, str(e)[:100])
    after = (_snap(rx), _snap(ry), _snap(ro))
    mod = [nm for nm, b, a in zip(("xin", "yin", "xout"), before, after) if b != a]
    return ("ok", [_pv(v) if v is not None else None for v in out], mod, after[1])


@total("resample")
def _resample_one(acc, case):
    xin, xout, avg, mode, vs, fam = case["xin"], case["xout"], case["avg"], case["mode"], case["vs"], case["fam"]
    acc.n += 1
    if xin != xout:
        acc.nt += 1
    yin = _yin(mode, len(xin) - 1, vs)
    want = M.resample(xin, yin, xout, avg)
    ref = max([_mag(v) for v in yin] + [1.0])
    what = "resampleStepwise(xin=%s, yin=%s [%s], xout=%s, avg=%s)" % (xin, yin, mode, xout, avg)
    pre = "resample-" + ("avg" if avg else "sum")
    below = xout[0] < xin[0]
    span = "" if fam != "oos" else ("-below-span" if below else "-above-span")
    r = _resample_call(mode, xin, yin, xout, avg)
    if r[0] == "exc":
        if mode == "none" and r[1] == "TypeError" and not span:
            acc.bad(pre + "-none-partial-overlap-raises", "%s raised TypeError (%s): a partly overlapped None cell must give None" % (what, r[2]), case)
        elif below:
            # one mechanism: an output cell that begins below xin[0] indexes yin[-1:...] (wrap-around)
            acc.bad("resample-below-span-wraparound", "%s raised %s: %s" % (what, r[1], r[2]), case)
        else:
            acc.bad(pre + span + "-raises", "%s raised %s: %s" % (what, r[1], r[2]), case)
        return
    _ok, got, mod, yafter = r
    if mod:
        # one mechanism: the partial-bin trimming multiplies in place, through numpy views / shared arrays
        acc.bad(pre + "-writes-into-caller-arrays", "%s modified its input %s: yin is now %s" % (what, mod, yafter), case)
    if len(got) != len(want):
        acc.bad(pre + span + "-length", "%s returned %d values for %d cells" % (what, len(got), len(want)), case)
        return
    badj = [j for j, (g, (w, amb)) in enumerate(zip(got, want)) if not amb and not (_cmp(g, w, TOL_COINCIDENT * ref) if w is not None else g is None)]
    acc.count("resample_ambiguous_cells_skipped", sum(1 for _w, amb in want if amb))
    if not badj:
        if not avg and fam == "span" and mode in ("list", "ndarray") :
            if not _cmp(_tot(got), _tot(yin), 1e-11 * ref * len(yin)):
                acc.bad(pre + "-total", "%s: sum of inputs %r, sum of outputs %r" % (what, _tot(yin), _tot(got)), case)
        return
    inner = set(M.inner_cells(xin, xout))
    twin = _twin(xin, yin, xout, avg) if mode in ("ndarray", "ndarray2d", "arrlist") else None
    if twin is not None and len(twin) == len(want):
        alias = [j for j in badj if (_cmp(twin[j], want[j][0], TOL_COINCIDENT * ref) if want[j][0] is not None else twin[j] is None)]
    else:
        alias = []
    rest = [j for j in badj if j not in alias]

    def detail(j):
        return "%s: cell %d [%r,%r] is %r, expected %r (all: %s)" % (what, j, xout[j], xout[j + 1], got[j], want[j][0], got)

    if alias:
        acc.bad(pre + "-writes-into-caller-arrays", detail(alias[0]) + " - the same call on python lists is right for this cell: the error comes from writing into the caller's array", case)
    if rest:
        if not avg and all(jj in inner for jj in rest):
            acc.bad(pre + "-inner-cell-product-of-fractions", detail(rest[0]) + " - an output cell strictly inside one input cell must get (b-a)/len of it", case)
        elif below:
            acc.bad("resample-below-span-wraparound", detail(rest[0]), case)
        else:
            acc.bad(pre + span + "-values", detail(rest[0]), case)


def _twin(xin, yin, xout, avg):
    """Same call with python lists of python numbers (array-valued entries -> per-column calls)."""
    from armi.utils.mathematics import resampleStepwise

    try:
        if yin and isinstance(yin[0], list):
            cols = [resampleStepwise(list(xin), [v[c] for v in yin], list(xout), avg=avg) for c in range(len(yin[0]))]
            return [[float(col[j]) for col in cols] if not any(col[j] is None for col in cols) else None for j in range(len(xout) - 1)]
        return [_pv(v) for v in resampleStepwise(list(xin), list(yin), list(xout), avg=avg)]
    except Exception:
        return None


def _eval_resample(item):
    acc = Acc()
    xin, H, scale, vs = item["xin"], item["H"], item["scale"], item["vs"]
    fam = item["fam"]
    if fam == "span":
        pts = [p * scale for p in range(H + 1)]
        for k in range(2, H + 2):
            for xout in itertools.combinations(pts, k):
                f = "span" if (xout[0] == xin[0] and xout[-1] == xin[-1]) else "sub"
                for avg in (True, False):
                    for mode in MODES:
                        if mode == "none" and len(xin) < 3:
                            continue
                        _resample_one(acc, {"kind": "resample1", "xin": xin, "xout": list(xout), "avg": avg, "mode": mode, "vs": vs, "fam": f})
        for mu in M.meshes(H):
            for xo, eps in M.shifted(mu, scale)[1:]:
                for avg in (True, False):
                    for mode in ("list", "ndarray"):
                        _resample_one(acc, {"kind": "resample1", "xin": xin, "xout": [0.0] + xo, "avg": avg, "mode": mode, "vs": vs, "fam": "eps"})
    else:  # out-of-span: xin does not start at 0 / end at H, xout any subset of {0..H}
        pts = [p * scale for p in range(H + 1)]
        for k in range(2, 5):
            for xout in itertools.combinations(pts, k):
                if xout[0] >= xin[0] and xout[-1] <= xin[-1]:
                    continue
                for avg in (True, False):
                    for mode in ("list", "ndarray"):
                        _resample_one(acc, {"kind": "resample1", "xin": xin, "xout": list(xout), "avg": avg, "mode": mode, "vs": vs, "fam": "oos"})
    return acc


def _eval_resample1(case):
    acc = Acc()
    _resample_one(acc, case)
    return acc


# ---------------------------------------------------------------------------------------------
# avg1d: mathematics.average1DWithinTolerance


@total("avg1d")
def _avg1d_one(acc, case):
    import numpy as np
    from armi.utils.mathematics import average1DWithinTolerance

    rows = case["rows"]
    acc.n += 1
    if len(set(map(tuple, rows))) > 1:
        acc.nt += 1
    want, borderline = M.avg1d(rows)
    arg = np.array(rows, dtype=float) if case["as_array"] else [list(r) for r in rows]
    what = "average1DWithinTolerance(%s)" % rows
    try:
        res = [float(x) for x in average1DWithinTolerance(arg)]
    except ValueError as e:
        acc.count("avg1d_valueerror")
        if want is not None and not borderline:
            acc.bad("avg1d-error-spurious", "%s raised ValueError (%s); rows near the mean exist, their average is %s" % (what, str(e)[:60], want), case)
        return
    except Exception as e:
        acc.bad("avg1d-raises", "%s raised %s: %s" % (what, type(e).__name__, str(e)[:100]), case)
        return
    acc.count("avg1d_ok")
    htot = max(r[-1] for r in rows)
    if len(res) != len(rows[0]) or any(not res[i] < res[i + 1] for i in range(len(res) - 1)):
        acc.bad("avg1d-not-increasing", "%s = %s is not a strictly increasing mesh of %d points" % (what, res, len(rows[0])), case)
        return
    if any(not (min(r[c] for r in rows) - 1e-12 * htot <= res[c] <= max(r[c] for r in rows) + 1e-12 * htot) for c in range(len(res))):
        acc.bad("avg1d-envelope", "%s = %s leaves the envelope of its inputs" % (what, res), case)
        return
    if len(set(map(tuple, rows))) == 1 and any(abs(x - y) > 1e-12 * htot for x, y in zip(res, rows[0])):
        acc.bad("avg1d-identical", "%s = %s, identical rows must average to themselves" % (what, res), case)
        return
    if borderline:
        acc.count("avg1d_borderline_skipped")
        return
    if want is None:
        acc.bad("avg1d-error-missing", "%s = %s although no row is within tolerance of the mean" % (what, res), case)
    elif any(abs(x - y) > 1e-12 * htot for x, y in zip(res, want)):
        acc.bad("avg1d-reference", "%s = %s, the average of the rows within 20%% of the average is %s" % (what, res, want), case)


def _eval_avg1d(item):
    acc = Acc()
    fam = [M.tops(h, item["scale"]) for h in M.compositions(item["H"]) if len(h) == len(item["first"])]
    first = M.tops(item["first"], item["scale"])
    for k, second in enumerate(fam):
        _avg1d_one(acc, {"kind": "avg1d1", "rows": [first, second], "as_array": bool(k % 2)})
        for j, third in enumerate(fam):
            _avg1d_one(acc, {"kind": "avg1d1", "rows": [first, second, third], "as_array": bool((k + j) % 2 == 0)})
    return acc


def _eval_avg1d1(case):
    acc = Acc()
    _avg1d_one(acc, case)
    return acc


# ---------------------------------------------------------------------------------------------
# dispatch

_EVAL = {
    "remesh": _eval_remesh,
    "remesh_batch": _eval_remesh_batch,
    "between": _eval_between,
    "between1": _eval_between1,
    "blockat1": _eval_between1,
    "setmesh": _eval_setmesh,
    "setmesh_batch": _eval_setmesh_batch,
    "gen": _eval_gen,
    "gen_batch": _eval_gen_batch,
    "genctl_batch": _eval_genctl_batch,
    "filter": _eval_filter,
    "filter1": _eval_filter1,
    "resample": _eval_resample,
    "resample1": _eval_resample1,
    "avg1d": _eval_avg1d,
    "avg1d1": _eval_avg1d1,
}


def evaluate(case):
    import warnings

    random.seed(0)
    with warnings.catch_warnings():
        warnings.simplefilter("ignore", RuntimeWarning)
        return _EVAL[case["kind"]](case).viols


def _run_item(item):
    import warnings

    random.seed(0)
    with warnings.catch_warnings():
        # average1DWithinTolerance takes the mean of an empty array just before it raises ValueError
        warnings.simplefilter("ignore", RuntimeWarning)
        r = _EVAL[item["kind"]](item).result()
    r["kind"] = item["kind"]
    return r


def cases(ctx):
    B = bounds(ctx.quick)
    seed = ctx.seed
    scale = SCALES[seed % len(SCALES)]
    vs = float(seed % 5) * 0.5
    rot = seed % 4
    items = []
    H = B["H"]
    comps = M.compositions(H)
    targets = M.meshes(H)
    # remesh
    for h in comps:
        allm = []
        for mu in targets:
            allm.extend([[m, e] for m, e in M.shifted(mu, scale)])
        step = 44
        for i in range(0, len(allm), step):
            items.append({"kind": "remesh_batch", "heights": h, "scale": scale, "rot": rot, "vs": vs, "meshes": allm[i : i + step]})
    # between
    for h in comps:
        items.append({"kind": "between", "heights": h, "scale": scale, "rot": rot, "H": H})
    # setmesh
    for h in comps:
        items.append({"kind": "setmesh_batch", "heights": h, "scale": scale, "rot": rot, "targets": [t for t in comps if len(t) == len(h)]})
    # gen
    gcomps = M.compositions(B["H_gen"])
    mins = [None, 1, 2, 3]
    if B["gen_full"]:
        for h1 in gcomps:
            for h2 in gcomps:
                items.append({"kind": "gen_batch", "h1": h1, "h2": h2, "hcs": gcomps + [None], "scale": scale, "mins": mins, "convert": mins if len(h1) == len(h2) else [None], "convert_for": [[2, 2, 2], [1, 2, 2, 1], [3, 3], None]})
    else:
        hcs = [[2, 2, 2], None]
        for h1 in gcomps:
            for h2 in gcomps:
                items.append({"kind": "gen_batch", "h1": h1, "h2": h2, "hcs": hcs, "scale": scale, "mins": mins, "convert": [None] if h1 <= h2 else [], "convert_for": [hcs[0]]})
    # gen with the control absorber moved over every candidate position (cores built once per fuel pair)
    variants = ctrl_variants(B["H_gen"])
    for i, h1 in enumerate(gcomps):
        for h2 in (h1, gcomps[(7 * i + 3) % len(gcomps)]):
            items.append({"kind": "genctl_batch", "h1": h1, "h2": h2, "H": B["H_gen"], "scale": scale, "mins": mins, "variants": variants})
    # filter
    n = B["filter_points"]
    fpts = [p * scale for p in range(n)]
    for k in range(1, n + 1):
        for pts in itertools.combinations(fpts, k):
            items.append({"kind": "filter", "points": list(pts), "mins": [m * scale for m in B["filter_mins"]], "ghost": [-1.0 * scale, (n + 0.5) * scale], "order": seed})
    # resample
    HR = B["H_resample"]
    for mu in M.meshes(HR):
        items.append({"kind": "resample", "fam": "span", "xin": [0.0] + [p * scale for p in mu], "H": HR, "scale": scale, "vs": vs})
    for k in range(2, HR):
        for pts in itertools.combinations(range(1, HR), k):
            items.append({"kind": "resample", "fam": "oos", "xin": [p * scale for p in pts], "H": HR, "scale": scale, "vs": vs})
    # avg1d
    for h in M.compositions(B["H_avg"]):
        items.append({"kind": "avg1d", "first": h, "H": B["H_avg"], "scale": scale})
    return items, B, scale


def run(ctx):
    items, B, scale = cases(ctx)
    items = ctx.order(items)
    res = core.pmap(MOD, "_run_item", items, chunksize=1)
    ev = nt = 0
    per_kind = {}
    for it, r in zip(items, res):
        ev += r["n"]
        nt += r["nt"]
        k = it["kind"].replace("_batch", "").replace("genctl", "gen")
        per_kind[k] = per_kind.get(k, 0) + r["n"]
        ctx.count("items_" + k)
        for name, n in r["cnt"].items():
            ctx.count(name, n)
        ctx.add_violations(r["viols"])
    # simplest counterexample of each class first (main keeps the first per key)
    ctx.violations.sort(key=lambda v: (v["key"], len(json.dumps(v["case"], default=repr)), json.dumps(v["case"], sort_keys=True, default=repr)))
    for k, n in per_kind.items():
        ctx.count("evaluations_" + k, n)
    samp = [it for it in items if it["kind"] == "remesh_batch"][:1]
    ctx.samples = [
        {"kind": "remesh", "heights": samp[0]["heights"], "scale": scale, "rot": samp[0]["rot"], "vs": samp[0]["vs"], "mesh": samp[0]["meshes"][-1][0], "eps": samp[0]["meshes"][-1][1]},
        next({k: v for k, v in it.items()} for it in items if it["kind"] == "filter" and len(it["points"]) == 4),
        next(it for it in items if it["kind"] == "resample" and it["fam"] == "span" and len(it["xin"]) == 3),
        next({"kind": "gen", "h1": it["h1"], "h2": it["h2"], "hc": it["hcs"][0], "scale": scale, "mins": it["mins"], "convert": it["convert"]} for it in items if it["kind"] == "gen_batch" and it["convert"]),
    ]
    ctx.coverage.update(
        evaluations=ev,
        distinct_nontrivial=nt,
        rule="one evaluation = one call of the real API on one enumerated input (assembly x target mesh; assembly x elevation pair; "
        "assembly x new block mesh x flag; core x minimum size; candidate set x minimum x anchors x preference; (xin, xout, avg, container); "
        "row tuple). Trivial = target mesh equals the source mesh / interval inside one block / no two candidates closer than the minimum / "
        "xout equals xin / identical rows / minimum None on identical meshes",
        exhaustive=True,
        bounds=B,
        scale_cm_per_unit=scale,
        evaluations_by_driver=per_kind,
    )
    ctx.assumptions += [
        "total height %d units of %g cm (exactly representable scales only), 2-4 blocks per assembly, one interior mesh point moved by +-1e-9/+-1e-13; the top point is never moved (meshes span the same height)" % (B["H"], scale),
        "tolerances: 1e-12 relative rounding; an overlap thinner than 1e-10 of its source block may or may not be counted (documented threshold of getBlocksBetweenElevations) - the oracle accepts exactly that band; 1e-10 for N*h_old/h_new re-association",
        "blocks of one assembly have equal cross-sectional area (checked as a generator precondition); parameter values positive, 0.0 / arrays of zeros (every kind) or unset; before state is mapped back the destination holds different stale values of every mapped parameter and the zero-profile parameters are written afresh on the uniform assembly; partially unset profiles only for a volume-integrated parameter",
        "control-position family: per fuel pair the core is built once and the absorber column is moved with Block.setHeight through every (bottom, top) over {1..5} and those +-0.4; a reported case is replayed from a fresh build plus one setHeight step",
        "before state is mapped back some destination parameters hold ONE stale container on every block (float array, integer array, list); after each mapping one mapped array is written in place and the other blocks / the source must not change",
        "generated cores: 2 fuel assemblies (+ optional control assembly), third-core hex, detailedAxialExpansion on; converter round trips only when the generated mesh keeps the assembly top",
        "average of partially covered output cells of resampleStepwise (avg=True, out-of-span) is not judged: two readings exist",
        "blueprints are parsed once per work item and a fresh assembly is constructed from them per case; every reported violation is re-evaluated from a fresh build",
    ]
