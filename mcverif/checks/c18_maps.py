"""C18 part 2 - lattice maps (armi.utils.asciimaps): exhaustive subsets of small cell universes.

For each of the four map classes (hex third flats-up, hex full flats-up, hex full tips-up,
Cartesian) and every non-empty subset S of a small universe of cells, labelled with distinct
1-/3-character (or mixed) labels:

* ``gridContentsToAscii`` either raises or yields text whose ``readAscii`` returns exactly S
  ("never drawn incompletely");
* the drawn text, read by the *reference reader* below, gives S (writer vs. independent format
  model), and its character positions are an affine image of the cell centres (text geometry);
* text -> contents -> text -> contents is stable (starting from ARMI's own text and from the text
  of the *reference drawer*); the reference text read by ARMI gives S (reader vs. format model).

The reference reader/drawer are an independent statement of the map formats, from lattice geometry:

hex flats-up   centre of (i,j): x ~ i, y ~ i + 2j (half-pitch rows).  A text line is one row
               r = i + 2j, cells from left to right (i increasing by 2).
  third        lines from the bottom are rows 0,1,2,...; a line starts at the left-most cell of
               the row inside the represented third (polar angle in [0,120) degrees, i.e.
               2i + j > 0, plus the centre).
  full         the map is the hexagon of N+1 rings (hex distance <= N), N = widest line - 1; the
               ``cut`` = (length of the bottom line) - 1 bottom rows are omitted; a line starts at
               the left-most cell of the hexagon in its row.
hex tips-up    a (2N+1)x(2N+1) rhombus, N = (widest line - 1)//2, centre (0,0) in the middle; one
               step right is (+1,-1), one line down is (0,-1) (half a cell to the right).
Cartesian      line from the bottom is j, token index is i.
"""
import re

from mcverif import core

PLACEHOLDER = "-"
CLASSES = {
    "third": "AsciiMapHexThirdFlatsUp",
    "full": "AsciiMapHexFullFlatsUp",
    "tips": "AsciiMapHexFullTipsUp",
    "cart": "AsciiMapCartesian",
}
KEYNAME = {"third": "hexthird", "full": "hexfull", "tips": "hextips", "cart": "cart"}


def hexdist(i, j):
    return max(abs(i), abs(j), abs(i + j))


def in_third(i, j):
    """Cell centre has polar angle in [0,120) degrees (flats-up lattice), or is the centre."""
    return (i, j) == (0, 0) or (i + 2 * j >= 0 and 2 * i + j > 0)


def third_cells(rings):
    out = [(i, j) for i in range(-rings, rings + 1) for j in range(-rings, rings + 1) if hexdist(i, j) <= rings - 1 and in_third(i, j)]
    return sorted(out, key=lambda c: (hexdist(*c), c))


def full_cells(rings):
    out = [(i, j) for i in range(-rings, rings + 1) for j in range(-rings, rings + 1) if hexdist(i, j) <= rings - 1]
    return sorted(out, key=lambda c: (hexdist(*c), c))


# ---------------------------------------------------------------------------------------------
# reference format model


def _third_base(r):
    if r == 0:
        return 0
    i = -r - 2
    while not (((i - r) % 2 == 0) and in_third(i, (r - i) // 2)):
        i += 1
    return i


def _full_i0(N, r):
    """Left-most column index i of row r = i + 2j in a full flats-up map of radius N: the
    lower-left edge of the hexagon (i + j = -N) below the left corner, the vertical line
    i = -N / -N+1 (alternating) from the left corner upwards (the upper-left corner outside the
    hexagon is filled with placeholders)."""
    if r < -N:
        return -2 * N - r
    return -N if (r + N) % 2 == 0 else -N + 1


def _full_row(N, r):
    """Cells of row r = i + 2j of a full flats-up map of radius N, left to right, up to the
    right edge of the hexagon."""
    out = []
    for i in range(_full_i0(N, r), N + 1, 2):
        j = (r - i) // 2
        if i >= 0 and hexdist(i, j) > N:
            break
        out.append((i, j))
    return out


def ref_read(kind, lines):
    """``lines``: token lists, top line first. Returns {(i,j): label} without placeholders."""
    out = {}
    if not lines:
        return out
    if kind == "cart":
        for b, toks in enumerate(reversed(lines)):
            for k, t in enumerate(toks):
                out[(k, b)] = t
    elif kind == "third":
        for r, toks in enumerate(reversed(lines)):
            i0 = _third_base(r)
            for k, t in enumerate(toks):
                i = i0 + 2 * k
                out[(i, (r - i) // 2)] = t
    elif kind == "full":
        N = max(len(t) for t in lines) - 1
        cut = len(lines[-1]) - 1
        for b, toks in enumerate(reversed(lines)):
            r = -2 * N + cut + b
            i0 = _full_i0(N, r)
            for k, t in enumerate(toks):
                i = i0 + 2 * k
                out[(i, (r - i) // 2)] = t
    elif kind == "tips":
        N = (max(len(t) for t in lines) - 1) // 2
        for t_, toks in enumerate(lines):
            for c, t in enumerate(toks):
                out[(c - N, 2 * N - t_ - c)] = t
    else:
        raise ValueError(kind)
    return {k: v for k, v in out.items() if v != PLACEHOLDER}


def ref_draw(kind, S, pad=0):
    """Complete, untrimmed reference drawing of S: token lines (top first), or None when the
    format cannot hold S (cells outside the represented domain).  ``pad`` > 0 adds that many
    outer rings (hex full / tips-up), top rows (third) or top rows and right columns (Cartesian)
    holding only placeholders."""
    if not S:
        return None
    if kind == "cart":
        if min(i for i, _ in S) < 0 or min(j for _, j in S) < 0:
            return None
        nx, ny = max(i for i, _ in S) + 1 + pad, max(j for _, j in S) + 1 + pad
        return [[S.get((i, j), PLACEHOLDER) for i in range(nx)] for j in reversed(range(ny))]
    if kind == "third":
        if not all(in_third(*c) for c in S):
            return None
        rmax = max(i + 2 * j for i, j in S) + pad
        lines = []
        for r in range(rmax + 1):
            i0 = _third_base(r)
            cells = [c for c in S if c[0] + 2 * c[1] == r]
            imax = max([c[0] for c in cells] + [i0])
            lines.append([S.get((i, (r - i) // 2), PLACEHOLDER) for i in range(i0, imax + 1, 2)])
        return list(reversed(lines))
    if kind == "full":
        N = max(hexdist(*c) for c in S) + pad
        return [[S.get(c, PLACEHOLDER) for c in _full_row(N, r)] for r in range(2 * N, -2 * N - 1, -1)]
    if kind == "tips":
        N = max(hexdist(*c) for c in S) + pad
        return [[S.get((c - N, 2 * N - t - c), PLACEHOLDER) for c in range(2 * N + 1)] for t in range(2 * N + 1)]
    raise ValueError(kind)


def ref_text(kind, S, pad=0):
    """Reference text (with geometric indentation) or None."""
    lines = ref_draw(kind, S, pad)
    if lines is None:
        return None
    w = max(len(v) for v in S.values())
    out = []
    n = len(lines)
    for t, toks in enumerate(lines):
        if kind == "cart":
            off = 0
        elif kind == "tips":
            off = t
        else:
            # flats-up: indentation proportional to i of the first cell of the line
            if kind == "third":
                first = _third_base(n - 1 - t)
            else:
                N = max(hexdist(*c) for c in S) + pad
                first = _full_i0(N, 2 * N - t)
            off = first + 2 * n + 2
        out.append(" " * (w * off) + (" " * w).join(x.ljust(w) for x in toks).rstrip())
    return "\n".join(out) + "\n"


def text_geometry_ok(kind, text, S):
    """Positions of the (distinct) labels in ``text`` are an affine image of the cell centres."""
    w = max(len(v) for v in S.values())
    pos = {}
    lines = text.rstrip("\n").split("\n")
    for ln, line in enumerate(lines):
        for m in re.finditer(r"\S+", line):
            pos[m.group(0)] = (ln, m.start())
    ref = None
    for (i, j), lab in S.items():
        if lab not in pos:
            continue
        ln, col = pos[lab]
        if kind == "cart":
            X, Y = 2 * i, j
        elif kind == "tips":
            X, Y = i - j, i + j
        else:
            X, Y = i, i + 2 * j
        k = (col - w * X, ln + Y)
        if ref is None:
            ref = k
        elif k != ref:
            return False
    return True


# ---------------------------------------------------------------------------------------------
# labels


def label(scheme, k):
    a = "ABCDEFGHIJKLMNOPQRSTUVWXYZ"[k % 26]
    if scheme == "1":
        return a
    if scheme == "3":
        return "%s%02d" % (a, k)
    return a if k % 2 == 0 else "%s%02d" % (a, k)  # "mix"


# ---------------------------------------------------------------------------------------------
# the oracle for one subset


def _cls(kind):
    from armi.utils import asciimaps

    return getattr(asciimaps, CLASSES[kind])


def _read(kind, text):
    m = _cls(kind)()
    m.readAscii(text)
    return m, {k: v for k, v in m.items() if v != PLACEHOLDER}


def _toklines(text):
    return [ln.split() for ln in text.strip().splitlines()]


def check_subset(kind, S):
    """Returns (outcome, [(keysuffix, message)])."""
    probs = []
    cls = _cls(kind)
    m = cls()
    m.asciiLabelByIndices = dict(S)
    outcome = "drawn"
    text = None
    try:
        m.gridContentsToAscii()
        text = str(m)
    except Exception as e:  # a refusal; saveToStream catches Exception
        outcome = "refused:" + type(e).__name__
    if text is not None:
        try:
            m2, got = _read(kind, text)
        except Exception as e:
            got, m2 = "readAscii raises %r" % (e,), None
        if got != S:
            if isinstance(got, dict) and set(got.items()) < set(S.items()):
                probs.append(("drawn-incompletely", "contents %s drawn as %r which reads back as %s: cells %s are missing" % (_fmt(S), text, _fmt(got), sorted(set(S) - set(got)))))
            else:
                probs.append(("drawn-incompletely", "contents %s drawn as %r which reads back as %s: cells are displaced/missing" % (_fmt(S), text, _fmt(got) if isinstance(got, dict) else got)))
        else:
            # writer vs. independent format model
            rr = ref_read(kind, _toklines(text))
            if rr != S:
                probs.append(("drawn-text-not-format", "contents %s drawn as %r; the format model reads that text as %s" % (_fmt(S), text, _fmt(rr))))
            if not text_geometry_ok(kind, text, S):
                # indentation is not significant to the reader: cosmetic, counted, not a violation
                outcome = "drawn(indentation not geometric)"
            # text -> contents -> text -> contents
            try:
                t2 = str(m2)
                _, c2 = _read(kind, t2)
                m3 = cls()
                m3.asciiLabelByIndices = dict(got)
                m3.gridContentsToAscii()
                t3 = str(m3)
                _, c3 = _read(kind, t3)
                if c2 != S or c3 != S or _toklines(t2) != _toklines(text) or t3 != text:
                    probs.append(("roundtrip-unstable", "text %r -> contents -> text %r / %r -> contents %s / %s" % (text, t2, t3, _fmt(c2), _fmt(c3))))
            except Exception as e:
                probs.append(("roundtrip-unstable", "text %r read and written again raises %r" % (text, e)))
    # reader vs. the independent format model
    rt = ref_text(kind, S)
    if rt is not None:
        try:
            mr, got = _read(kind, rt)
            # reading is a function of the text: a map object that has read a wider map before
            # reads this text to the same contents
            used = _cls(kind)()
            used.readAscii(_wide_text(kind))
            used.readAscii(rt)
            again = {k: v for k, v in used.items() if v != PLACEHOLDER}
            if again != got:
                probs.append(("read-depends-on-previous-read", "text %r is read as %s by a fresh map object but as %s by one that has read a wider map before" % (rt, _fmt(got), _fmt(again))))
            if got != S:
                probs.append(("read-differs-from-format", "reference text %r of %s is read as %s" % (rt, _fmt(S), _fmt(got))))
            else:
                t2 = str(mr)
                _, c2 = _read(kind, t2)
                if c2 != S:
                    probs.append(("reread-unstable", "text %r read, written as %r and read again gives %s, first read gave %s" % (rt, t2, _fmt(c2), _fmt(S))))
        except Exception as e:
            probs.append(("read-raises", "reference text %r of %s: readAscii/write raises %r" % (rt, _fmt(S), e)))
    return outcome, probs, rt is not None


_WIDE = {}


def _wide_text(kind):
    if kind not in _WIDE:
        cells = {"third": third_cells(6), "full": full_cells(4), "tips": full_cells(4), "cart": [(i, j) for i in range(6) for j in range(6)]}[kind]
        _WIDE[kind] = ref_text(kind, {c: "W" for c in cells})
    return _WIDE[kind]


def _fmt(S):
    return "{" + ", ".join("(%d,%d):%s" % (k[0], k[1], v) if not isinstance(k[0], str) else "%s:%s" % (k, v) for k, v in sorted(S.items(), key=lambda kv: str(kv[0]))) + "}"


def subset(case, mask):
    uni = case["universe"]
    return {tuple(uni[k]): label(case["labels"], k) for k in range(len(uni)) if mask >> k & 1}


def eval_chunk(case):
    """case: {kind:'maps', cls, universe, labels, lo, hi, sizes?} -> (viols, stats)."""
    kind = case["cls"]
    sizes = case.get("sizes")
    stats = {"n": 0, "nontrivial": 0, "representable": 0}
    viols = []
    perkey = {}
    for mask in range(case["lo"], case["hi"]):
        if mask == 0:
            continue
        pc = bin(mask).count("1")
        if sizes and sizes[0] < pc < sizes[1]:
            continue
        S = subset(case, mask)
        outcome, probs, representable = check_subset(kind, S)
        stats["n"] += 1
        stats["nontrivial"] += pc >= 2
        stats["representable"] += representable
        stats[outcome] = stats.get(outcome, 0) + 1
        if representable and not outcome.startswith("drawn"):
            stats["refused_though_representable"] = stats.get("refused_though_representable", 0) + 1
        for suffix, msg in probs:
            key = "c18/asciimap-%s-%s" % (KEYNAME[kind], suffix)
            stats["viol:" + key] = stats.get("viol:" + key, 0) + 1
            perkey[key] = perkey.get(key, 0) + 1
            if perkey[key] <= 2:
                c = {k: v for k, v in case.items() if k != "sizes"}
                c.update(lo=mask, hi=mask + 1)
                viols.append(core.viol(key, "%s (%s): %s" % (CLASSES[kind], "labels " + case["labels"], msg), c))
    return viols, stats


def cases(quick, chunk=4096):
    """Universe table -> chunked cases (simplest first)."""
    fams = []
    schemes = ["1", "3"] if quick else ["1", "3", "mix"]
    out_of_third = [(-1, 1), (-1, 0), (1, -1)]
    # (cls, universe, sizes filter)
    fams.append(("third", third_cells(3) + out_of_third, None))
    fams.append(("third", third_cells(4), None))
    if not quick:
        fams.append(("third", third_cells(5), [4, 18]))  # 21 cells: |S| <= 4 or >= 18
    for k in ("full", "tips"):
        fams.append((k, full_cells(2), None))
        fams.append((k, full_cells(3), [3, 17] if quick else None))
    n = 3 if quick else 4
    fams.append(("cart", [(i, j) for j in range(n) for i in range(n)], None))
    fams.append(("cart", [(i, j) for j in range(-1, n - 1) for i in range(-1, n - 1)], None))
    out = []
    for cls, uni, sizes in fams:
        for sch in schemes:
            total = 1 << len(uni)
            step = chunk if not sizes else chunk * 16
            for lo in range(0, total, step):
                c = {"kind": "maps", "cls": cls, "universe": [list(x) for x in uni], "labels": sch, "lo": lo, "hi": min(total, lo + step)}
                if sizes:
                    c["sizes"] = sizes
                out.append(c)
    return out
