"""C18 part 1 - blueprint documents: base specs, deviation dimensions, YAML rendering.

A *document case* is pure JSON: ``{"kind": "doc", "base": "hex"|"cart", "devs": [[dim, alt], ...]}``.
``make_spec(case)`` applies the named deviations to the base spec (plain data, see
``mcverif.build``); ``render(spec)`` gives the blueprint YAML text.  The same spec is the input of
the independent evaluator in ``c18_model``.

Spec format = the one of ``mcverif.build`` plus:
  spec["nuclide flags"]   list of names, or {name: {"burn":b, "xs":b, "expandTo":[...]|None}}
  spec["extra_blocks"]    [(name, block)] rendered after spec["blocks"] (allows duplicate names)
  spec["extra_assemblies"] [(name, assembly)] likewise
  grid["as_map"]          True: the grid is written as a ``lattice map`` drawn by the reference
                          drawer of ``c18_maps`` from grid["contents"] (Cartesian full-core maps are
                          drawn from the contents shifted to start at 0, as the format prescribes)
  grid["map_kind"]        third|full|tips|cart
"""
import copy

from mcverif import build
from mcverif.checks import c18_maps

comp = build.comp

# ---------------------------------------------------------------------------------------------
# rendering (build.render extended)

_v = build._v


def map_text(g):
    kind = g["map_kind"]
    S = {tuple(k): v for k, v in g["contents"].items()}
    if kind == "cart" and g.get("extent"):
        # the text map covers the whole extent, also outer rows/columns holding only placeholders
        i0, i1, j0, j1 = g["extent"]
        rows = [[S.get((i, j), "-") for i in range(i0, i1 + 1)] for j in reversed(range(j0, j1 + 1))]
        return "\n".join(" ".join(r) for r in rows) + "\n"
    if kind == "cart" and g["symmetry"].startswith("full"):
        i0 = min(i for i, _ in S)
        j0 = min(j for _, j in S)
        S = {(i - i0, j - j0): v for (i, j), v in S.items()}
    return c18_maps.ref_text(kind, S, g.get("map_pad", 0))


def render(spec):
    L = []
    nf = spec.get("nuclide flags", build.NUCFLAGS)
    L.append("nuclide flags:")
    if isinstance(nf, dict):
        for n, f in nf.items():
            s = "    %s: {burn: %s, xs: %s" % (n, _v(bool(f.get("burn", False))), _v(bool(f.get("xs", True))))
            if f.get("expandTo"):
                s += ", expandTo: %s" % _v(list(f["expandTo"]))
            L.append(s + "}")
    else:
        for n in nf:
            L.append("    %s: {burn: false, xs: true}" % n)
    if spec.get("custom isotopics"):
        L.append("custom isotopics:")
        for name, iso in spec["custom isotopics"].items():
            L.append("    %s:" % name)
            for k, v in iso.items():
                L.append("        %s: %s" % (k, _v(v)))
    L.append("blocks:")
    blocks = list(spec["blocks"].items()) + [tuple(x) for x in spec.get("extra_blocks", [])]
    anchors = set()
    for bname, b in blocks:
        anchor = "block_" + bname.replace(" ", "_")
        if anchor in anchors:
            L.append("    %s:" % bname)
        else:
            L.append("    %s: &%s" % (bname, anchor))
            anchors.add(anchor)
        if b.get("flags"):
            L.append("        flags: %s" % b["flags"])
        if b.get("grid name"):
            L.append("        grid name: %s" % b["grid name"])
        for c in b["components"]:
            if c.get("_alias"):
                L.append("        %s: *%s" % (c["name"], c["_alias"]))
                continue
            L.append("        %s:%s" % (c["name"], " &" + c["_anchor"] if c.get("_anchor") else ""))
            if c.get("flags"):
                L.append("            flags: %s" % c["flags"])
            L.append("            shape: %s" % c["shape"])
            L.append("            material: %s" % c["material"])
            if c.get("isotopics"):
                L.append("            isotopics: %s" % c["isotopics"])
            L.append("            Tinput: %s" % _v(c["Tinput"]))
            L.append("            Thot: %s" % _v(c["Thot"]))
            for k, v in c["dims"].items():
                L.append("            %s: %s" % (k, _v(v)))
            if c.get("mergeWith"):
                L.append("            mergeWith: %s" % c["mergeWith"])
            if c.get("latticeIDs"):
                L.append("            latticeIDs: %s" % _v(c["latticeIDs"]))
    L.append("assemblies:")
    for aname, a in list(spec["assemblies"].items()) + [tuple(x) for x in spec.get("extra_assemblies", [])]:
        L.append("    %s:" % aname)
        L.append("        specifier: %s" % a["specifier"])
        if a.get("flags"):
            L.append("        flags: %s" % a["flags"])
        L.append("        blocks: [%s]" % ", ".join("*block_" + b.replace(" ", "_") for b in a["blocks"]))
        L.append("        height: %s" % _v(a["heights"]))
        L.append("        axial mesh points: %s" % _v(a["mesh"]))
        L.append("        xs types: %s" % _v(a["xs"]))
        if a.get("matmods"):
            L.append("        material modifications:")
            for k, v in a["matmods"].items():
                if k == "by component":
                    L.append("            by component:")
                    for cn, mods in v.items():
                        L.append("                %s:" % cn)
                        for kk, vv in mods.items():
                            L.append("                    %s: %s" % (kk, _v(vv)))
                else:
                    L.append("            %s: %s" % (k, _v(v)))
    L.append("systems:")
    for sname, s in spec["systems"].items():
        L.append("    %s:" % sname)
        if s.get("type"):
            L.append("        type: %s" % s["type"])
        L.append("        grid name: %s" % s["grid name"])
        o = s.get("origin", [0.0, 0.0, 0.0])
        L.append("        origin: {x: %s, y: %s, z: %s}" % (_v(o[0]), _v(o[1]), _v(o[2])))
    L.append("grids:")
    for gname, g in spec["grids"].items():
        L.append("    %s:" % gname)
        L.append("        geom: %s" % g["geom"])
        L.append("        symmetry: %s" % g["symmetry"])
        if g.get("pitch"):
            L.append("        lattice pitch: {x: %s, y: %s}" % (_v(g["pitch"][0]), _v(g["pitch"][1])))
        if g.get("as_map"):
            L.append("        lattice map: |4")  # explicit indentation: the first line may be indented most
            for line in map_text(g).splitlines():
                L.append("            " + line)
        else:
            items = sorted(g.get("contents", {}).items())
            if items:
                L.append("        grid contents:")
                for (i, j), v in items:
                    L.append("            ? [%d, %d]\n            : %s" % (i, j, v))
            else:
                L.append("        grid contents: {}")
    return "\n".join(L) + "\n"


# ---------------------------------------------------------------------------------------------
# bases


def base_spec(name):
    if name == "hex":
        s = build.hex_spec(rings=2, third=True, sfp=False)
        s["grids"]["core"]["map_kind"] = "third"
    elif name == "cart":
        s = build.cart_spec(n=2, sfp=False)
        s["grids"]["core"]["map_kind"] = "cart"
    else:
        raise ValueError(name)
    s["nuclide flags"] = {n: {"burn": False, "xs": True, "expandTo": None} for n in build.NUCFLAGS}
    return s


def _block(spec, name="fuel"):
    return spec["blocks"][name]


def _comp(spec, bname, cname):
    for c in spec["blocks"][bname]["components"]:
        if c["name"] == cname:
            return c
    raise KeyError(cname)


def _insert_before(block, before, c):
    names = [x["name"] for x in block["components"]]
    block["components"].insert(names.index(before), c)


# ---------------------------------------------------------------------------------------------
# deviation registry:  DEVS[base][dim][alt] = (function(spec), invalid_reason or None)

DEVS = {"hex": {}, "cart": {}}


def dev(bases, dim, alt, invalid=None):
    def deco(f):
        for b in bases:
            DEVS[b].setdefault(dim, {})[alt] = (f, invalid)
        return f

    return deco


# ---- grid: domain x rings x hole x form (hex)

HEXDOM = {"t": ("hex", "third periodic", "third"), "f": ("hex", "full", "full"), "c": ("hex_corners_up", "full", "tips")}


def _hex_grid(dom, rings, hole, asmap):
    geom, sym, kind = HEXDOM[dom]
    cells = c18_maps.third_cells(rings) if dom == "t" else c18_maps.full_cells(rings)
    if hole == "h":  # first cell of ring 2
        cells = [c for c in cells if c != ((1, 0) if dom == "t" else (-1, 0))]
    elif hole == "o":  # last cell of the outer ring and the centre
        cells = [c for c in cells[:-1] if c != (0, 0)]
    contents = {c: ("OC" if (rings > 1 and build.hexdist(*c) == rings - 1) else "IC") for c in cells}

    def f(spec):
        g = spec["grids"]["core"]
        g.update(geom=geom, symmetry=sym, contents=contents, map_kind=kind)
        g["as_map"] = bool(asmap)

    return f


for _dom in "tfc":
    for _rings in (1, 2, 3):
        for _hole in ("", "h", "o"):
            if _rings == 1 and _hole:
                continue
            for _m in ("", "m"):
                _name = "%s%d%s%s" % (_dom, _rings, _hole, _m)
                if _name == "t2":
                    continue
                dev(["hex"], "grid", _name)(_hex_grid(_dom, _rings, _hole, _m))


def _cart_grid(sym, rng, hole, asmap):
    cells = [(i, j) for i in rng for j in rng]
    edge = max(abs(x) for x in rng)
    if hole == "h" and len(cells) > 4:
        cells = [c for c in cells if c != (rng[1], rng[1])]
    elif hole == "o":
        cells = [c for c in cells if c != (rng[-1], rng[-1])]
    contents = {c: ("OC" if (max(abs(c[0]), abs(c[1])) == edge and len(rng) > 1) else "IC") for c in cells}

    def f(spec):
        g = spec["grids"]["core"]
        g.update(symmetry=sym, contents=contents, map_kind="cart")
        g["as_map"] = bool(asmap)

    return f


_CART = {
    "full1": ("full", [0]),
    "full2": ("full", [-1, 0]),
    "full3": ("full", [-1, 0, 1]),
    "full4": ("full", [-2, -1, 0, 1]),
    "qc2": ("quarter reflective through center assembly", [0, 1]),
    "qc3": ("quarter reflective through center assembly", [0, 1, 2]),
    "q2": ("quarter reflective", [0, 1]),
}
for _n, (_sym, _rng) in _CART.items():
    for _hole in ("", "h", "o"):
        if len(_rng) < 3 and _hole:
            continue
        for _m in ("", "m"):
            _name = _n + _hole + _m
            if _name == "full3":
                continue
            dev(["cart"], "grid", _name)(_cart_grid(_sym, _rng, _hole, _m))


def _cart_extent_grid(nx, ny, empty, asmap):
    """Full-core text map of nx x ny tokens, centred on the origin (column c of the text is
    i = c - nx//2), whose outer line ``empty`` (L/R/T/B) holds only placeholders."""
    i0, j0 = -(nx // 2), -(ny // 2)
    i1, j1 = i0 + nx - 1, j0 + ny - 1
    cells = [(i, j) for i in range(i0, i1 + 1) for j in range(j0, j1 + 1)]
    cells = [c for c in cells if not ((empty == "L" and c[0] == i0) or (empty == "R" and c[0] == i1) or (empty == "B" and c[1] == j0) or (empty == "T" and c[1] == j1))]
    contents = {c: ("OC" if (c[0] + c[1]) % 2 else "IC") for c in cells}

    def f(spec):
        g = spec["grids"]["core"]
        g.update(symmetry="full", contents=contents, map_kind="cart", extent=[i0, i1, j0, j1])
        g["as_map"] = bool(asmap)

    return f


for _nx, _ny in ((4, 4), (3, 3), (6, 2), (2, 4), (5, 4), (3, 2)):
    for _e in ("", "L", "R", "T", "B"):
        if not _e and _nx == _ny:
            continue
        if (_e in "LR" and _e and _nx < 3) or (_e in "TB" and _e and _ny < 3):
            continue
        dev(["cart"], "grid", "full%dx%d%sm" % (_nx, _ny, _e))(_cart_extent_grid(_nx, _ny, _e, True))
    dev(["cart"], "grid", "full%dx%dL" % (_nx, _ny))(_cart_extent_grid(_nx, _ny, "L" if _nx >= 3 else "T", False))


def _padded(dom, rings, hole):
    base = _hex_grid(dom, rings, hole, True)

    def f(spec):
        base(spec)
        spec["grids"]["core"]["map_pad"] = 1  # an outer ring (third: top row) of placeholders only

    return f


for _dom in "tfc":
    dev(["hex"], "grid", "%s2pm" % _dom)(_padded(_dom, 2, ""))
    dev(["hex"], "grid", "%s3hpm" % _dom)(_padded(_dom, 3, "h"))


@dev(["hex"], "pitch", "given")
def _(spec):
    spec["grids"]["core"]["pitch"] = [16.75, 16.75]


# ---- an extra component of every 2-D shape class in the fuel block

SHAPES = {
    "Circle": {"id": 0.2, "od": 0.5, "mult": 2.0},
    "Hexagon": {"ip": 0.3, "op": 0.6, "mult": 2.0},
    "Rectangle": {"lengthOuter": 0.8, "lengthInner": 0.5, "widthOuter": 0.6, "widthInner": 0.25, "mult": 2.0},
    "SolidRectangle": {"lengthOuter": 0.8, "widthOuter": 0.6, "mult": 3.0},
    "Square": {"widthOuter": 0.75, "widthInner": 0.5, "mult": 2.0},
    "HoledHexagon": {"op": 0.9, "holeOD": 0.2, "nHoles": 3.0, "mult": 2.0},
    "HexHoledCircle": {"od": 0.9, "holeOP": 0.4, "mult": 2.0},
    "HoledRectangle": {"lengthOuter": 0.8, "widthOuter": 0.6, "holeOD": 0.3, "mult": 2.0},
    "HoledSquare": {"widthOuter": 0.75, "holeOD": 0.3, "mult": 2.0},
    "Helix": {"od": 0.2, "id": 0.05, "axialPitch": 12.0, "helixDiameter": 1.1, "mult": 2.0},
}


def _add_extra(spec, shape, material="HT9", Tin=25.0, Thot=450.0, dims=None, blocks=("fuel",), **kw):
    for bname in blocks:
        b = _block(spec, bname)
        d = dict(dims if dims is not None else SHAPES[shape])
        _insert_before(b, "coolant", comp("extra", shape, material, Tin, Thot, **d, **kw))


for _shape in SHAPES:

    def _mk(shape):
        def f(spec):
            _add_extra(spec, shape)

        return f

    dev(["hex", "cart"], "extra", _shape)(_mk(_shape))


@dev(["hex"], "extra", "Circle-linked")
def _(spec):
    # every dimension linked, also across shapes (od <- duct.ip is silly but well-formed: tiny mult)
    _add_extra(spec, "Circle", dims={"id": "fuel.od", "od": "clad.od", "mult": "clad.mult"})


@dev(["hex"], "extra", "Hexagon-linked")
def _(spec):
    _add_extra(spec, "Hexagon", dims={"ip": 0.0, "op": "fuel.od", "mult": "fuel.mult"}, material="Zr")


# ---- materials of the extra component (library defaults are the trusted base)

# (in the plenum block, which carries no material modifications)
for _mat in ("Zr", "B4C", "UO2", "Sodium", "Void", "Graphite", "HT9"):

    def _mk(mat):
        def f(spec):
            _add_extra(spec, "Circle", material=mat, Tin=25.0 if mat not in ("Sodium", "Void") else 400.0, Thot=400.0, dims={"id": 0.0, "od": 0.3, "mult": 2.0}, blocks=("plenum",))

        return f

    dev(["hex"], "extra_mat", _mat)(_mk(_mat))


# ---- custom isotopics

ISO = {
    "nd": {"input format": "number densities", "U235": 0.004, "U238": 0.03, "ZR": 0.006, "FE": 0.001},
    "mf": {"input format": "mass fractions", "density": 9.5, "U235": 0.15, "U238": 0.65, "ZR": 0.1, "FE": 0.1},
    "nf": {"input format": "number fractions", "density": 4.5, "U235": 0.1, "U238": 0.5, "ZR": 0.25, "C": 0.15},
    "uzr": {"input format": "mass fractions", "U235": 0.25, "U238": 0.65, "ZR": 0.1},
}


def _iso_custom(which):
    def f(spec):
        spec.setdefault("custom isotopics", {})["MIX"] = dict(ISO[which])
        _add_extra(spec, "Circle", material="Custom", Tin=25.0, Thot=500.0, dims={"id": 0.0, "od": 0.3, "mult": 2.0}, isotopics="MIX", blocks=("plenum",))

    return f


for _w in ("nd", "mf", "nf"):
    dev(["hex"], "extra_mat", "Custom-" + _w)(_iso_custom(_w))


@dev(["hex"], "isotopics", "fuel-massfrac")
def _(spec):
    # library material with custom mass fractions: the block's material modifications (if any)
    # have the final word
    spec.setdefault("custom isotopics", {})["FUELMIX"] = dict(ISO["uzr"])
    _comp(spec, "fuel", "fuel")["isotopics"] = "FUELMIX"


@dev(["hex"], "isotopics", "unused")
def _(spec):
    spec.setdefault("custom isotopics", {})["UNUSED"] = dict(ISO["mf"])


# ---- temperatures


def _temps(cname, tin, thot):
    def f(spec):
        for bn, b in spec["blocks"].items():
            for c in b["components"]:
                if c["name"] == cname:
                    c["Tinput"], c["Thot"] = float(tin), float(thot)

    return f


dev(["hex", "cart"], "fuel_T", "equal")(_temps("fuel", 600.0, 600.0))
dev(["hex", "cart"], "fuel_T", "cold")(_temps("fuel", 25.0, 25.0))
dev(["hex", "cart"], "fuel_T", "hotter")(_temps("fuel", 20.0, 800.0))
dev(["hex", "cart"], "clad_T", "equal")(_temps("clad", 470.0, 470.0))
dev(["hex", "cart"], "clad_T", "hotter")(_temps("clad", 100.0, 650.0))
dev(["hex"], "duct_T", "hotter")(_temps("duct", 25.0, 520.0))


# ---- links / multiplicity


@dev(["hex"], "links", "bond")
def _(spec):
    b = _block(spec)
    _insert_before(b, "clad", comp("bond", "Circle", "Sodium", 450.0, 450.0, id="fuel.od", od="clad.id", mult="fuel.mult"))


@dev(["hex"], "links", "clad-mult-numeric")
def _(spec):
    _comp(spec, "fuel", "clad")["dims"]["mult"] = 7.0


@dev(["hex"], "links", "fuel-mult-19")
def _(spec):
    _comp(spec, "fuel", "fuel")["dims"]["mult"] = 19.0
    _comp(spec, "plenum", "clad")["dims"]["mult"] = 19.0


@dev(["hex"], "links", "clad-id-linked")
def _(spec):
    _comp(spec, "fuel", "clad")["dims"]["id"] = "fuel.od"
    _comp(spec, "fuel", "fuel")["Thot"] = _comp(spec, "fuel", "fuel")["Tinput"]  # no hot overlap


@dev(["hex"], "links", "duct-chain")
def _(spec):
    # chain of links: intercoolant.ip -> duct.op (base), duct.ip -> liner.op
    for bn in ("fuel", "plenum"):
        b = _block(spec, bn)
        _insert_before(b, "duct", comp("liner", "Hexagon", "Zr", 25.0, 450.0, ip=15.6, op=15.9, mult=1.0))
        _comp(spec, bn, "duct")["dims"]["ip"] = "liner.op"


def _pins(rings, ids):
    def f(spec):
        b = _block(spec)
        b["grid name"] = "pins"
        cells = c18_maps.full_cells(rings)
        cont = {}
        for k, c in enumerate(cells):
            cont[c] = ids[0] if (len(ids) == 1 or build.hexdist(*c) < rings - 1 or rings == 1) else ids[1]
        spec["grids"]["pins"] = {"geom": "hex", "symmetry": "full", "contents": cont, "map_kind": "full"}
        fuel, clad = _comp(spec, "fuel", "fuel"), _comp(spec, "fuel", "clad")
        fuel["dims"].pop("mult")
        clad["dims"].pop("mult")
        fuel["latticeIDs"] = [ids[0]]
        clad["latticeIDs"] = list(ids)
        if len(ids) > 1:
            # the outer pins hold no fuel: a second component fills them
            _insert_before(b, "clad", comp("slug", "Circle", "HT9", 25.0, 450.0, id=0.0, od=0.8, latticeIDs=[ids[1]]))

    return f


dev(["hex"], "pins", "lattice7")(_pins(2, ["F"]))
dev(["hex"], "pins", "lattice1")(_pins(1, ["F"]))
dev(["hex"], "pins", "lattice7-two-ids")(_pins(2, ["F", "S"]))


@dev(["hex"], "pins", "lattice7-map")
def _(spec):
    _pins(2, ["F"])(spec)
    spec["grids"]["pins"]["as_map"] = True


@dev(["hex"], "pins", "lattice7-mult-given")
def _(spec):
    _pins(2, ["F"])(spec)
    _comp(spec, "fuel", "fuel")["dims"]["mult"] = 7.0


# ---- the lattice-ID alphabet: IDs are text in the lattice map, but YAML values in ``latticeIDs``
# and in explicit ``grid contents`` (1 -> int, 1.0 -> float, true -> bool, null -> None).  The
# evaluator matches them as text.  Words, integers and decimals must work in both forms of the
# grid; booleans/null (whose YAML value has no unique text) may instead be refused.


def token_class(tok):
    if tok in ("true", "false"):
        return "bool"
    if tok in ("null",):
        return "null"
    try:
        int(tok)
        return "int"
    except ValueError:
        pass
    try:
        float(tok)
        return "float"
    except ValueError:
        return "word"


_RANK = ["word", "int", "float", "bool", "null"]


def _pinids(X, Y, order, asmap, variant=""):
    """Centre pin X (a slug), ring pins Y (fuel); the clad surrounds both: latticeIDs [X, Y] or
    [Y, X].  variant: 'unused' - a map token no component lists; 'absent' - the clad also lists
    an ID that is not in the map; 'only-absent' - the slug lists only such an ID."""

    def f(spec):
        b = _block(spec)
        b["grid name"] = "pins"
        cont = {c: (X if c == (0, 0) else Y) for c in c18_maps.full_cells(2)}
        if variant == "unused":
            cont[(1, 0)] = "Z"
        spec["grids"]["pins"] = {"geom": "hex", "symmetry": "full", "contents": cont, "map_kind": "full", "as_map": bool(asmap)}
        fuel, clad = _comp(spec, "fuel", "fuel"), _comp(spec, "fuel", "clad")
        fuel["dims"].pop("mult")
        clad["dims"].pop("mult")
        fuel["latticeIDs"] = [Y]
        clad["latticeIDs"] = ([X, Y] if order == 0 else [Y, X]) + (["Q"] if variant == "absent" else [])
        _insert_before(b, "clad", comp("slug", "Circle", "HT9", 25.0, 450.0, id=0.0, od=0.8, latticeIDs=["Q" if variant == "only-absent" else X]))
        worst = max((token_class(X), token_class(Y)), key=_RANK.index)
        spec["_keytag"] = "pin-lattice-ids-%s-in-%s" % (worst, "map" if asmap else "contents")
        if worst in ("bool", "null"):
            spec["_may_refuse"] = True

    return f


for _X, _Y in (("C", "1"), ("1", "C"), ("1", "2"), ("12", "1"), ("1.0", "C"), ("C", "2.5"), ("on", "C"), ("N", "Y"), ("no", "yes"), ("true", "C"), ("C", "false"), ("null", "C")):
    for _o in (0, 1):
        for _m in (1, 0):
            dev(["hex"], "pins", "ids-%s-%s-%s%s" % (_X, _Y, "xy" if _o == 0 else "yx", "-map" if _m else ""))(_pinids(_X, _Y, _o, _m))
for _var in ("unused", "absent", "only-absent"):
    for _m in (1, 0):
        dev(["hex"], "pins", "ids-%s%s" % (_var, "-map" if _m else ""))(_pinids("C", "1", 0, _m, _var))


# ---- name-like fields holding a token that YAML does not read as a string: the document is
# either refused or built as the text says


def _token_field(field, tok):
    def f(spec):
        spec["_may_refuse"] = True
        spec["_keytag"] = "yaml-typed-token-in-%s" % field
        if field in ("specifier-map", "specifier-contents"):
            spec["assemblies"]["outer fuel"]["specifier"] = tok
            g = spec["grids"]["core"]
            g["contents"] = {k: (tok if v == "OC" else v) for k, v in g["contents"].items()}
            g["as_map"] = field.endswith("map")
        elif field == "component-name":
            for b in spec["blocks"].values():
                for c in b["components"]:
                    if c["name"] == "duct":
                        c["name"] = tok
                    for k, v in list(c["dims"].items()):
                        if isinstance(v, str) and v.startswith("duct."):
                            c["dims"][k] = tok + "." + v.split(".")[1]
        elif field == "assembly-name":
            spec["assemblies"] = {(tok if k == "outer fuel" else k): v for k, v in spec["assemblies"].items()}
        elif field == "block-name":
            spec["blocks"] = {(tok if k == "plenum" else k): v for k, v in spec["blocks"].items()}
            for a in spec["assemblies"].values():
                a["blocks"] = [tok if b == "plenum" else b for b in a["blocks"]]
        elif field == "xs":
            spec["assemblies"]["outer fuel"]["xs"] = [tok] + spec["assemblies"]["outer fuel"]["xs"][1:]

    return f


for _fld in ("specifier-map", "specifier-contents", "component-name", "assembly-name", "block-name", "xs"):
    for _tok in ("1", "1.0", "on", "N", "no", "true", "null"):
        if _fld == "component-name" and "." in _tok:
            continue  # a period in a component name makes its links ambiguous
        dev(["hex"], "tokens", "%s-%s" % (_fld, _tok))(_token_field(_fld, _tok))


# ---- block stack


def _stack(stack, heights, xsA, xsB, mods=True, extra_blocks=()):
    def f(spec):
        for nm in extra_blocks:
            if nm == "grid plate":
                spec["blocks"]["grid plate"] = build.grid_plate_block()
            elif nm == "dummy":
                spec["blocks"]["dummy"] = build.dummy_block()
            elif nm == "shield":
                spec["blocks"]["shield"] = build.shield_block()
        n = len(stack)
        for an, (xs, u, z) in (("igniter fuel", (xsA, 0.11, 0.06)), ("outer fuel", (xsB, 0.2, 0.1))):
            a = spec["assemblies"][an]
            a.update(blocks=list(stack), heights=[float(h) for h in heights], xs=list(xs), mesh=[1] * n)
            a["matmods"] = {"U235_wt_frac": [u if b == "fuel" else "" for b in stack], "ZR_wt_frac": [z if b == "fuel" else "" for b in stack]}

    return f


dev(["hex"], "stack", "reversed")(_stack(["plenum", "fuel"], [30.0, 25.0], ["B", "A"], ["B", "C"]))
dev(["hex"], "stack", "three")(_stack(["fuel", "fuel", "plenum"], [25.0, 20.0, 30.0], ["A", "A", "B"], ["C", "D", "B"]))
dev(["hex"], "stack", "one")(_stack(["fuel"], [25.0], ["A"], ["C"]))
dev(["hex"], "stack", "gridplate")(_stack(["grid plate", "fuel", "plenum"], [10.0, 25.0, 30.0], ["A", "A", "B"], ["A", "C", "B"], extra_blocks=["grid plate"]))
dev(["hex"], "stack", "dummy")(_stack(["fuel", "plenum", "dummy"], [25.0, 30.0, 10.0], ["A", "B", "B"], ["C", "B", "B"], extra_blocks=["dummy"]))
dev(["hex"], "stack", "shield-sandwich")(_stack(["shield", "fuel", "shield", "plenum"], [12.5, 25.0, 7.5, 30.0], ["A", "A", "A", "B"], ["A", "C", "A", "B"], extra_blocks=["shield"]))


@dev(["hex", "cart"], "heights", "other")
def _(spec):
    for a in spec["assemblies"].values():
        a["heights"] = [10.0 + 7.5 * k for k in range(len(a["blocks"]))]


@dev(["hex", "cart"], "xs", "other")
def _(spec):
    for a, lab in zip(spec["assemblies"].values(), ("DE", "ZY")):
        a["xs"] = [lab[k % 2] for k in range(len(a["blocks"]))]


@dev(["hex", "cart"], "mesh", "other")
def _(spec):
    for a in spec["assemblies"].values():
        a["mesh"] = [2 + k for k in range(len(a["blocks"]))]


# ---- flags


@dev(["hex"], "flags", "block-explicit")
def _(spec):
    _block(spec, "plenum")["flags"] = "plenum test"


@dev(["hex"], "flags", "assembly-explicit")
def _(spec):
    spec["assemblies"]["outer fuel"]["flags"] = "fuel feed"


@dev(["hex"], "flags", "component-explicit")
def _(spec):
    _comp(spec, "fuel", "clad")["flags"] = "clad test"


@dev(["hex"], "flags", "component-depletable")
def _(spec):
    _comp(spec, "fuel", "duct")["flags"] = "duct depletable"


# ---- material modifications


def _mods(fn):
    def f(spec):
        for an, a in spec["assemblies"].items():
            fn(a, an)

    return f


def _fuelidx(a):
    return [k for k, b in enumerate(a["blocks"]) if b == "fuel"]


@dev(["hex", "cart"], "mods", "none")
def _(spec):
    for a in spec["assemblies"].values():
        a.pop("matmods", None)


@dev(["hex", "cart"], "mods", "zr-only")
def _(spec):
    for a in spec["assemblies"].values():
        a["matmods"].pop("U235_wt_frac")


@dev(["hex", "cart"], "mods", "u235-only")
def _(spec):
    for a in spec["assemblies"].values():
        a["matmods"].pop("ZR_wt_frac")


@dev(["hex", "cart"], "mods", "by-component")
def _(spec):
    for a in spec["assemblies"].values():
        m = a.pop("matmods")
        a["matmods"] = {"by component": {"fuel": m}}


@dev(["hex", "cart"], "mods", "by-component-overrides")
def _(spec):
    for a in spec["assemblies"].values():
        n = len(a["blocks"])
        a["matmods"]["by component"] = {"fuel": {"U235_wt_frac": [0.3 if k in _fuelidx(a) else "" for k in range(n)]}}


@dev(["hex", "cart"], "mods", "values")
def _(spec):
    for a, (u, z) in zip(spec["assemblies"].values(), ((0.0, 0.0), (1.0, 0.25))):
        n = len(a["blocks"])
        a["matmods"] = {"U235_wt_frac": [u if k in _fuelidx(a) else "" for k in range(n)], "ZR_wt_frac": [z if k in _fuelidx(a) else "" for k in range(n)]}


@dev(["hex"], "mods", "blank-in-fuel")
def _(spec):
    # an empty entry means "not applied": the fuel block of the first design keeps the defaults
    a = spec["assemblies"]["igniter fuel"]
    a["matmods"] = {k: ["" for _ in v] for k, v in a["matmods"].items()}


# ---- nuclide flags


@dev(["hex", "cart"], "nucflags", "zr-expandTo")
def _(spec):
    spec["nuclide flags"]["ZR"]["expandTo"] = ["ZR90", "ZR91", "ZR92"]


@dev(["hex", "cart"], "nucflags", "fe-expandTo-one")
def _(spec):
    spec["nuclide flags"]["FE"]["expandTo"] = ["FE56"]


@dev(["hex", "cart"], "nucflags", "burn-uranium")
def _(spec):
    spec["nuclide flags"]["U235"]["burn"] = True
    spec["nuclide flags"]["U238"]["burn"] = True


@dev(["hex", "cart"], "nucflags", "extra-unused")
def _(spec):
    spec["nuclide flags"]["PU240"] = {"burn": False, "xs": True, "expandTo": None}
    spec["nuclide flags"]["HE"] = {"burn": False, "xs": True, "expandTo": None}


# ---- sharing: one definition (custom isotopics entry, block design, component anchor) used by
# several components while a material modification applies to only some of them, in every order.
# Whatever is built first, every component has the composition the text gives it.

_SHARE_U = {"igniter fuel": (0.3, 0.2), "outer fuel": (0.5, 0.05)}


def _share_levels(pattern, iso):
    """The fuel block at three axial levels; modifications only where pattern has 'M'."""

    def f(spec):
        if iso:
            spec.setdefault("custom isotopics", {})["FUELMIX"] = dict(ISO["uzr"])
            _comp(spec, "fuel", "fuel")["isotopics"] = "FUELMIX"
        stack = ["fuel", "fuel", "fuel", "plenum"]
        for an, a in spec["assemblies"].items():
            u, z = _SHARE_U[an]
            a.update(blocks=list(stack), heights=[20.0, 15.0, 10.0, 30.0], mesh=[1, 1, 1, 1])
            a["xs"] = [a["xs"][0]] * 3 + [a["xs"][-1]]
            pat = list(pattern) + ["-"]
            a["matmods"] = {"U235_wt_frac": [u if m == "M" else "" for m in pat], "ZR_wt_frac": [z if m == "M" else "" for m in pat]}

    return f


for _pat in ("M--", "-M-", "--M", "M-M", "MM-", "-MM"):
    dev(["hex"], "sharing", "iso-levels-" + _pat)(_share_levels(_pat, True))
    dev(["hex"], "sharing", "levels-" + _pat)(_share_levels(_pat, False))


def _share_designs(modified, iso):
    """Both designs use the same block (and isotopics); only one design carries modifications."""

    def f(spec):
        if iso:
            spec.setdefault("custom isotopics", {})["FUELMIX"] = dict(ISO["uzr"])
            _comp(spec, "fuel", "fuel")["isotopics"] = "FUELMIX"
        for k, (an, a) in enumerate(spec["assemblies"].items()):
            if k != modified:
                a["matmods"] = {kk: ["" for _ in v] for kk, v in a["matmods"].items()}

    return f


for _k, _nm in ((0, "first"), (1, "second")):
    dev(["hex", "cart"], "sharing", "iso-designs-%s-modified" % _nm)(_share_designs(_k, True))
    dev(["hex", "cart"], "sharing", "designs-%s-modified" % _nm)(_share_designs(_k, False))


def _share_components(modified, iso):
    """Two UZr components of one block share the isotopics entry; a by-component modification
    applies to one of them only."""

    def f(spec):
        b = _block(spec)
        _insert_before(b, "coolant", comp("extra", "Circle", "UZr", 25.0, 600.0, id=0.0, od=0.4, mult=2.0))
        if iso:
            spec.setdefault("custom isotopics", {})["FUELMIX"] = dict(ISO["uzr"])
            _comp(spec, "fuel", "fuel")["isotopics"] = "FUELMIX"
            _comp(spec, "fuel", "extra")["isotopics"] = "FUELMIX"
        for an, a in spec["assemblies"].items():
            u, z = _SHARE_U[an]
            fi = _fuelidx(a)
            n = len(a["blocks"])
            a["matmods"] = {"by component": {modified: {"U235_wt_frac": [u if k in fi else "" for k in range(n)], "ZR_wt_frac": [z if k in fi else "" for k in range(n)]}}}

    return f


for _c in ("fuel", "extra"):
    dev(["hex", "cart"], "sharing", "iso-components-%s-modified" % _c)(_share_components(_c, True))
    dev(["hex", "cart"], "sharing", "components-%s-modified" % _c)(_share_components(_c, False))


def _share_anchor(pattern, iso):
    """Two block definitions whose fuel component is one YAML anchor; modifications at one level."""

    def f(spec):
        if iso:
            spec.setdefault("custom isotopics", {})["FUELMIX"] = dict(ISO["uzr"])
            _comp(spec, "fuel", "fuel")["isotopics"] = "FUELMIX"
        fb = copy.deepcopy(_block(spec))
        _comp(spec, "fuel", "fuel")["_anchor"] = "comp_fuel_fuel"
        for c in fb["components"]:
            if c["name"] == "fuel":
                c["_alias"] = "comp_fuel_fuel"
        spec["blocks"]["feed fuel"] = fb
        stack = ["fuel", "feed fuel", "plenum"]
        for an, a in spec["assemblies"].items():
            u, z = _SHARE_U[an]
            a.update(blocks=list(stack), heights=[20.0, 15.0, 30.0], mesh=[1, 1, 1])
            a["xs"] = [a["xs"][0]] * 2 + [a["xs"][-1]]
            pat = list(pattern) + ["-"]
            a["matmods"] = {"U235_wt_frac": [u if m == "M" else "" for m in pat], "ZR_wt_frac": [z if m == "M" else "" for m in pat]}

    return f


for _pat in ("M-", "-M"):
    dev(["hex"], "sharing", "iso-anchor-" + _pat)(_share_anchor(_pat, True))
    dev(["hex"], "sharing", "anchor-" + _pat)(_share_anchor(_pat, False))


# ---- a third design / specifier


@dev(["hex"], "designs", "third-design")
def _(spec):
    a = copy.deepcopy(spec["assemblies"]["outer fuel"])
    a["specifier"] = "RR"
    a["xs"] = ["E"] * len(a["blocks"])
    spec["assemblies"]["radial shield"] = a
    cells = sorted(spec["grids"]["core"]["contents"])
    spec["grids"]["core"]["contents"][cells[-1]] = "RR"


@dev(["hex"], "designs", "one-design-unused")
def _(spec):
    g = spec["grids"]["core"]["contents"]
    for k in g:
        g[k] = "IC"


# ---------------------------------------------------------------------------------------------
# INVALID deviations: the document must be refused


@dev(["hex", "cart"], "invalid", "unknown-specifier", invalid="unknown specifier")
def _(spec):
    g = spec["grids"]["core"]["contents"]
    g[sorted(g)[-1]] = "XX"


@dev(["hex", "cart"], "invalid", "unknown-specifier-map", invalid="unknown specifier")
def _(spec):
    g = spec["grids"]["core"]["contents"]
    g[sorted(g)[-1]] = "XX"
    spec["grids"]["core"]["as_map"] = True


@dev(["hex"], "invalid", "solid-negative-area", invalid="overlap")
def _(spec):
    _comp(spec, "fuel", "clad")["dims"]["id"] = 1.2  # id > od


@dev(["hex"], "invalid", "solids-exceed-block", invalid="overlap")
def _(spec):
    _comp(spec, "fuel", "fuel")["dims"]["mult"] = 400.0  # pins do not fit into the duct


@dev(["hex"], "invalid", "linked-overlap", invalid="overlap")
def _(spec):
    # fuel larger than the clad bore: the bond between them (linked dimensions) has negative area
    b = _block(spec)
    _insert_before(b, "clad", comp("bond", "Circle", "Sodium", 450.0, 450.0, id="fuel.od", od="clad.id", mult="fuel.mult"))
    _comp(spec, "fuel", "fuel")["dims"]["od"] = 1.05


@dev(["hex"], "invalid", "duct-overlap", invalid="overlap")
def _(spec):
    _comp(spec, "fuel", "duct")["dims"]["op"] = 17.0  # duct thicker than the lattice pitch; intercoolant negative


@dev(["hex"], "invalid", "duct-beyond-pitch", invalid="overlap")
def _(spec):
    # in every block the duct is thicker than the lattice pitch: the inter-assembly coolant
    # (a fluid, linked to the duct) has negative area, block areas stay consistent
    for bn in spec["blocks"]:
        _comp(spec, bn, "duct")["dims"]["op"] = 17.0


@dev(["hex", "cart"], "invalid", "duplicate-component", invalid="duplicate name")
def _(spec):
    b = _block(spec)
    _insert_before(b, "coolant", copy.deepcopy(_comp(spec, "fuel", "clad")))


@dev(["hex"], "invalid", "duplicate-block", invalid="duplicate name")
def _(spec):
    spec["extra_blocks"] = [("fuel", copy.deepcopy(_block(spec, "plenum")))]


@dev(["hex", "cart"], "invalid", "duplicate-assembly", invalid="duplicate name")
def _(spec):
    # the same name (and specifier) twice, with different contents
    a = copy.deepcopy(spec["assemblies"]["igniter fuel"])
    a["xs"] = ["E" for _ in a["xs"]]
    spec["extra_assemblies"] = [("igniter fuel", a)]


@dev(["hex", "cart"], "invalid", "duplicate-specifier", invalid="duplicate name")
def _(spec):
    spec["assemblies"]["outer fuel"]["specifier"] = "IC"
    g = spec["grids"]["core"]["contents"]
    for k in g:
        g[k] = "IC"


def _len(field, delta):
    def f(spec):
        a = spec["assemblies"]["outer fuel"]
        v = a[field]
        a[field] = (v + v[-1:]) if delta > 0 else v[:-1]

    return f


for _fld in ("heights", "xs", "mesh"):
    dev(["hex", "cart"], "invalid", "len-%s-long" % _fld, invalid="unequal lengths")(_len(_fld, +1))
    dev(["hex", "cart"], "invalid", "len-%s-short" % _fld, invalid="unequal lengths")(_len(_fld, -1))


def _lenmod(delta, bycomp):
    def f(spec):
        a = spec["assemblies"]["outer fuel"]
        v = a["matmods"]["ZR_wt_frac"]
        v = (v + [""]) if delta > 0 else v[:-1]
        if bycomp:
            a["matmods"].pop("ZR_wt_frac")
            a["matmods"]["by component"] = {"fuel": {"ZR_wt_frac": v}}
        else:
            a["matmods"]["ZR_wt_frac"] = v

    return f


dev(["hex", "cart"], "invalid", "len-mod-long", invalid="unequal lengths")(_lenmod(+1, False))
dev(["hex", "cart"], "invalid", "len-mod-short", invalid="unequal lengths")(_lenmod(-1, False))
dev(["hex", "cart"], "invalid", "len-mod-bycomp-long", invalid="unequal lengths")(_lenmod(+1, True))
dev(["hex", "cart"], "invalid", "len-mod-bycomp-short", invalid="unequal lengths")(_lenmod(-1, True))


@dev(["hex", "cart"], "invalid", "len-mod-bycomp-long-two-components", invalid="unequal lengths")
def _(spec):
    # the same modification name under two components; only the first list is too long
    a = spec["assemblies"]["outer fuel"]
    v = a["matmods"].pop("ZR_wt_frac")
    a["matmods"]["by component"] = {"fuel": {"ZR_wt_frac": v + [""]}, "clad": {"ZR_wt_frac": ["" for _ in v]}}


def _badlink(value, cname="clad", dim="mult"):
    def f(spec):
        _comp(spec, "fuel", cname)["dims"][dim] = value

    return f


dev(["hex", "cart"], "invalid", "link-unknown-component", invalid="bad link")(_badlink("nothing.mult"))
dev(["hex", "cart"], "invalid", "link-unknown-dimension", invalid="bad link")(_badlink("fuel.nothing"))
dev(["hex", "cart"], "invalid", "link-malformed", invalid="bad link")(_badlink("fuelmult"))
dev(["hex", "cart"], "invalid", "link-to-missing-dimension", invalid="bad link")(_badlink("duct.od", dim="id"))
dev(["hex", "cart"], "invalid", "link-to-itself", invalid="bad link")(_badlink("clad.id", dim="id"))


@dev(["hex"], "invalid", "link-cycle", invalid="bad link")
def _(spec):
    _comp(spec, "fuel", "clad")["dims"]["id"] = "fuel.od"
    _comp(spec, "fuel", "fuel")["dims"]["od"] = "clad.id"


# ---------------------------------------------------------------------------------------------

# dimensions that edit the same part of the spec and cannot be combined
CONFLICTS = [
    {"extra", "extra_mat"},
    {"pins", "links"},
    {"stack", "heights"},
    {"stack", "xs"},
    {"stack", "mesh"},
    {"stack", "mods"},
    {"mods", "isotopics"},
    {"tokens", "stack"},
    {"tokens", "designs"},
    {"tokens", "grid"},
    {"tokens", "sharing"},
    {"tokens", "links"},
    {"tokens", "invalid"},
    {"sharing", "stack"},
    {"sharing", "heights"},
    {"sharing", "xs"},
    {"sharing", "mesh"},
    {"sharing", "mods"},
    {"sharing", "isotopics"},
    {"sharing", "extra"},
    {"sharing", "extra_mat"},
]


IDS_PARTNERS = ("stack", "nucflags", "pitch")


def make_spec(case):
    spec = base_spec(case["base"])
    reasons = []
    for dim, alt in case["devs"]:
        f, invalid = DEVS[case["base"]][dim][alt]
        f(spec)
        if invalid:
            reasons.append(invalid)
    return spec, reasons


def enumerate_cases(maxdev):
    """All documents with <= maxdev deviations (at most one invalid), simplest first."""
    out = []
    for base in ("hex", "cart"):
        out.append({"kind": "doc", "base": base, "devs": []})
    singles = []
    for base in ("hex", "cart"):
        for dim in DEVS[base]:
            for alt in DEVS[base][dim]:
                singles.append((base, dim, alt))
                out.append({"kind": "doc", "base": base, "devs": [[dim, alt]]})
    if maxdev >= 2:
        for a in range(len(singles)):
            for b in range(a + 1, len(singles)):
                (b1, d1, a1), (b2, d2, a2) = singles[a], singles[b]
                if b1 != b2 or d1 == d2 or {d1, d2} in CONFLICTS:
                    continue
                # boundary-token alternatives are explored alone (tokens) or with few partners
                if "tokens" in (d1, d2):
                    continue
                if (d1 == "pins" and a1.startswith("ids-") and d2 not in IDS_PARTNERS) or (d2 == "pins" and a2.startswith("ids-") and d1 not in IDS_PARTNERS):
                    continue
                devs = [[d1, a1], [d2, a2]]
                # apply the invalid deviation last (it edits what the other one created)
                devs.sort(key=lambda d: d[0] == "invalid")
                out.append({"kind": "doc", "base": b1, "devs": devs})
    return out
