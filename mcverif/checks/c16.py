"""C16 - retained state is restored exactly; parameter copies are equal and independent;
read-only reactors refuse every assignment.

Three deciding steps, all on the real objects of a generated hex reactor (pin grid, two block kinds,
linked component dimensions, spent fuel pool):

A. *Scope/assignment histories* (model checking).  Explicit-state BFS (``explore.bfs``) over
   histories of ``enter(obj, keep)`` / ``exit`` / mutation operations.  One search per *scenario*:
   a scenario fixes two (thorough: also three) scope objects out of {reactor, core, assembly,
   block, component} with their keep-sets (none / scalar definitions / scalar+array+dict+None+
   unset definitions) and a small set of mutation operations; within a scenario every well-nested
   history up to the depth bound is executed.  Mutation operations assign fresh values:
     P  parameter bundle: one parameter of each value kind (scalar, array, dict, None, previously
        unset) on eight targets (reactor, core, assembly, block, component, and an assembly, a
        block and a component that lie outside the smaller scopes), through ``p.x = v``,
        ``p[x] = v`` and ``p.update``;
     D  ``setNumberDensity`` + ``setTemperature`` on the component; D2 the same on two components
        outside the component scope (one of them outside the assembly);
     G  ``changePitch`` of the core grid and of the block's pin grid;
     H  ``Block.setHeight`` (assembly axial bounds, z-parameters of the sibling block);
     Q  cache-filling queries (areas, volumes, masses, material densities) - no assignment;
     S  an array parameter of the keep-set changes *shape*;
     L  a linked component dimension is replaced by a number;
     W  raw dimension assignments ``p.od = v`` (no cache is invalidated); CC ``clearCache`` of every
        composite and material (scopes are entered with cold as well as warm caches);
     F  ``makeParametersReadOnly`` - possibly while scopes are open; from then on every operation,
        ``enter`` and ``exit`` included, must raise or return with every value of the reactor unchanged.
   Two cores: the hex third core and a quarter Cartesian core whose grid has a non-zero offset (and
   whose blocks hold the *core* grid as their own spatialGrid: grids are modelled by identity - a
   scope restores every grid object held beneath it, for every holder).  G uses every public mutator
   of the arrays a grid back-up refers to (changePitch: unit steps and offset; the offset setter;
   H the axial bounds); grid ``reduce()`` (pitch, bounds, offset) and the global coordinates of every
   object are part of the raw observation.
   Reference model: a stack of raw observations (every parameter value, own grid, locator,
   serial number, dimension links, material class) taken at each ``enter``.  Oracles:
     * ``enter`` changes nothing observable;
     * after ``exit`` the whole reactor equals the observation before the exit with the scope
       subtree replaced by the snapshot, except kept parameters, which hold their current values
       (so: subtree restored, kept values retained, everything outside untouched, LIFO);
     * ``cached`` dictionaries (composites and materials) of the subtree after ``exit`` equal those
       at ``enter``; after an ``exit`` the full observation (volumes, masses, areas, hot
       dimensions) is unchanged by clearing every cache (nothing stale leaked);
     * differential: two histories reaching the same raw state with the same scope stack have the
       same *full* observation (this is what compares derived quantities after a restore with the
       untouched reactor).  While a scope is open, states reached through different enter/exit
       sequences inside it are *not* merged (back-up slots are hidden state);
     * both derived-quantity oracles are switched off after an exit that kept a changed
       temperature / number-density / height / dimension parameter (the cached volume and area
       parameters are then restored, as stated, to values that no longer match the kept ones) and
       after a density/temperature/height/dimension assignment to an object *outside* an open
       scope (the statement quantifies over assignments inside the scope; the raw oracle, which
       includes "outside objects keep their values", stays on).
B. *Copies* in every reached state of A (scopes open or not): ``copy.deepcopy`` and a pickle round
   trip of a component, a block and an assembly (core and reactor in states up to a smaller
   history length): parameter values equal, fresh serial numbers for deep copies / the original's
   for pickles, no serial number shared by two live objects, independence in both directions
   under assignment *and* in-place mutation of array/dict values, number densities, temperature,
   grid pitch and height.
C. *Read-only* (exhaustive enumeration): after ``makeParametersReadOnly`` every parameter
   definition of every object (core, spent fuel pool and the assembly stored in it included) is
   assigned once (thorough: four value kinds), rotating the three assignment syntaxes: each must
   raise and leave every value unchanged; then every mutator method that assigns internally
   (setNumberDensity, setNumberDensities, updateNumberDensities, changeNDensByFactor,
   setTemperature, setDimension, setHeight, setType, p.update; on blocks and assemblies the
   composite-level setNumberDensity) must leave every value of the whole reactor unchanged.

Class-level ``Parameter.assigned`` / ``Parameter._backup`` are reset before every execution
(DESIGN 2.2).  Live objects are never reused across executions: every history is rebuilt from the
blueprint text and replayed; recorded outcomes of the prefix must be found again.
"""
import copy
import os
import pickle
import random

import numpy as np

from mcverif import build, core, explore, observe

PROPERTY = "C16"
LEVEL = "model_checking"
MOD = "mcverif.checks.c16"

# ---------------------------------------------------------------------------------------------
# bounds (one place)

BOUNDS = {
    "quick": {"depth": 5, "heavy": 1, "ro_rings": 2, "ro_kinds": 1},
    # thorough: the whole scenario family at wide_depth, the quick family at depth-1, six of it at depth
    "thorough": {"depth": 7, "wide_depth": 5, "heavy": 2, "ro_rings": 3, "ro_kinds": 4},
}
MAXNEST = 3

# ---------------------------------------------------------------------------------------------
# parameter tables: per object kind, one parameter of each value kind

PTAB = {
    "R": {"scalar": "cycleLength", "array": "eFeedMT", "dict": "eFissile", "none": "lcoe", "unset": "eSWU"},
    "K": {"scalar": "keffUnc", "array": "beta", "dict": "detailedNucKeys", "none": "lastKeff", "unset": "fisFrac"},
    "A": {"scalar": "kInf", "array": "powerDecay", "dict": "detailedNDens", "none": "buLimit", "unset": "nozzleType"},
    "B": {"scalar": "power", "array": "mgFlux", "dict": "pinLocation", "none": "flux", "unset": "THhotChannelCladODT"},
    "C": {"scalar": "percentBu", "array": "pinNDens", "dict": "pinPercentBu", "none": "massHmBOL", "unset": "zrFrac"},
}
KINDS = ("scalar", "array", "dict", "none", "unset")
# dimension parameters of components (those a component class defines are kept in keep-set 2)
CDIMS = ("od", "id", "mult", "op", "ip", "widthOuter", "widthInner")
# keep-sets are sets of parameter *definitions*; here by name per object kind
KEEPNAMES = [
    {k: [] for k in PTAB},
    {"R": ["cycleLength"], "K": ["keffUnc"], "A": ["kInf"], "B": ["power"], "C": ["percentBu", "temperatureInC"]},
    {
        "R": ["cycleLength", "eFeedMT", "eFissile", "lcoe", "eSWU"],
        "K": ["keffUnc", "beta", "detailedNucKeys", "lastKeff", "fisFrac"],
        "A": ["kInf", "powerDecay", "detailedNDens", "buLimit", "nozzleType"],
        "B": ["power", "mgFlux", "pinLocation", "flux", "THhotChannelCladODT", "height"],
        "C": ["percentBu", "pinNDens", "pinPercentBu", "massHmBOL", "zrFrac", "temperatureInC", "numberDensities"] + list(CDIMS),
    },
]
# params that are caches of public queries are observed through the query (full observation)
RAW_EXCL = ("area",)
MUTS = ("P", "D", "D2", "G", "H", "Q", "S", "L", "RL", "W", "CC", "F")
# objects whose derived quantities (volumes, masses) an operation changes by assignment
FOOT = {"D": ("C",), "D2": ("C2", "C3"), "H": ("B",), "L": ("C4",), "RL": ("C2",), "W": ("C2", "DU")}
DERIVED_INPUTS = {"temperatureInC", "numberDensities", "height"} | set(CDIMS)


def _kind(o_or_cls):
    n = o_or_cls if isinstance(o_or_cls, str) else type(o_or_cls).__name__
    if n == "Reactor":
        return "R"
    if n == "Core":
        return "K"
    if n.endswith("Assembly"):
        return "A"
    if n.endswith("Block"):
        return "B"
    if n in ("SpentFuelPool", "ExcoreStructure"):
        return "X"
    return "C"


# ---------------------------------------------------------------------------------------------
# state construction


def _spec(name):
    if name == "r2":  # two assemblies (one of each design) x two blocks, pin grid
        return build.hex_spec(rings=2, pins=True, cells=build.third_core_cells(2)[:2])
    if name == "cq":  # quarter Cartesian core, axes between the cells: the core grid has a non-zero offset
        sp = build.cart_spec(n=2, quarter=True, through_center=False)
        cont = sp["grids"]["core"]["contents"]
        ic = sorted(k for k, v in cont.items() if v == "IC")[:1]
        oc = sorted(k for k, v in cont.items() if v == "OC")[:1]
        sp["grids"]["core"]["contents"] = {k: cont[k] for k in ic + oc}  # two assemblies are enough
        return sp
    if name == "r2s":
        return build.hex_spec(rings=2, pins=True, sfp_contents={(0, 0): "IC"})
    if name == "r3s":
        return build.hex_spec(rings=3, pins=True, sfp_contents={(0, 0): "IC"})
    raise ValueError(name)


def _reset_class_state():
    """Parameter.assigned/_backup are class-level: give every execution the import-time state."""
    from armi.reactor.parameters import parameterDefinitions as pdm

    for pd in pdm.ALL_DEFINITIONS:
        pd.assigned = pdm.NEVER
        pd._backup = None


class State:
    def __init__(self, init):
        _reset_class_state()
        random.seed(1234 + int(init.get("seed", 0)))
        self.init = init
        self.seed = int(init.get("seed", 0))
        self.r = build.reactor(_spec(init.get("spec", "r2")), seed=self.seed)
        r = self.r
        K = r.core
        A = K[0]
        B = A[0]
        self.o = {
            "R": r,
            "K": K,
            "A": A,
            "B": B,
            "C": B.getComponentByName("fuel"),
            "A2": K[1],  # outside A
            "B2": A[1],  # inside A, outside B (plenum block, has linked dimensions)
            "C2": B.getComponentByName("clad"),  # inside B, outside C
            "C3": K[1][0].getComponentByName("fuel"),  # outside A
            "DU": B.getComponentByName("duct"),
        }
        for c in A[1]:  # a component with a linked dimension (hex: gap of the plenum block, Cartesian: clad)
            linked = [dn for dn in c.DIMENSION_NAMES if _islink(getattr(c.p, "_p_" + dn, None))]
            if linked:
                self.o["C4"] = c
                self.ldim = linked[0]
                break
        self.tainted = False
        self.frozen = False  # makeParametersReadOnly has been called
        self.inc = False  # raw assignments have left caches stale at the current scope level

        self.trace = []  # scope events since the outermost open scope was entered
        self.stack = []  # dicts: name, keep, ret, snap, csnap, inner
        self.counts = {}

    def n(self, op):
        self.counts[op] = self.counts.get(op, 0) + 1
        return self.counts[op]


def _islink(v):
    from armi.reactor.components import Component

    return isinstance(v, tuple) and len(v) == 2 and isinstance(v[0], Component)


def keepdefs(s, obj, ki):
    """The keep-set as definitions: for every object beneath obj the definitions named for its kind."""
    out = []
    seen = set()
    for x in [obj] + list(obj.iterChildren(deep=True)):
        defined = {pd.name for pd in x.p.paramDefs}
        for n in KEEPNAMES[ki].get(_kind(x), ()):
            if n not in defined:
                continue  # e.g. a dimension this component class does not have
            pd = x.p.paramDefs[n]
            if id(pd) not in seen:
                seen.add(id(pd))
                out.append(pd)
    return out


# ---------------------------------------------------------------------------------------------
# observation


def _decorate(o, d):
    from armi.reactor.components import Component

    if isinstance(o, Component):
        d["mat"] = type(o.material).__name__
        links = {}
        for dn in o.DIMENSION_NAMES:
            try:
                raw = getattr(o.p, "_p_" + dn)
            except AttributeError:
                links[dn] = "<field deleted>"
                continue
            if isinstance(raw, tuple) and len(raw) == 2 and isinstance(raw[0], Component):
                links[dn] = [raw[0].name, raw[1], raw[0].parent is o.parent]
        d["links"] = links
    for c, cd in zip(list(o), d["children"]):
        _decorate(c, cd)


_SKIP = set(RAW_EXCL) | set(observe.EXCLUDED_PARAMS) | set(observe.CACHE_PARAMS) | {"serialNum"}
_PLAIN = (float, int, str, type(None))


def _fastparams(o):
    """Every parameter value of one object (same content as observe._params, read from the fields)."""
    p = o.p
    d = p.__dict__
    out = {}
    cv = observe.canon_value
    for pd in type(p).pDefs:
        n = pd.name
        if n in _SKIP:
            continue
        v = d.get(pd.fieldName, pd.default)
        t = type(v)
        if t in _PLAIN:
            out[n] = "nan" if (t is float and v != v) else v
        elif t is np.float64:
            out[n] = "nan" if v != v else float(v)
        elif n == "flags":
            out[n] = str(v)
        else:
            out[n] = cv(v)
    return out


def _rawnode(o, serials):
    d = {"cls": type(o).__name__, "name": getattr(o, "name", None)}
    try:
        d["type"] = o.getType()
    except AttributeError:
        d["type"] = None
    d["flags"] = str(o.p.flags)
    sn = o.p.serialNum
    d["serial"] = int(sn) if isinstance(sn, (int, np.integer)) else "<%s>" % type(sn).__name__
    serials.append(d)
    d["loc"] = observe._loc(o)
    try:
        d["xyz"] = np.asarray(o.spatialLocator.getGlobalCoordinates(), dtype=float).tolist()
    except Exception as e:
        d["xyz"] = "<raises %s>" % type(e).__name__
    d["grid"] = observe._grid(o)
    d["params"] = _fastparams(o)
    d["children"] = [_rawnode(c, serials) for c in o]
    return d


def raw(o, rank=False):
    """Raw observation: no derived query is called, so caches are not perturbed by observing."""
    serials = []
    d = _rawnode(o, serials)
    if rank:
        order = {s: i for i, s in enumerate(sorted((x["serial"] for x in serials), key=str))}
        for x in serials:
            x["serial"] = order[x["serial"]]
    _decorate(o, d)
    return d


def _cachedict(x):
    if not isinstance(x, dict):
        return {"__not_a_dict__": repr(type(x).__name__)}
    return {str(k): observe.canon_value(v) for k, v in sorted(x.items(), key=lambda kv: str(kv[0]))}


def cacheobs(o):
    from armi.reactor.components import Component

    d = {"c": _cachedict(o.cached)}
    if isinstance(o, Component):
        d["m"] = _cachedict(o.material.cached)
    d["children"] = [cacheobs(c) for c in o]
    return d


def full(o):
    try:
        return observe.obs(o, rank=True)
    except Exception as e:  # a broken state (reported by the raw oracle) may not be observable
        return {"__raises__": type(e).__name__}


def path_to(root, obj):
    p = []
    x = obj
    while x is not root:
        par = x.parent
        kids = list(par)
        p.append([i for i, k in enumerate(kids) if k is x][0])
        x = par
    return list(reversed(p))


def node_at(d, path):
    for i in path:
        d = d["children"][i]
    return d


def replaced(d, path, sub):
    """Copy of observation d with the node at path replaced by sub."""
    if not path:
        return sub
    out = dict(d)
    out["children"] = list(d["children"])
    out["children"][path[0]] = replaced(d["children"][path[0]], path[1:], sub)
    return out


def expected_subtree(snap, pre, ki):
    """snapshot, except kept parameters, which hold their current (pre-exit) values."""
    out = dict(snap)
    names = KEEPNAMES[ki].get(_kind(snap["cls"]), ())
    if names:
        out["params"] = dict(snap["params"])
        for n in names:
            if n in pre["params"]:
                out["params"][n] = pre["params"][n]
        if "links" in snap:  # a kept dimension keeps whatever it holds at exit, link or number
            out["links"] = dict(snap["links"])
            for n in names:
                if n in pre.get("links", {}):
                    out["links"][n] = pre["links"][n]
                else:
                    out["links"].pop(n, None)
    out["children"] = [expected_subtree(a, b, ki) for a, b in zip(snap["children"], pre["children"])]
    return out


# ---------------------------------------------------------------------------------------------
# mutation operations (their semantics are not under test; they produce fresh values)


def _take_xyz(dst, src):
    """Coordinates depend on the grids of the ancestors too: where those changed, no expectation."""
    out = dict(dst)
    out["xyz"] = src.get("xyz")
    out["children"] = [_take_xyz(a, b) for a, b in zip(dst["children"], src["children"])]
    return out


def _grid_snap(obj):
    """Grids are shared objects (a Cartesian block's spatialGrid *is* the core grid): a scope backs
    up and restores every grid object held beneath it, whoever else holds it."""
    out = {}
    for x in [obj] + list(obj.iterChildren(deep=True)):
        g = getattr(x, "spatialGrid", None)
        if g is not None and id(g) not in out:
            out[id(g)] = observe._grid(x)["reduce"]
    return out


def _apply_gsnap(o, node, gsnap):
    """Expected observation: every holder of a grid object of the scope sees its snapshot."""
    g = getattr(o, "spatialGrid", None)
    out = node
    if g is not None and id(g) in gsnap and node.get("grid") is not None:
        out = dict(node)
        out["grid"] = dict(node["grid"], reduce=gsnap[id(g)])
    kids = [_apply_gsnap(c, cn, gsnap) for c, cn in zip(list(o), node["children"])]
    if any(a is not b for a, b in zip(kids, node["children"])):
        out = dict(out)
        out["children"] = kids
    return out


def _anc_grids(root, obj):
    out = []
    x = obj.parent
    while x is not None:
        out.append(observe._grid(x))
        if x is root:
            break
        x = x.parent
    return out


def _val(kind, ti, n, seed):
    base = 1000.0 * (ti + 1) + 10.0 * seed
    if kind == "scalar":
        return base + n + 0.5
    if kind == "array":
        return np.array([base + n, float(n), 0.25 * ti])
    if kind == "dict":
        return {"a": base + n, "b": [n, ti]}
    if kind == "none":
        return None
    return base + 7.0 * n  # unset


PTARGETS = ("R", "K", "A", "B", "C", "A2", "B2", "C2")


def _assign(p, name, v, how):
    if how == 0:
        setattr(p, name, v)
    elif how == 1:
        p[name] = v
    else:
        p.update({name: v})


# Every operation derives its next values from the *current* state (never from how often it ran):
# histories that reach the same state have the same futures, whichever is met first.


def _gen(v, base, step):
    """How many steps of ``step`` the number v lies above ``base`` (0 for anything else)."""
    if isinstance(v, (int, float, np.integer, np.floating)) and not isinstance(v, bool) and v > base - 0.5 * step:
        return int(round((float(v) - base) / step))
    return 0


# names that also exist on other object types: the keep-sets name them for ONE type only, every
# other level is assigned too and must be restored
XNAMES = ("kInf", "power", "percentBu", "massHmBOL", "buLimit", "powerDecay", "detailedNDens", "buRate")


def mut_P(s):
    b0 = _val("scalar", PTARGETS.index("B"), 0, s.seed)
    n = _gen(s.o["B"].p.power, b0, 1.0) + 1
    s.n("P")
    for ti, t in enumerate(PTARGETS):
        o = s.o[t]
        tab = PTAB[_kind(o)]
        for j, kind in enumerate(KINDS):
            _assign(o.p, tab[kind], _val(kind, ti, n, s.seed), (ti + j + n) % 3)
        own = set(tab.values())
        defined = {pd.name for pd in o.p.paramDefs}
        for j, xn in enumerate(XNAMES):
            if xn in defined and xn not in own:
                _assign(o.p, xn, _val("scalar", 20 + 10 * ti + j, n, s.seed), (ti + j + n) % 3)


def mut_D(s):
    s.n("D")
    C = s.o["C"]
    n = _gen(C.temperatureInC, 600.0 + s.seed, 11.0) + 1
    f = 1.0 + 0.03 * n + 0.001 * s.seed
    C.setNumberDensity("U235", 0.004 * f)
    C.setTemperature(600.0 + 11.0 * n + s.seed)


def mut_D2(s):
    s.n("D2")
    C2, C3 = s.o["C2"], s.o["C3"]
    n = _gen(C2.temperatureInC, 470.0 + s.seed, 7.0) + 1
    f = 1.0 + 0.03 * n + 0.001 * s.seed
    C2.setTemperature(470.0 + 7.0 * n + s.seed)
    C2.setNumberDensity("FE", 0.07 * f)
    C3.setNumberDensity("ZR", 0.009 * f)
    C3.setTemperature(600.0 + 13.0 * n + s.seed)


def _chpitch(g, d):
    """changePitch of a hex or Cartesian grid by an increment."""
    from armi.reactor import grids

    if isinstance(g, grids.HexGrid):
        g.changePitch(g.pitch + d)
    else:
        xw, yw = g.pitch
        g.changePitch(float(xw) + d, float(yw) + 0.5 * d)


def mut_G(s):
    """Every public mutator of the arrays a grid back-up refers to: pitch (unit steps, and for an
    offset Cartesian grid the offset), the offset setter; bounds are H's business."""
    s.n("G")
    g = s.o["K"].spatialGrid
    _chpitch(g, 1.25 + 0.01 * s.seed)
    g.offset = np.array(g.offset) + np.array([0.5, 0.25, 0.0])
    pg = s.o["B"].spatialGrid
    if pg is not None and pg is not g:
        _chpitch(pg, 0.0625 + 0.001 * s.seed)


def mut_H(s):
    s.n("H")
    B = s.o["B"]
    n = _gen(B.getHeight(), 25.0 + 0.125 * s.seed, 2.0) + 1
    B.setHeight(25.0 + 2.0 * n + 0.125 * s.seed)


def mut_Q(s):
    s.n("Q")
    o = s.o
    for x in (o["B"], o["B2"], o["A2"][0]):
        x.getArea()
        x.getVolume()
        x.getMass()
        x.getPitch()
    for x in (o["C"], o["C2"], o["C3"], o["B"].getComponentByName("coolant")):
        x.getArea()
        x.getVolume()
        x.getMass()
        x.material.pseudoDensity(Tc=x.temperatureInC)
    o["A"].getMass()
    o["K"].getMass()


def mut_S(s):
    s.n("S")
    a = s.o["B"].p.mgFlux
    n = (len(a) - 3 if isinstance(a, np.ndarray) and a.ndim == 1 and len(a) >= 3 else 0) + 1
    s.o["B"].p.mgFlux = np.arange(3 + n, dtype=float) + 0.5 * s.seed
    s.o["C"].p.pinNDens = np.ones((n + 1, 2)) * (n + s.seed)


def _plainnum(v):
    return isinstance(v, (int, float, np.integer, np.floating)) and not isinstance(v, bool)


def mut_L(s):
    """A linked dimension is replaced by a number (setDimension); a plain dimension of the same
    component is changed by setDimension too."""
    s.n("L")
    c = s.o["C4"]
    dn = s.ldim  # the dimension that was a link when the reactor was built
    cur = getattr(c.p, "_p_" + dn, None)
    n = (_gen(cur, 0.5 + 0.001 * s.seed, 0.01) if _plainnum(cur) else 0) + 1
    c.setDimension(dn, 0.5 + 0.01 * n + 0.001 * s.seed)
    for d2 in c.DIMENSION_NAMES:
        v = getattr(c.p, "_p_" + d2, None)
        if d2 != dn and d2 not in ("mult", "modArea") and _plainnum(v):
            c.setDimension(d2, float(v) + 0.001)
            break


def mut_RL(s):
    """Re-link: a plain dimension becomes a link (and moves on to another link target next time)."""
    s.n("RL")
    C, C2 = s.o["C"], s.o["C2"]
    cur = getattr(C2.p, "_p_id", None)
    C2.setLink("id", C, "id" if _islink(cur) and cur[1] == "od" else "od")


def mut_W(s):
    """Raw dimension assignments (no cache is invalidated by them)."""
    s.n("W")
    s.o["C2"].p.od = float(s.o["C2"].p.od) + 0.002
    du = s.o["DU"]
    dn = "op" if "op" in du.DIMENSION_NAMES else "widthOuter"
    du.p[dn] = du.p[dn] - 0.01


def mut_CC(s):
    s.n("CC")
    s.r.clearCache()
    for c in s.r.iterChildren(deep=True):
        m = getattr(c, "material", None)
        if m is not None:
            m.clearCache()


def mut_F(s):
    from armi.reactor.reactorParameters import makeParametersReadOnly

    s.n("F")
    makeParametersReadOnly(s.r)


MUTF = {"P": mut_P, "D": mut_D, "D2": mut_D2, "G": mut_G, "H": mut_H, "Q": mut_Q, "S": mut_S, "L": mut_L, "W": mut_W, "CC": mut_CC, "F": mut_F, "RL": mut_RL}

# ---------------------------------------------------------------------------------------------
# violation keys from observation differences

_DIMS = {"od", "id", "op", "ip", "mult", "widthOuter", "widthInner", "lengthOuter", "lengthInner", "modArea", "axialPitch", "helixDiameter"}


def _pkind(cls, name):
    tab = PTAB.get(_kind(cls), {})
    for k, n in tab.items():
        if n == name:
            return k
    if name in _DIMS:
        return "dimension"
    if name in XNAMES:
        return "same-name-on-another-type"
    if name in ("numberDensities", "temperatureInC", "height", "z", "ztop", "zbottom"):
        return name
    return "other"


def _walk(a, b, path, cls, out):
    """Collect (family, detail, path) differences between two raw observations."""
    if len(out) > 40:
        return
    for fam in ("cls", "type", "name", "flags"):
        if a.get(fam) != b.get(fam):
            out.append(("id", fam, path, a.get(fam), b.get(fam)))
    for fam in ("serial", "loc", "grid", "xyz", "mat", "links"):
        if observe.diff(a.get(fam), b.get(fam)):
            out.append((fam, fam, path, a.get(fam), b.get(fam)))
    pa, pb = a.get("params", {}), b.get("params", {})
    for n in pa:
        if n not in pb or observe.diff(pa[n], pb[n]):
            out.append(("param", n, path, pa[n], pb.get(n, "<missing>")))
    ca, cb = a.get("children", []), b.get("children", [])
    if len(ca) != len(cb):
        out.append(("children", "count", path, len(ca), len(cb)))
        return
    for i, (x, y) in enumerate(zip(ca, cb)):
        _walk(x, y, path + [i], x.get("cls"), out)


def rawdiff(exp, got):
    out = []
    _walk(exp, got, [], exp.get("cls"), out)
    return out


def _short(v, n=90):
    t = repr(v)
    return t if len(t) <= n else t[: n - 3] + "..."


# ---------------------------------------------------------------------------------------------
# applying one operation to the real objects and the model


def apply(s, op, check, viols, case):
    """Apply one operation; returns the outcome label. Oracles run only when ``check``."""
    name = op[0]

    def bad(key, msg):
        viols.append(core.viol("c16/" + key, "history %s: %s" % (case["hist"], msg), case))

    if s.frozen or name == "F":
        # after the freeze NO value may change, whatever is called; an exception is a refusal
        pre = raw(s.r) if check else None
        exc = None
        try:
            if name == "enter":
                oname, ki = s.init["enters"][op[1]]
                what = "enter(%s)" % oname
                s.o[oname].retainState(keepdefs(s, s.o[oname], ki)).__enter__()  # refused: no frame
            elif name == "exit":
                fr = s.stack.pop()
                s.trace = s.trace + [["X"]] if s.stack else []
                what = "exit of the scope on %s opened before the freeze" % fr["name"]
                fr["ret"].__exit__(None, None, None)
            else:
                what = "operation " + name
                MUTF[name](s)
        except Exception as e:
            exc = type(e).__name__
        if name == "F":
            s.frozen = True
            if exc:
                if check:
                    bad("freeze-raises-" + exc, "makeParametersReadOnly raises " + exc)
                return "raised:" + exc
        if check:
            for d in rawdiff(pre, raw(s.r))[:2]:
                opn = "retainState" if name in ("enter", "exit") else name
                nm = "freeze" if name == "F" else "frozen-%s-%s" % (opn, "raises-but" if exc else "returns-and")
                what_changed = "param-dimension" if d[0] == "links" else ("param-" + _pkind(node_at(pre, d[2])["cls"], d[1]) if d[0] == "param" else d[0])
                bad(
                    "%s-value-changed-%s" % (nm, what_changed),
                    "%s %s, and %s %s at %s changed: %s -> %s" % (what, "raises " + exc if exc else "returns normally", d[0], d[1], d[2], _short(d[3]), _short(d[4])),
                )
        return "refused:" + exc if exc else "ok"

    if name == "enter":
        oname, ki = s.init["enters"][op[1]]
        obj = s.o[oname]
        pre = raw(s.r) if check else None
        snap = raw(obj)
        csnap = cacheobs(obj)
        ret = obj.retainState(keepdefs(s, obj, ki))
        try:
            ret.__enter__()
        except Exception as e:
            if check:
                bad("enter-raises-" + type(e).__name__, "enter(%s, keep %d) raises %r" % (oname, ki, e))
            return "raised:" + type(e).__name__
        opath = path_to(s.r, obj)
        for fr in s.stack:
            fr["inner"] = True
            fr["inner_paths"].append(opath)
        s.trace.append(["E", op[1]])
        s.stack.append(
            {"i": op[1], "name": oname, "ki": ki, "ret": ret, "snap": snap, "csnap": csnap, "inner": False, "inner_paths": [], "path": opath, "inc": s.inc, "anc": _anc_grids(s.r, obj), "gsnap": _grid_snap(obj)}
        )
        if check:
            for d in rawdiff(pre, raw(s.r))[:3]:
                bad("enter-changes-" + d[0], "enter(%s, keep %d) changed %s %s at %s: %s -> %s" % (oname, ki, d[0], d[1], d[2], _short(d[3]), _short(d[4])))
        return "ok"

    if name == "exit":
        fr = s.stack.pop()
        s.trace = s.trace + [["X"]] if s.stack else []
        obj = s.o[fr["name"]]
        pre = raw(s.r) if check else None
        if check or fr["ki"]:
            pre_sub = node_at(pre, fr["path"]) if check else raw(obj)
            exp_sub = expected_subtree(fr["snap"], pre_sub, fr["ki"])
        if fr["ki"]:
            # a kept parameter that feeds derived quantities keeps its new value while the cached
            # volume/area parameters are (as stated) restored: derived quantities are then outside
            # the reference model, the stale-cache and differential oracles are switched off
            for d in rawdiff(fr["snap"], exp_sub):
                if d[0] == "param" and d[1] in DERIVED_INPUTS:
                    s.tainted = True
        try:
            fr["ret"].__exit__(None, None, None)
        except Exception as e:
            if check:
                bad(
                    "exit-raises-%s%s" % (type(e).__name__, "-keep" if fr["ki"] else ""),
                    "exit of scope on %s (keep-set %d) raises %r; the scope is left half restored" % (fr["name"], fr["ki"], e),
                )
            return "raised:" + type(e).__name__
        s.inc = fr["inc"]  # the state of the enclosing level is back, stale caches included
        if check:
            post = raw(s.r)
            if _anc_grids(s.r, obj) != fr["anc"]:
                exp_sub = _take_xyz(exp_sub, node_at(post, fr["path"]))
            exp = replaced(pre, fr["path"], exp_sub)
            exp2 = _apply_gsnap(s.r, exp, fr["gsnap"])
            if exp2 is not exp and rawdiff(exp, exp2):
                # a grid object of the scope is also held outside it and comes back: the coordinates of
                # the outside objects follow it, no separate expectation
                exp = _take_xyz(exp2, post)
            seen = set()
            for fam, det, path, want, got in rawdiff(exp, post):
                inside = path[: len(fr["path"])] == fr["path"]
                nd = node_at(post, path)
                if fam == "param":
                    kept = det in KEEPNAMES[fr["ki"]].get(_kind(nd["cls"]), ()) and inside
                    key = "exit-param-%s-%s" % (_pkind(nd["cls"], det), ("kept-not-retained" if kept else "not-restored") if inside else "outside-scope-changed")
                elif fam == "links":  # same mechanism as the dimension parameter that holds the link
                    key = "exit-param-dimension-%s" % ("not-restored" if inside else "outside-scope-changed")
                else:
                    key = "exit-%s-%s" % (fam, "not-restored" if inside else "outside-scope-changed")
                # the object was backed up twice at the same time (it also lay in an inner scope)
                twice = inside and any(path[: len(ip)] == ip for ip in fr["inner_paths"])
                if twice:
                    key += "-after-inner-scope"
                if key in seen:
                    continue
                seen.add(key)
                bad(
                    key,
                    "after exit of scope on %s (keep-set %d%s) %s %s of %s %r at path %s is %s, expected %s"
                    % (fr["name"], fr["ki"], ", an inner scope containing the object was opened and closed meanwhile" if twice else "", fam, det, nd["cls"], nd["name"], path, _short(got), _short(want)),
                )
            cd = observe.diff(fr["csnap"], cacheobs(obj))
            if cd:
                own = all(x.startswith("/m/") for x in cd)  # only the material of the scope object itself
                bad("exit-cache-leak" + ("-own-material" if own else ("-after-inner-scope" if fr["inner"] else "")), "cached dictionaries under %s differ from those at enter: %s" % (fr["name"], cd[:3]))
        return "ok"

    f = MUTF[name]
    for t in FOOT.get(name, ()):
        tp = path_to(s.r, s.o[t])
        for fr in s.stack:
            if tp[: len(fr["path"])] != fr["path"]:
                # an assignment *outside* an open scope that changes derived quantities: the statement
                # quantifies over assignments inside the scope; restored cached volumes of in-scope
                # objects may legitimately disagree with the outside change (raw oracles stay on)
                s.tainted = True
    try:
        f(s)
    except Exception as e:
        if check:
            bad("mutation-%s-raises-%s" % (name, type(e).__name__), "operation %s raises %r in a state produced by enter/exit" % (name, e))
        return "raised:" + type(e).__name__
    if name in ("W", "RL"):  # raw assignments (setLink is one): no cache is invalidated
        s.inc = True
    elif name == "CC":
        s.inc = False
    return "ok"


def _por_start(init, hist):
    last = hist[-1][0] if hist else None
    muts = init["muts"]
    return muts.index(last) + 1 if last in muts else 0  # independent mutations: one order only


def enabled_ops(s, hist):
    init = s.init
    ops = []
    muts = init["muts"]
    for m in muts[_por_start(init, hist) :]:
        # once frozen: no second freeze; grid pitch/offset are not parameters, the read-only clause
        # does not speak about them
        if not (s.frozen and m in ("F", "G")):
            ops.append([m])
    openi = {fr["i"] for fr in s.stack}
    if len(s.stack) < min(MAXNEST, init.get("maxnest", MAXNEST)):
        for i in range(len(init["enters"])):
            if i not in openi:
                ops.append(["enter", i])
    if s.stack:
        ops.append(["exit"])
    return ops


# ---------------------------------------------------------------------------------------------
# copies (step B)


def _serials(o):
    return [x.p.serialNum for x in [o] + list(o.iterChildren(deep=True))]


def _valobs(o):
    """Parameter values (all of them, serial numbers excluded), own grids, dimension links, material."""
    return _strip(raw(o))


def _strip(d):
    out = {k: v for k, v in d.items() if k in ("cls", "params", "mat", "links")}  # not xyz: a copy is detached
    g = d.get("grid")
    out["grid"] = None if g is None else {"cls": g.get("cls"), "reduce": g.get("reduce")}  # ownership is C01's business
    out["children"] = [_strip(c) for c in d["children"]]
    return out


def _perturb(x, salt):
    """Assignments and in-place mutations of one object (kind-specific) and what lies beneath."""
    from armi.reactor import assemblies, blocks
    from armi.reactor.components import Component

    k = _kind(x)
    tab = PTAB.get(k)
    if tab:
        x.p[tab["scalar"]] = 777.0 + salt
        a = x.p[tab["array"]]
        if isinstance(a, np.ndarray) and a.size:
            a.flat[0] += 1.0 + salt  # in place
        else:
            x.p[tab["array"]] = np.array([1.0 + salt, 2.0])
        dd = x.p[tab["dict"]]
        if isinstance(dd, dict):
            dd["zz"] = salt  # in place
        else:
            x.p[tab["dict"]] = {"zz": salt}
    if isinstance(x, Component):
        if x.p.numberDensities:
            x.p.numberDensities[sorted(x.p.numberDensities)[0]] *= 1.5 + salt  # in place
        x.setTemperature(x.temperatureInC + 3.0 + salt)
        if x.p.numberDensities:
            nuc = sorted(x.p.numberDensities)[-1]
            x.setNumberDensity(nuc, x.getNumberDensity(nuc) * 1.25)
        return
    if isinstance(x, blocks.Block):
        if x.spatialGrid is not None:
            _chpitch(x.spatialGrid, 0.5 + salt)
        x.setHeight(x.getHeight() + 1.0 + salt)
        _perturb(list(x)[0], salt)
        return
    if isinstance(x, assemblies.Assembly):
        _perturb(x[0], salt)
        return
    if k == "K":
        _chpitch(x.spatialGrid, 1.0 + salt)
        _perturb(x[0], salt)
        return
    if k == "R":
        _perturb(x.core, salt)


def copy_checks(s, case, heavy, root0=None):
    viols = []

    def bad(key, msg):
        viols.append(core.viol("c16/" + key, "history %s: %s" % (case["hist"], msg), case))

    names = ["C", "B", "A"] + (["K", "R"] if heavy else [])
    live = _serials(s.r)
    if len(set(live)) != len(live):
        bad("serial-shared-in-tree", "two objects of the reactor share a serial number")
    root0 = root0 or raw(s.r)
    clones = []
    ncopies = 0
    for nm in names:
        o = s.o[nm]
        want = _strip(node_at(root0, path_to(s.r, o)))
        oser = _serials(o)
        for how in ("deepcopy", "pickle"):
            try:
                c = copy.deepcopy(o) if how == "deepcopy" else pickle.loads(pickle.dumps(o))
            except Exception as e:
                bad("%s-raises-%s" % (how, type(e).__name__), "%s of %s raises %r" % (how, nm, e))
                continue
            ncopies += 1
            got = _valobs(c)
            d = observe.diff(want, got)
            if d:
                bad("%s-values-differ" % how, "%s of %s (%s): parameter values differ from the original: %s" % (how, nm, type(o).__name__, d[:3]))
            cser = _serials(c)
            if how == "deepcopy":
                if set(cser) & set(live) or len(set(cser)) != len(cser):
                    bad("deepcopy-serial-not-fresh", "deepcopy of %s: serial numbers %s reuse numbers of live objects" % (nm, sorted(set(cser) & set(live))[:5]))
                live = live + cser
                if len(set(live)) != len(live):
                    bad("serial-shared-by-live-objects", "after deepcopy of %s two live objects share a serial number" % nm)
            elif cser != oser:
                bad("pickle-serial-differs", "pickle round trip of %s does not carry the serial numbers (a parameter) of the original" % nm)
            clones.append((nm, how, c))
    # independence, copy -> original: change every copy, the reactor must not move
    after = []
    for j, (nm, how, c) in enumerate(clones):
        try:
            _perturb(c, 0.5 + j)
        except Exception as e:
            bad("%s-copy-unusable-%s" % (how, type(e).__name__), "assigning to the %s of %s raises %r" % (how, nm, e))
        after.append(_valobs(c))
    d = rawdiff(root0, raw(s.r))
    if d:
        x = d[0]
        bad("copy-change-shows-in-original", "changing copies of %s changed the original: %s %s at %s: %s -> %s" % (names, x[0], x[1], x[2], _short(x[3]), _short(x[4])))
    # independence, original -> copy
    try:
        _perturb(s.r, 0.25)
        _perturb(s.o["B2"], 0.75)
    except Exception as e:
        bad("perturb-original-raises-" + type(e).__name__, "assigning to the original raises %r" % e)
    if not observe.diff(node_at(root0, path_to(s.r, s.o["C"]))["params"], _fastparams(s.o["C"])):
        raise RuntimeError("perturbation of the original is invisible: vacuous independence check")
    for (nm, how, c), was in zip(clones, after):
        d = observe.diff(was, _valobs(c))
        if d:
            bad("original-change-shows-in-%s" % how, "changing the original changed its %s of %s: %s" % (how, nm, d[:3]))
    return viols, ncopies


# ---------------------------------------------------------------------------------------------
# BFS worker

_LAST = {"full": None}


def expand(item):
    init, hist, outs = item["init"], item["hist"], item["outs"]
    s = State(init)
    viols = []
    out = "ok"
    for k, op in enumerate(hist):
        lastop = k == len(hist) - 1
        case = {"init": init, "hist": hist[: k + 1], "outs": outs[:k]}
        out = apply(s, op, lastop, viols, case)
        if k < len(outs) and out != outs[k]:
            raise RuntimeError("prefix replay diverged at %d: %s gave %s, recorded %s" % (k, op, out, outs[k]))
    case = {"init": init, "hist": hist, "outs": outs}
    rw = raw(s.r)
    canon = {
        "raw": observe.digest(_norank(rw)),
        "serialorder": observe.digest(_serialorder(rw)),
        "tainted": s.tainted,
        "frozen": s.frozen,
        "inc": [s.inc] + [fr["inc"] for fr in s.stack],
        # back-up slots are hidden state: while a scope is open, states reached through different
        # enter/exit sequences inside it are kept apart (their futures differ if a slot is clobbered)
        "trace": s.trace,
        # which mutation operations are still enabled (one order only): part of the state, so that
        # the explored set does not depend on which representative history is met first
        "por": _por_start(init, hist),
        "cache": observe.digest(cacheobs(s.r)),
        "stack": [[fr["name"], fr["ki"], fr["i"]] for fr in s.stack],
        "flags": _flagobs(s),
        "snaps": [observe.digest(_norank(fr["snap"])) for fr in s.stack],
        "csnaps": [observe.digest(fr["csnap"]) for fr in s.stack],  # the stashed caches come back at exit
    }
    ops = enabled_ops(s, hist)
    fl = None
    ncopies = 0
    _LAST["full"] = None
    after_exit = bool(hist) and hist[-1][0] == "exit"
    # derived quantities are observed where the oracles use them: with all scopes closed (these are
    # the states that merge with untouched ones: differential oracle) and right after an exit
    live = not s.frozen and out == "ok"  # a frozen reactor cannot be queried or perturbed any more
    skip = s.tainted or s.inc
    if not viols and live and (not s.stack or after_exit):
        f1 = full(s.r)
        _LAST["full"] = f1
        fl = None if skip else observe.digest(f1)
        if not skip and after_exit and "__raises__" not in f1:
            s.r.clearCache()
            for c in s.r.iterChildren(deep=True):
                m = getattr(c, "material", None)
                if m is not None:
                    m.clearCache()
            f2 = full(s.r)
            d = observe.diff(f1, f2)
            if d:
                fl = None  # one mechanism, one key: no differential report on top of this
                viols.append(core.viol("c16/exit-stale-cache", "history %s: after the exit, clearing every cache changes observable quantities (a stale value survived the scope): %s" % (hist, d[:3]), case))
    if not viols and live:
        # the root state is copied in a pass of its own (run()): a copy defect present in every
        # state must not stop the search at depth 0
        if hist or item.get("rootcopies"):
            if item.get("rootcopies"):
                case = dict(case, rootcopies=True)
            v2, ncopies = copy_checks(s, case, len(hist) <= init.get("heavy", 2), rw)
            viols += v2
    # de-duplicate by key (one history reports a class once)
    seen = set()
    uv = []
    for v in viols:
        if v["key"] not in seen:
            seen.add(v["key"])
            uv.append(v)
    return {"canon": canon, "full": fl, "viols": uv, "ops": ops, "out": out, "copies": ncopies}


def _flagobs(s):
    """Change-tracking masks that decide how a later exit treats kept parameters (hidden state
    with different futures: states differing here are not merged)."""
    out = []
    for t in PTARGETS + ("C3", "C4", "DU"):
        o = s.o[t]
        out.append(int(o.p.assigned))
        defined = {pd.name for pd in o.p.paramDefs}
        for n in sorted(set(KEEPNAMES[2].get(_kind(o), ())) & defined):
            out.append(int(o.p.paramDefs[n].assigned))
    return observe.digest(out)


def _serialorder(d):
    """Rank of every serial number in traversal order (numbers are process-wide, ranks are not)."""
    ser = []

    def walk(x):
        ser.append(x["serial"])
        for c in x["children"]:
            walk(c)

    walk(d)
    order = {v: i for i, v in enumerate(sorted(ser, key=lambda v: (isinstance(v, str), v)))}
    return [order[v] for v in ser]


def _norank(d):
    """Snapshot digests in canon must not contain process-wide serial numbers."""
    out = {k: v for k, v in d.items() if k not in ("serial", "children")}
    out["children"] = [_norank(c) for c in d.get("children", [])]
    return out


# ---------------------------------------------------------------------------------------------
# read-only enumeration (step C)


def _objects(r):
    return [r] + list(r.iterChildren(deep=True))


def ro_count(specname):
    s = State({"spec": specname, "seed": 0})
    return len(_objects(s.r))


def _ro_values(cur, j, nkinds):
    vals = []
    if isinstance(cur, (int, float)) and not isinstance(cur, bool):
        vals.append(float(cur) + 1.5)
    else:
        vals.append(4242.5 + j)
    vals.append(np.array([1.0 + j, 2.0]))
    vals.append({"k": j})
    vals.append(None if cur is not None else "x%d" % j)
    return [vals[(j + i) % 4] for i in range(nkinds)]


# mutators that reach the same assignment share a key
_MECH = {"updateNumberDensities": "setNumberDensity", "Block.setNumberDensity": "setNumberDensity", "Assembly.setNumberDensity": "setNumberDensity"}


def _mutators(o):
    from armi.reactor import assemblies, blocks
    from armi.reactor.components import Component

    m = [("p.update", lambda: o.p.update({"flags": None}))]
    if isinstance(o, Component):
        nucs = sorted(o.p.numberDensities)
        if nucs:
            m += [
                ("setNumberDensity", lambda: o.setNumberDensity(nucs[0], 0.5)),
                ("setNumberDensities", lambda: o.setNumberDensities({nucs[0]: 0.25})),
                ("updateNumberDensities", lambda: o.updateNumberDensities({nucs[-1]: 0.125})),
                ("changeNDensByFactor", lambda: o.changeNDensByFactor(1.5)),
            ]
        m.append(("setTemperature", lambda: o.setTemperature(o.temperatureInC + 25.0)))
        for dn in o.DIMENSION_NAMES:
            if isinstance(getattr(o.p, "_p_" + dn, None), (int, float)):
                m.append(("setDimension", lambda dn=dn: o.setDimension(dn, o.p[dn] * 1.01)))
                break
        m.append(("setType", lambda: o.setType("shield")))
    elif isinstance(o, blocks.Block):
        nuc = sorted(o.getNuclides())[0]
        m += [
            ("setHeight", lambda: o.setHeight(o.getHeight() + 1.0)),
            ("Block.setNumberDensity", lambda: o.setNumberDensity(nuc, 0.03)),
            ("setType", lambda: o.setType("shield")),
        ]
    elif isinstance(o, assemblies.Assembly):
        nuc = sorted(o.getNuclides())[0]
        m += [("setType", lambda: o.setType("shield")), ("Assembly.setNumberDensity", lambda: o.setNumberDensity(nuc, 0.03))]
    return m


def ro_eval(case):
    """One object of the read-only reactor: every definition assigned, every mutator called."""
    from armi.reactor.reactorParameters import makeParametersReadOnly

    s = State({"spec": case["spec"], "seed": case.get("seed", 0)})
    r = s.r
    if case.get("prefill"):
        observe.obs(r)  # caches filled before the switch
    makeParametersReadOnly(r)
    objs = _objects(r)
    o = objs[case["obj"]]
    viols = []
    stats = {"assignments": 0, "refused": {}, "mutators": 0}
    root0 = raw(r)
    only = case.get("only")

    def bad(key, msg, **kw):
        c = dict(case)
        c.update(kw)
        viols.append(core.viol("c16/" + key, "read-only %s %r (object %d of %s): %s" % (type(o).__name__, getattr(o, "name", "?"), case["obj"], case["spec"], msg), c))

    if getattr(o.p, "readOnly", False) is not True:
        bad("readonly-flag-not-set", "p.readOnly is not set after makeParametersReadOnly")
    own0 = observe._params(o, False, set())
    accepted = False
    for j, pd in enumerate(o.p.paramDefs):
        if only and only != pd.name:
            continue
        cur = getattr(o.p, pd.fieldName, None)
        for i, v in enumerate(_ro_values(cur, j, case.get("nkinds", 1))):
            stats["assignments"] += 1
            exc = None
            try:
                _assign(o.p, pd.name, v, (j + i + case.get("seed", 0)) % 3)
            except Exception as e:
                exc = type(e).__name__
            stats["refused"][exc or "accepted"] = stats["refused"].get(exc or "accepted", 0) + 1
            own1 = observe._params(o, False, set())
            d = observe.diff(own0, own1)
            if exc is None:
                accepted = True
                bad("readonly-assignment-accepted", "assignment %s = %s is not refused%s" % (pd.name, _short(v), "; value changed: %s" % d[:2] if d else ""), only=pd.name)
            elif d:
                bad("readonly-assignment-refused-but-value-changed", "assignment %s = %s raises %s but %s" % (pd.name, _short(v), exc, d[:2]), only=pd.name)
            if d:
                own0 = own1
    d = rawdiff(root0, raw(r))
    if d:
        x = d[0]
        bad("readonly-assignment-changed-reactor", "after assigning every parameter: %s %s at %s: %s -> %s" % (x[0], x[1], x[2], _short(x[3]), _short(x[4])))
        root0 = raw(r)
    if not only and not accepted:  # accepted test values would make the mutators meaningless
        f0 = full(r)
        for name, f in _mutators(o):
            stats["mutators"] += 1
            exc = None
            try:
                f()
            except Exception as e:
                exc = type(e).__name__
            stats["refused"]["m:" + (exc or "returned")] = stats["refused"].get("m:" + (exc or "returned"), 0) + 1
            r1 = raw(r)
            d = rawdiff(root0, r1)
            if d:
                x = d[0]
                bad(
                    "readonly-%s-%s-value-changed" % (_MECH.get(name, name), "raises-but" if exc else "accepted"),
                    "%s %s, and %s %s at %s changed: %s -> %s" % (name, "raises " + exc if exc else "returns normally", x[0], x[1], x[2], _short(x[3]), _short(x[4])),
                )
                root0 = r1
        f1 = full(r)
        if "__raises__" not in f0 and not viols:
            d = observe.diff(f0, f1)
            if d:
                bad("readonly-derived-changed", "derived quantities changed: %s" % d[:3])
    return {"viols": viols, "stats": stats, "ndefs": len(o.p.paramDefs), "cls": type(o).__name__}


# ---------------------------------------------------------------------------------------------
# scenarios


def _quick_family():
    """(spec, enters, muts) of the quick tier: every keep-set pair, every operation, both core
    geometries (hex third core; Cartesian quarter core whose grid has a non-zero offset)."""
    H, Cq = "r2", "cq"
    out = []
    pairs = [("R", "R"), ("R", "K"), ("K", "A"), ("A", "B"), ("B", "C"), ("C", "C"), ("B", "R"), ("R", "C"), ("B", "B")]
    keeps = [(0, 0), (1, 2), (2, 1), (0, 1), (2, 0), (1, 1), (2, 2), (0, 2), (1, 0)]
    for j, ((a, c), (ka, kc)) in enumerate(zip(pairs, keeps)):
        out.append((H, [[a, ka], [c, kc]], ["P", "D"] if j in (0, 1, 3, 4) else (["P", "S"] if j == 2 else ["P"])))
    # grids (pitch, offset, axial bounds) and caches; they do not depend on the keep-set (height is in set 2)
    out.append((Cq, [["R", 0], ["K", 0]], ["G", "H", "Q"]))
    out.append((Cq, [["K", 0], ["A", 2]], ["G", "H"]))
    out.append((H, [["A", 2], ["B", 0]], ["G", "H"]))
    out.append((H, [["B", 0], ["B", 0]], ["G", "H", "Q"]))
    out.append((H, [["B", 0], ["C", 0]], ["D", "D2", "Q"]))
    out.append((H, [["A", 2], ["B", 2]], ["L", "RL"]))
    out.append((Cq, [["R", 1], ["B", 0]], ["L", "Q"]))
    # cold and warm caches, raw dimension assignment followed by queries inside the scope
    out.append((H, [["B", 0], ["C", 0]], ["W", "CC", "Q"]))
    # scopes open when the reactor is frozen, exited (and entered) afterwards
    out.append((H, [["B", 1], ["C4", 0]], ["P", "F"]))
    return out


# scenarios of the quick family explored two levels deeper in the thorough tier (the others one level)
_DEEPEST = (0, 1, 3, 9, 13, 14)


def scenarios(ctx):
    """Each scenario is the ``init`` of one BFS: core, scope objects with keep-sets, mutation ops."""
    b = BOUNDS[ctx.tier]
    out = []
    have = {}

    def sc(spec, enters, muts, depth):
        k = repr((spec, enters, muts))
        if k in have:  # keep the deeper bound
            have[k]["depth"] = max(have[k]["depth"], depth)
            return
        d = {"spec": spec, "seed": ctx.seed, "heavy": b["heavy"], "enters": enters, "muts": muts, "depth": depth}
        have[k] = d
        out.append(d)

    qf = _quick_family()
    if ctx.quick:
        for spec, enters, muts in qf:
            sc(spec, enters, muts, b["depth"])
        return out
    for j, (spec, enters, muts) in enumerate(qf):
        sc(spec, enters, muts, b["depth"] if j in _DEEPEST else b["depth"] - 1)
    wide = b["wide_depth"]
    pairs = [("R", "R"), ("R", "K"), ("K", "A"), ("A", "B"), ("B", "C"), ("C", "C"), ("B", "R"), ("R", "C"), ("B", "B"), ("A", "K")]
    for a, c in pairs:
        for ka in range(3):
            for kc in range(3):
                sc("r2", [[a, ka], [c, kc]], ["P", "D"], wide)
    for spec in ("r2", "cq"):
        for a, c in pairs:
            for ka, kc in ((0, 0), (2, 2)) if spec == "r2" else ((0, 0),):
                sc(spec, [[a, ka], [c, kc]], ["G", "H", "Q"], wide)
    for a, c in (("B", "C"), ("A", "B"), ("R", "C"), ("C", "C2")):
        for ka, kc in ((0, 0), (1, 0)):
            sc("r2", [[a, ka], [c, kc]], ["D", "D2", "Q"], wide)
    for spec in ("r2", "cq"):
        for a, c in (("B", "C"), ("A", "B"), ("R", "C")):
            sc(spec, [[a, 0], [c, 0]], ["W", "CC", "Q"], wide)
        for a, c in (("R", "B"), ("B", "C4"), ("K", "C4"), ("A", "C")):
            sc(spec, [[a, 1], [c, 0]], ["P", "F"], wide)
            if spec == "r2":
                sc(spec, [[a, 0], [c, 2]], ["D", "G", "F"], wide)
    for tri in (("R", "A", "B"), ("K", "B", "C"), ("B", "B", "B"), ("C", "B", "R")):
        for ks in ((0, 0, 0), (1, 2, 0)):
            sc("r2", [[o, k] for o, k in zip(tri, ks)], ["P", "G"], wide)
    for ka, kc in ((2, 2), (0, 2), (2, 0), (1, 1)):
        sc("r2", [["A", ka], ["B", kc]], ["S", "L", "RL"], wide)
        sc("cq" if ka == kc else "r2", [["R", ka], ["B", kc]], ["L", "Q"], wide)
    return out


# ---------------------------------------------------------------------------------------------


def run(ctx):
    b = BOUNDS[ctx.tier]
    total = {}
    scs = scenarios(ctx)
    copies = [0]
    # expand() results carry the number of copies made; count them through a thin wrapper
    by_depth = {}
    cap = int(os.environ.get("C16_DEPTH_CAP", "99"))  # development aid only; recorded in the evidence
    for sc in scs:
        by_depth.setdefault(min(cap, sc.pop("depth", b["depth"])), []).append(sc)
    if cap < 99:
        ctx.notes.append("C16_DEPTH_CAP=%d lowers the depth bounds of this run" % cap)
    for depth, group in sorted(by_depth.items()):
        st = explore.bfs(ctx, MOD, group, depth=depth)
        explore.merge_stats(total, st)
    explore.finish(ctx, total)
    firsts = {}
    for sc in scs:
        firsts.setdefault(sc["spec"], sc)  # scenarios of one core share the root state
    roots = [{"init": sc, "hist": [], "outs": [], "rootcopies": True} for sc in firsts.values()]
    for r in core.pmap(MOD, "expand", roots):
        ctx.add_violations(r["viols"])
        ctx.count("root_states_copied")
    ctx.coverage["exhaustive"] = False  # histories are unbounded; bounds are stated
    ctx.coverage["depth"] = min(cap, b["depth"])
    ctx.coverage["depths"] = {str(k): len(v) for k, v in sorted(by_depth.items())}
    ctx.coverage["scenarios"] = len(scs)
    ctx.coverage["copies_per_violation_free_state"] = {"history length <= %d" % b["heavy"]: 10, "longer": 6}
    ctx.coverage["scenario_list"] = [{"core": s["spec"], "enters": s["enters"], "muts": s["muts"]} for s in scs]
    for s in total.get("searches", []):
        for k, v in s["ops"].items():
            ctx.count("op_" + k, v)
        for k, v in s["outcomes"].items():
            ctx.count("outcome_" + k, v)

    # read-only enumeration
    spec = "r2s" if b["ro_rings"] == 2 else "r3s"
    nobj = ro_count(spec)
    items = [{"kind": "ro", "spec": spec, "obj": j, "seed": ctx.seed, "nkinds": b["ro_kinds"], "prefill": bool(j % 2)} for j in range(nobj)]
    res = core.pmap(MOD, "ro_eval", ctx.order(items))
    nass = 0
    for r in res:
        ctx.add_violations(r["viols"])
        nass += r["stats"]["assignments"]
        ctx.count("ro_objects_" + r["cls"])
        ctx.count("ro_mutator_calls", r["stats"]["mutators"])
        for k, v in r["stats"]["refused"].items():
            ctx.count("ro_outcome_" + k, v)
    ctx.coverage["readonly_objects"] = nobj
    ctx.coverage["readonly_assignments"] = nass
    ctx.coverage["readonly_spec"] = spec
    ctx.log("read-only: %d objects, %d assignments" % (nobj, nass))
    ctx.assumptions += [
        "histories bounded: depth %d (thorough: six scenarios at that depth, the other ten scenarios of the quick family one less, the wide family (all keep-set pairs for ten scope-object pairs, three-object scenarios) at depth 5), nesting <= %d; per scenario 2-3 scope objects with fixed keep-sets and 2-3 mutation operations (projection of the full alphabet); consecutive mutation operations are explored in one order only (they touch disjoint fields)" % (b["depth"], MAXNEST),
        "one generated third-core hex reactor (3 assemblies x 2 blocks, pin grid, linked dimensions); keep-sets: none / one scalar definition per class / scalar+array+dict+None+unset definitions per class",
        "core and reactor are deep-copied/pickled only in states reached by histories of length <= %d; component, block, assembly in every state" % b["heavy"],
        "class-level Parameter.assigned/_backup reset to the import-time state before every execution",
        "read-only: assignment means p.x = v, p[x] = v, p.update and the mutator methods listed; del p[x] and in-place mutation of a mutable value are not assignments",
    ]


def evaluate(case):
    if case.get("kind") == "ro":
        return ro_eval(case)["viols"]
    res = expand({"init": case["init"], "hist": case["hist"], "outs": case.get("outs", [])[: max(0, len(case["hist"]) - 1)], "rootcopies": case.get("rootcopies", False)})
    vs = res["viols"]
    if "other" in case:  # differential oracle of explore.bfs
        f1 = _LAST["full"]
        res2 = expand({"init": case["init"], "hist": case["other"], "outs": []})
        f2 = _LAST["full"]
        if res["canon"] == res2["canon"] and res["full"] != res2["full"]:
            vs = vs + [
                core.viol(
                    "c16/differential",
                    "histories %s and %s reach the same raw state and scope stack but differ in derived quantities: %s" % (case["hist"], case["other"], observe.diff(f1, f2)[:4]),
                    case,
                )
            ]
    return vs
