"""C18 part 3 - lattice-map TEXT -> indexed grid contents of a GridBlueprint, per geometry family.

Part 2 exercises ``asciimaps`` alone; here the text goes through the real
``GridBlueprint(latticeMap=text)._readGridContents()`` (and ``construct()``), i.e. including the
placeholder filtering and the centring of full-core Cartesian maps, and the resulting
``gridContents`` is compared with an independent reading of the same text:

Cartesian   tokens of the text form nRows lines (bottom line is row 0) of at most nCols tokens;
            token (column c, row r) that is not a placeholder sits at
              full core     (c - nCols//2, r - nRows//2)   - the map is centred on the origin:
                            even sizes put cell (0,0) right/above the centre, odd sizes on it -
                            whatever the placeholders are (empty outer rows/columns still
                            belong to the map);
              quarter core  (c, r).
hex         the format model of ``c18_maps`` (third / full flats-up / full tips-up), with and
            without an outer ring (third: top rows) holding only placeholders.

Enumeration: every non-empty occupancy pattern (distinct labels by position) of every text-map
size in the stated bounds - so maps whose outermost rows/columns are entirely placeholders, with
even and odd sizes in each direction, are all included - each as the full rectangle and with
trailing placeholders trimmed.
"""
from mcverif import core
from mcverif.checks import c18_maps

PLACEHOLDER = "-"
CART_FAMILIES = {
    "cart-full": ("cartesian", "full"),
    "cart-quarter": ("cartesian", "quarter reflective"),
    "cart-quarter-center": ("cartesian", "quarter reflective through center assembly"),
}
HEX_FAMILIES = {
    "hex-third": ("hex", "third periodic", "third"),
    "hex-full": ("hex", "full", "full"),
    "hex-tips": ("hex_corners_up", "full", "tips"),
}
CONSTRUCT_ALL_UP_TO = 9  # cells: construct() the real grid for every pattern; larger: every 16th


def _label(k):
    return "ABCDEFGHIJKLMNOPQRSTUVWXYZ"[k % 26] + (str(k // 26) if k >= 26 else "")


def cart_lines(nx, ny, mask, trimmed):
    """Token lines (top first) of the nx x ny text map with the cells of ``mask`` occupied."""
    lines = []
    for r in reversed(range(ny)):
        row = [(_label(r * nx + c) if mask >> (r * nx + c) & 1 else PLACEHOLDER) for c in range(nx)]
        if trimmed:
            while len(row) > 1 and row[-1] == PLACEHOLDER:
                row.pop()
        lines.append(row)
    return lines


def cart_expected(lines, family):
    """Independent reading of the text (see module docstring)."""
    nrows, ncols = len(lines), max(len(r) for r in lines)
    out = {}
    for li, row in enumerate(lines):
        r = nrows - 1 - li
        for c, tok in enumerate(row):
            if tok == PLACEHOLDER:
                continue
            if family == "cart-full":
                out[(c - ncols // 2, r - nrows // 2)] = tok
            else:
                out[(c, r)] = tok
    return out


def _read(geom, symmetry, text, construct):
    from armi.reactor.blueprints.gridBlueprint import GridBlueprint

    gb = GridBlueprint(name="g", geom=geom, latticeMap=text, symmetry=symmetry)
    if construct:
        grid = gb.construct()
        for ij in gb.gridContents:
            loc = grid[tuple(ij) + (0,)]
            if (int(loc.i), int(loc.j)) != tuple(ij):
                raise ValueError("grid locator %r for contents key %r" % (loc, ij))
    else:
        gb._readGridContents()
    return {tuple(int(x) for x in k): v for k, v in gb.gridContents.items()}


def eval_chunk(case):
    """case: {kind:'gridtext', family, nx, ny | universe, pad, lo, hi, sizes?} -> (viols, stats)"""
    fam = case["family"]
    stats = {"n": 0, "nontrivial": 0, "constructed": 0, "edge_line_empty": 0}
    viols, perkey = [], {}

    def bad(key, msg, mask):
        key = "c18/gridtext-%s-%s" % (fam, key)
        stats["viol:" + key] = stats.get("viol:" + key, 0) + 1
        perkey[key] = perkey.get(key, 0) + 1
        if perkey[key] <= 2:
            c = {k: v for k, v in case.items() if k != "sizes"}
            c.update(lo=mask, hi=mask + 1)
            viols.append(core.viol(key, msg, c))

    for mask in range(max(1, case["lo"]), case["hi"]):
        pc = bin(mask).count("1")
        sizes = case.get("sizes")
        if sizes and sizes[0] < pc < sizes[1]:
            continue
        if fam in CART_FAMILIES:
            geom, sym = CART_FAMILIES[fam]
            nx, ny = case["nx"], case["ny"]
            ncell = nx * ny
            lines = cart_lines(nx, ny, mask, case["trimmed"])
            want = cart_expected(lines, fam)
            occ = [(k % nx, k // nx) for k in range(ncell) if mask >> k & 1]
            if min(c for c, _ in occ) > 0 or max(c for c, _ in occ) < nx - 1 or min(r for _, r in occ) > 0 or max(r for _, r in occ) < ny - 1:
                stats["edge_line_empty"] += 1
        else:
            geom, sym, kind = HEX_FAMILIES[fam]
            uni = case["universe"]
            ncell = len(uni)
            S = {tuple(uni[k]): _label(k) for k in range(ncell) if mask >> k & 1}
            lines = c18_maps.ref_draw(kind, S, case["pad"])
            want = S
            if c18_maps.ref_read(kind, lines) != S:
                raise RuntimeError("harness: the format model does not read its own drawing of %s (pad %s)" % (S, case["pad"]))
        text = "\n".join(" ".join(r) for r in lines) + "\n"
        construct = ncell <= CONSTRUCT_ALL_UP_TO or mask % 16 == 1
        stats["n"] += 1
        stats["nontrivial"] += pc >= 2
        stats["constructed"] += construct
        try:
            got = _read(geom, sym, text, construct)
        except Exception as e:
            bad("read-raises", "%s %s lattice map %r: reading raises %r" % (geom, sym, text, e), mask)
            continue
        if got != want:
            bad(
                "contents-misplaced",
                "%s %s lattice map %r gives grid contents %s, the text places them at %s (missing %s, unexpected %s)"
                % (geom, sym, text, sorted(got.items()), sorted(want.items()), sorted(set(want.items()) - set(got.items()))[:4], sorted(set(got.items()) - set(want.items()))[:4]),
                mask,
            )
    return viols, stats


def cases(quick, chunk=8192):
    out = []
    lim = {"cart-full": 16 if quick else 20, "cart-quarter": 9 if quick else 12, "cart-quarter-center": 9 if quick else 12}
    for fam in CART_FAMILIES:
        for nx in range(1, 9):
            for ny in range(1, 9):
                if nx * ny > lim[fam] or max(nx, ny) > (6 if quick else 7):
                    continue
                for trimmed in (False, True):
                    total = 1 << (nx * ny)
                    for lo in range(0, total, chunk):
                        out.append({"kind": "gridtext", "family": fam, "nx": nx, "ny": ny, "trimmed": trimmed, "lo": lo, "hi": min(total, lo + chunk)})
    for fam, (_, _, kind) in HEX_FAMILIES.items():
        unis = []
        if kind == "third":
            unis = [(c18_maps.third_cells(3), None), (c18_maps.third_cells(4), None if not quick else [4, 10])]
        else:
            unis = [(c18_maps.full_cells(2), None), (c18_maps.full_cells(3), [3, 17] if quick else [6, 14])]
        for uni, sizes in unis:
            for pad in (0, 1):
                total = 1 << len(uni)
                step = chunk if not sizes else chunk * 16
                for lo in range(0, total, step):
                    c = {"kind": "gridtext", "family": fam, "universe": [list(x) for x in uni], "pad": pad, "lo": lo, "hi": min(total, lo + step)}
                    if sizes:
                        c["sizes"] = sizes
                    out.append(c)
    return out
