"""C04 helper: initial reactors and the state-mutation alphabet (DESIGN 4 / C04).

Everything here only *produces reachable reactor states* through the public ARMI API; the
round-trip oracle lives in c04.py.  Operations are JSON lists, targets are symbolic selectors that
are resolved against the freshly built reactor *before* the history is replayed (so "A0" keeps
meaning the same physical assembly after a swap, a discharge or a geometry conversion).
"""
import math

from mcverif import build

# ---------------------------------------------------------------------------------------------
# initial states (pure JSON: family name + options; the spec is regenerated from them)

FAMILIES = ("hex3pins", "hexfullcu", "cartq", "cartfull", "trz", "hexmany")


def spec_of(init):
    fam = init["family"]
    if fam == "hex3pins":
        # third core, flats up; the fuel block carries a blueprint pin lattice (multi-index pins);
        # the plenum block gets an automatic pin grid (multi-index clad/gap + free-coordinate duct)
        s = build.hex_spec(pins=True, bond=True, sfp_contents={(0, 0): "IC"})
        # the centre site of the pin lattice holds an instrument pin: a lattice component on exactly
        # ONE site (multi-index location of length 1) next to the six-site fuel/bond/clad
        s["grids"]["pins"]["contents"][(0, 0)] = "I"
        comps = s["blocks"]["fuel"]["components"]
        at = [c["name"] for c in comps].index("coolant")
        comps.insert(at, build.comp("inst", "Circle", "HT9", 25.0, 450.0, id=0.0, od=0.5, latticeIDs=["I"]))
    elif fam == "hexfullcu":
        # two pool assemblies: an even-sized pool grid is not through-centre, i.e. has an offset
        s = build.hex_spec(third=False, cornersUp=True, sfp_contents={(0, 0): "IC", (1, 0): "OC"})
    elif fam == "hexmany":
        # Crosses the one-digit/two-digit boundary of everything the layout numbers or names from
        # integers: 12 assemblies of 12 designs with 12 different block-height vectors (12 distinct
        # axial grids + core + pool + blueprint pin grid + automatic pin grids > 10 stored grids),
        # and one assembly of 11 blocks (block indices / names ...-010).
        cells = build.full_core_cells(3)[:12]
        s = build.hex_spec(third=False, pins=True, cells=cells, two_designs=False, sfp_contents={(0, 0): "D03", (1, 0): "D11"})
        s["blocks"]["fuel2"] = build.fuel_block()  # no blueprint lattice: gets an automatic pin grid
        assemblies, contents = {}, {}
        for i, c in enumerate(cells):
            sp = "D%02d" % i
            if i == 11:
                stack, heights = ["fuel2"] * 10 + ["plenum"], [3.0] * 10 + [25.0]
            else:
                stack, heights = ["fuel" if i % 2 == 0 else "fuel2", "plenum"], [25.0 + i, 30.0 - i]
            n = len(stack)
            mm = {"U235_wt_frac": [0.11 + 0.005 * i if k < n - 1 else "" for k in range(n)], "ZR_wt_frac": [0.06 if k < n - 1 else "" for k in range(n)]}
            assemblies["design %02d" % i] = build.assem(sp, stack, heights, ["A"] * (n - 1) + ["B"], mm)
            contents[tuple(c)] = sp
        s["assemblies"] = assemblies
        s["grids"]["core"]["contents"] = contents
    elif fam == "cartq":
        # "quarter reflective" (not through the centre assembly): the core grid has an offset
        s = build.cart_spec(quarter=True, through_center=False)
        s["grids"]["sfp"]["contents"] = {(0, 0): "IC"}
    elif fam == "cartfull":
        s = build.cart_spec(quarter=False)
        s["grids"]["sfp"]["contents"] = {(0, 1): "OC"}
    else:
        raise ValueError(fam)
    return s


def trz_text():
    """theta-R-Z quarter core: 2 azimuthal x 2 radial assemblies of two RadialSegment blocks.
    build.render() knows no ``grid bounds``; they are spliced into its output."""
    th = [0.0, math.pi / 4, math.pi / 2]
    rr = [0.0, 3.0, 6.0]
    blocks, assemblies, contents = {}, {}, {}
    for i in range(2):
        for j in range(2):
            bn = "blk%d%d" % (i, j)
            dims = dict(inner_radius=rr[j], outer_radius=rr[j + 1], inner_theta=th[i], outer_theta=th[i + 1], height=10.0)
            blocks[bn] = {"components": [build.comp("fuel", "RadialSegment", "UZr", 25.0, 600.0, mult=0.75, **dims), build.comp("coolant", "RadialSegment", "Sodium", 450.0, 450.0, mult=0.25, **dims)]}
            sp = "T%d%d" % (i, j)
            assemblies["assem%d%d" % (i, j)] = build.assem(sp, [bn, bn], [10.0, 10.0], ["A", "B"], {"U235_wt_frac": [0.11, 0.12], "ZR_wt_frac": [0.06, 0.06]})
            contents[(i, j)] = sp
    spec = {
        "blocks": blocks,
        "assemblies": assemblies,
        "grids": {"core": {"geom": "thetarz", "symmetry": "quarter periodic", "contents": contents}, "sfp": {"geom": "cartesian", "symmetry": "full", "pitch": [50.0, 50.0], "contents": {(0, 0): "T00"}}},
        "systems": {"core": {"grid name": "core", "origin": [0.0, 0.0, 0.0]}, "Spent Fuel Pool": {"type": "sfp", "grid name": "sfp", "origin": [5000.0, 5000.0, 6000.0]}},
    }
    txt = build.render(spec)
    marker = "        geom: thetarz\n"
    assert txt.count(marker) == 1
    return txt.replace(marker, marker + "        grid bounds:\n            r: %s\n            theta: %s\n" % (rr, th))


def settings(init=None):
    if init and init["family"] == "hexmany":
        # assemblies with different axial meshes need the non-uniform ("detailed") axial treatment
        return build.settings(trackAssems=True, detailedAxialExpansion=True)
    return build.settings(trackAssems=True)


def build_state(init):
    """-> (reactor, cs, bp, targets)"""
    cs = settings(init)
    if init["family"] == "trz":
        import io
        import random

        from armi.reactor import reactors
        from armi.reactor.blueprints import Blueprints

        random.seed(init.get("seed", 0))
        r = reactors.factory(cs, Blueprints.load(io.StringIO(trz_text())))
    else:
        r = build.reactor(spec_of(init), cs, seed=init.get("seed", 0))
    return r, cs, r.blueprints, targets(r)


def targets(r):
    """Symbolic selectors -> live objects of *this* execution (never stored across executions)."""
    core = r.core
    sfp = [x for x in r if x is not core][0]
    assems = sorted(core)
    a0, a1 = assems[0], assems[-1]
    t = {"R": r, "C": core, "P": sfp, "A0": a0, "A1": a1, "A2": assems[len(assems) // 2]}
    blocks0 = sorted(a0)
    t["B0"], t["B1"] = blocks0[0], blocks0[-1]
    t["B2"] = sorted(a1)[0]
    for k, b in (("0", t["B0"]), ("1", t["B1"]), ("2", t["B2"])):
        for c in b:
            t["K%s.%s" % (k, c.name)] = c
    sa = sorted(sfp)
    if sa:
        t["AS"] = sa[0]
        t["BS"] = sorted(sa[0])[0]
    return t


# ---------------------------------------------------------------------------------------------
# the alphabet

# (target, parameter, value) -- one persistent parameter of every value kind on every object class.
# Values are chosen to be exactly representable / distinct from the default.
PARAM_OPS = [
    # Reactor: float
    ["p", "R", "cycleLength", 365.25],
    # Core: float, int, str, 1-D list on a None-default, no-default parameter
    ["p", "C", "lastKeff", 1.0123456789012345],
    ["p", "C", "numMoves", 3],
    ["p", "C", "crMostValuablePrimaryRodLocation", "002-001"],
    ["p", "C", "betaComponents", ["arr", [0.00021, 0.0011, 0.00105, 0.0024, 0.0009, 0.0002]]],
    ["p", "C", "fisFrac", 0.25],
    # Assembly: float, int, str, array on a None-default
    ["p", "A0", "kInf", 1.25],
    ["p", "A1", "THorificeZone", 4],
    ["p", "A1", "notes", "moved twice"],
    ["p", "A0", "detailedNDens", ["arr", [1.0e-3, 2.5e-4, 0.0]]],
    # Block: float, int, bool, str, 1-D array, 2-D array, ragged (two blocks, different lengths),
    # explicit None on a float parameter, dict on a None-default parameter
    ["p", "B0", "power", 1234567.125],
    ["p", "B2", "THhotChannel", 7],
    ["p", "B0", "fuelCladLocked", ["not-default"]],
    ["p", "B1", "envGroup", "C"],
    ["p", "B0", "mgFlux", ["arr", [1.0e13, 2.5e12, 3.0]]],
    ["p", "B0", "pointsCornerFastFluxFr", ["arr", [[1.0, 2.0, 3.0], [4.0, 5.0, 6.5]]]],
    ["ragged", "mgFluxGamma", [["B0", [1.0, 2.0, 3.0]], ["B1", [4.0, 5.0]]]],
    # ragged columns whose entries are 2-D arrays of differing first dimension (pins x groups), the
    # larger ones on objects that are not the last of their class; the other objects hold None
    ["ragged", "pinMgFluxes", [["B0", [[1.0, 2.0], [3.0, 4.0], [5.0, 6.0]]], ["B1", [[7.0, 8.0], [9.0, 10.0]]], ["B2", [[11.0, 12.0]]]]],
    ["ragged", "detailedNDens", [["A0", [[1.0e-3, 2.0e-3], [3.0e-3, 4.0e-3], [5.0e-3, 6.0e-3]]], ["A2", [[7.0e-3, 8.0e-3], [9.0e-3, 1.0e-2]]], ["A1", [[1.1e-2, 1.2e-2]]]]],
    ["ragged", "pinNDens", [["K0.fuel", [[1.0, 2.0, 3.0], [4.0, 5.0, 6.0]]], ["K0.clad", [[7.0, 8.0, 9.0]]], ["K2.fuel", [[10.0, 11.0, 12.0], [13.0, 14.0, 15.0], [16.0, 17.0, 18.0]]]]],
    # 1-D ragged on assemblies and components
    ["ragged", "powerDecay", [["A0", [1.0, 0.5, 0.25]], ["A1", [2.0, 1.0]]]],
    ["ragged", "pinPercentBu", [["K0.clad", [0.5, 0.75, 1.0]], ["K2.fuel", [1.25, 1.5]], ["K2.clad", [2.0]]]],
    # every object of the class holds a 2-D array (no None): rows cycle 3, 1, 2, ... in tree order
    ["raggedall", "B0", "pinMgFluxes", 2],
    ["raggedall", "K0.fuel", "detailedNDens", 3],
    ["p", "B1", "power", None],
    # dict: the column format holds {str: float} dictionaries when every object of the class has
    # one (union of keys, NaN-filled), so every block gets one and B0 gets an extra key
    # (same size, different key set on a non-first block; one more key on another)
    ["pdict", "B0", "reactionRates", {"nG": 1.5, "nF": 2.5}, {"nG": 1.0, "nF": 2.0}, [["B2", {"nG": 3.0, "n2n": 0.5}]]],
    # dictionaries of different sizes
    ["pdict", "B1", "reactionRates", {"nG": 4.0, "nF": 0.25, "nA": 0.125}, {"nG": 1.0}, []],
    # Component: float, no-default float, no-default str, array
    ["p", "K0.clad", "percentBu", 1.75],
    ["p", "K0.fuel", "buRate", 0.0625],
    ["p", "K2.fuel", "customIsotopicsName", "FUEL X"],
    ["p", "K0.fuel", "pinPercentBu", ["arr", [0.5, 0.75, 1.0, 1.25, 1.5, 1.75, 2.0]]],
]

STATE_OPS = [
    ["nd", "K0.fuel", "U235", "scale", 1.5],  # change an existing number density
    ["nd", "K0.fuel", "PU239", "set", 1.25e-4],  # a nuclide only this component has
    ["nd", "K2.clad", "FE56", "set", 0.0],  # present but zero
    # replace one nuclide by another (same count, different key set) on a component that is not the
    # first of its class in layout order; its class mates keep the original set
    ["ndswap", "K2.duct", "MN55", "AL27"],
    ["ndswap", "K2.coolant", "NA23", "AL27"],
    ["ndswap", "K2.clad", "MN55", "AL27"],
    ["temp", "K0.fuel", 700.0],
    ["temp", "K2.duct", 425.0],
    ["dim", "K0.clad", "od", 1.0925],
    ["dim", "K2.duct", "ip", 16.05],
    ["link", "K0.clad", "id", "fuel", "od"],  # replace a number by a link
    ["unlink", "K1.gap", "od"],  # replace a link by the number it resolves to
    ["coord", "K1.duct", 0.5, -0.25, 0.0],  # free coordinate of a component inside a block grid
    ["swap", "A0", "A1"],
    ["rot", "A0", 1],
    ["rot", "A1", 2],
    ["discharge", "A1"],
    ["height", "B0", 27.5],
    ["pitch", 17.25],
    ["advance", 1, 2],
    ["full"],
    ["restore"],  # back to the third core with the same changer (offered only after "full")
    # write the live reactor to the database of this history NOW and go on to the next time node:
    # later operations then act on a reactor (and grids) that have already been written once
    ["write"],
]


# sub-alphabets for the deeper levels: one parameter assignment per object class / column format
# plus every structural operation
SUB2 = [
    ["p", "B0", "mgFlux"],
    ["ragged", "pinMgFluxes"],
    ["nd", "K0.fuel", "PU239"],
    ["ndswap", "K2.coolant"],
    ["write"],
    ["dim", "K0.clad"],
    ["link"],
    ["unlink"],
    ["coord"],
    ["swap"],
    ["rot", "A0"],
    ["discharge"],
    ["height"],
    ["pitch"],
    ["advance"],
    ["full"],
    ["restore"],
]
SUB3 = [["write"], ["ndswap", "K2.coolant"], ["p", "B0", "mgFlux"], ["ragged", "pinMgFluxes"], ["nd", "K0.fuel", "PU239"], ["temp", "K0.fuel"], ["dim", "K0.clad"], ["link"], ["coord"], ["swap"], ["rot", "A0"], ["discharge"], ["height"], ["pitch"], ["advance"], ["full"], ["restore"]]


def _in(op, sub):
    return sub is None or any(list(op[: len(p)]) == p for p in sub)


_NAMED = {"FULL": None, "SUB2": SUB2, "SUB3": SUB3}


def alphabet(init, level=1):
    """Operations offered as the ``level``-th operation of a history (1-based): the alphabet
    named in init["levels"][level-1] (FULL, SUB2, SUB3; nested)."""
    levels = init.get("levels") or ["FULL"]
    if level > len(levels):
        return []
    sub = _NAMED[levels[level - 1]]
    return [o for o in _alphabet(init) if _in(o, sub)]


def _rotate(o, k):
    """VERIF_SEED rotates equivalent representative constants (never which operations exist)."""
    if not k:
        return o
    o = list(o)
    if o[0] == "p" and o[2] in ("power", "kInf", "lastKeff", "percentBu", "cycleLength") and isinstance(o[3], float):
        o[3] = o[3] + 0.125 * k
    elif o[0] == "temp":
        o[2] = o[2] + 5.0 * k
    elif o[0] == "height":
        o[2] = o[2] + 0.25 * k
    elif o[0] == "nd" and o[3] == "set" and o[4]:
        o[4] = o[4] * (1 + 0.125 * k)
    elif o[0] == "coord":
        o[2] = o[2] + 0.0625 * k
    return o


def _alphabet(init):
    k = int(init.get("seed", 0)) % 8
    return [_rotate(o, k) for o in _alphabet0(init)]


def _alphabet0(init):
    fam = init["family"]
    ops = [list(o) for o in PARAM_OPS + STATE_OPS]
    out = []
    for o in ops:
        if o[0] in ("full", "restore") and fam != "hex3pins":
            continue
        if fam.startswith("cart"):
            # the Cartesian block has no plenum/gap; its blocks are [fuel, fuel]
            if o[0] == "unlink":
                o = ["unlink", "K0.clad", "mult"]
            if o[0] == "dim" and o[2] == "ip":
                o = ["dim", "K2.duct", "widthInner", 9.55]
            if o[0] == "pitch":
                o = ["pitch", 10.5]
            if o[0] == "coord":
                o = ["coord", "K0.duct", 0.5, -0.25, 0.0]
        if fam.startswith("cart") and o[0] == "rot":
            continue  # CartesianBlock.rotate is not implemented
        if fam == "trz" and o[0] == "ragged":
            o = [o[0], o[1], [[{"K0.clad": "K0.coolant", "K2.clad": "K2.coolant"}.get(sel, sel), v] for sel, v in o[2]]]
        elif fam == "trz":
            for k in (repr(o[:3]), repr(o[:2]), o[0]):
                if k in _TRZ:
                    o = _TRZ[k]
                    break
            if o is None:
                continue
        out.append(o)
    return out


# theta-R-Z blocks hold two RadialSegments (fuel, coolant): retarget / drop what does not apply
_TRZ = {
    repr(["p", "K0.clad", "percentBu"]): ["p", "K0.coolant", "percentBu", 1.75],
    repr(["nd", "K2.clad", "FE56"]): ["nd", "K2.coolant", "NA23", "scale", 0.5],
    repr(["dim", "K0.clad", "od"]): ["dim", "K0.fuel", "mult", 0.7],
    repr(["dim", "K2.duct", "ip"]): None,
    repr(["ndswap", "K2.duct"]): None,
    repr(["ndswap", "K2.clad"]): ["ndswap", "K2.fuel", "ZR90", "AL27"],
    repr(["temp", "K2.duct"]): ["temp", "K2.coolant", 425.0],
    "link": ["link", "K0.coolant", "outer_radius", "fuel", "outer_radius"],
    "unlink": None,
    "coord": ["coord", "K1.coolant", 0.5, -0.25, 0.0],
    "rot": None,
    "pitch": None,
}


def enabled(init, hist, tg):
    """Operations enabled after ``hist``: every operation at most once per history; an operation
    whose precondition is false in the current state is not offered."""
    done = {tuple(map(_h, o)) for o in hist}
    core = tg["C"]
    out = []
    level = len(hist) + 1
    levels = init.get("levels") or ["FULL"]
    if level > len(levels):
        return []
    # the histories of length n explored are those made of the alphabet named for level n
    if not all(_in(o, _NAMED[levels[level - 1]]) for o in hist):
        return []
    for o in alphabet(init, level):
        if tuple(map(_h, o)) in done:
            continue
        if o[0] == "swap" and not (tg[o[1]].parent is core and tg[o[2]].parent is core):
            continue
        if o[0] == "discharge" and tg[o[1]].parent is not core:
            continue
        if o[0] == "full" and str(core.symmetry.domain).lower().find("third") < 0:
            continue
        if o[0] == "restore" and (not hist or hist[-1][0] not in ("full", "write") or not any(x[0] == "full" for x in hist)):
            continue  # only directly after the conversion, or after the converted core was written
        if o[0] == "rot" and tg[o[1]].parent is not core:
            continue
        out.append(o)
    return out


def _h(x):
    return repr(x)


# ---------------------------------------------------------------------------------------------
# applying one operation to the real reactor


class AlphabetError(Exception):
    """A defect of the alphabet itself (harness error), as opposed to an operation that raises."""


def _value(o, pname, v):
    import numpy as np

    if isinstance(v, list) and v and v[0] == "arr":
        return np.array(v[1])
    if isinstance(v, list) and v and v[0] == "dict":
        return dict(v[1])
    if isinstance(v, list) and v and v[0] == "not-default":
        return not bool(o.p[pname])
    return v


def apply(r, cs, tg, op):
    """Apply one operation through the public API. Returns the outcome label."""
    import numpy as np

    from armi.reactor import grids

    k = op[0]
    if k in ("p", "pdict", "ragged", "raggedall"):
        # vacuity guard: a parameter operation must target a parameter the database stores
        for sel, name in [(x[0], op[1]) for x in op[2]] if k == "ragged" else [(op[1], op[2])]:
            if not tg[sel].p.paramDefs[name].saveToDB:
                raise AlphabetError("c04 alphabet: %s.%s is not a persistent parameter" % (sel, name))
    if k == "p":
        o = tg[op[1]]
        o.p[op[2]] = _value(o, op[2], op[3])
    elif k == "pdict":
        o = tg[op[1]]
        special = {id(tg[sel]): v for sel, v in op[5]}
        for x in r.iterChildren(deep=True, predicate=lambda c: type(c) is type(o)):
            x.p[op[2]] = dict(op[3] if x is o else special.get(id(x), op[4]))
    elif k == "raggedall":
        o = tg[op[1]]
        objs = list(r.iterChildren(deep=True, predicate=lambda c: type(c) is type(o)))
        for n, x in enumerate(objs):
            rows = (3, 1, 2)[n % 3]
            x.p[op[2]] = np.array([[float(100 * n + 10 * i + j) for j in range(op[3])] for i in range(rows)])
    elif k == "ragged":
        for sel, vals in op[2]:
            tg[sel].p[op[1]] = np.array(vals)
    elif k == "nd":
        c = tg[op[1]]
        if op[3] == "scale":
            c.setNumberDensity(op[2], c.getNumberDensity(op[2]) * op[4])
        else:
            c.setNumberDensity(op[2], op[4])
    elif k == "ndswap":
        c = tg[op[1]]
        nd = dict(c.getNumberDensities())
        nd[op[3]] = nd.pop(op[2])
        c.setNumberDensities(nd)
    elif k == "temp":
        tg[op[1]].setTemperature(op[2])
    elif k == "dim":
        tg[op[1]].setDimension(op[2], op[3])
    elif k == "link":
        c = tg[op[1]]
        sib = {x.name: x for x in c.parent}
        c.p[op[2]] = "%s.%s" % (op[3], op[4])
        c.resolveLinkedDims(sib)
        c.clearCache()
        c.parent.clearCache()
    elif k == "unlink":
        c = tg[op[1]]
        c.p[op[2]] = c.getDimension(op[2], cold=True)
        c.clearCache()
        c.parent.clearCache()
    elif k == "coord":
        c = tg[op[1]]
        # keeps the grid association the component's locator already has (the block grid in hex
        # blocks, none in Cartesian blocks)
        c.spatialLocator = grids.CoordinateLocation(op[2], op[3], op[4], c.spatialLocator.grid)
    elif k == "swap":
        a, b = tg[op[1]], tg[op[2]]
        la = a.spatialLocator  # as FuelHandler.swapAssemblies does
        a.moveTo(b.spatialLocator)
        b.moveTo(la)
    elif k == "rot":
        tg[op[1]].rotate(math.radians(60.0 * op[2]))
    elif k == "discharge":
        r.core.removeAssembly(tg[op[1]], discharge=True)
    elif k == "height":
        tg[op[1]].setHeight(op[2])
        r.core.updateAxialMesh()
    elif k == "pitch":
        g = r.core.spatialGrid
        if isinstance(g, grids.HexGrid):
            g.changePitch(op[1])
        else:
            g.changePitch(op[1], op[1])
    elif k == "advance":
        r.p.cycle, r.p.timeNode = op[1], op[2]
    elif k == "full":
        from armi.reactor.converters import geometryConverters

        tg["_changer"] = geometryConverters.ThirdCoreHexToFullCoreChanger(cs)
        tg["_changer"].convert(r)
    elif k == "restore":
        tg["_changer"].restorePreviousGeometry(r)
    else:
        raise AlphabetError("unknown op %r" % (op,))
    return "ok"
