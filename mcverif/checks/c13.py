"""C13 - symmetry conversions of the core multiply and restore the model exactly.

Explicit-state search over histories of geometry changes applied to REAL third-core hex reactors
built from generated blueprints:

    convert / restorePreviousGeometry  (ThirdCoreHexToFullCoreChanger; TWO changer objects "1", "2":
                                        reuse of one, a fresh one at first use, interleavings)
    addEdgeAssemblies / removeEdgeAssemblies (EdgeAssemblyChanger "1", "2") / scaleParamsRelatedToSymmetry
    assignment of a volume-integrated block parameter (scalar ``power``, multigroup ``mgFlux`` which
    no block has ever been assigned before) on the centre / a symmetry-line / an interior block

Two families (both exhaustive within their bounds, nothing sampled):

* deep:  a few representative assembly maps x every history up to depth 4 (quick) / 5 (thorough),
         invariants evaluated in every reached canonical state (explore.bfs);
* wide:  EVERY subset (>= 2 cells; with/without centre; holes) of the in-domain cells within 3 rings
         (quick) / a stated family within 4 rings (thorough) x a fixed set of scripted histories,
         invariants evaluated after every step of every script.

Reference model (boring python, independent of armi): the set of occupied cells as closure under
120-degree rotation computed from hexagon-centre coordinates; for every original assembly the
*expected observation* ``E`` (observe.obs taken once at the start, then only changed by the model:
assignments, centre volume-integrated parameters x3 / :3); for every copy an expected observation
derived from its source's ``E`` (rotated boundary parameters, orientation, displacement, pin
locations).  In EVERY reached state: the same original assembly objects sit at the same cells with
observation == E; copies == their expectation; names / assembly numbers / serial numbers unique;
childrenByLocator, assembliesByName, blocksByName, getAssemblyWithStringLocation, getAssemblyByName,
getBlockByName agree with the actual children; symmetry as the model says; reactor, core and spent
fuel pool observations unchanged.  At every effective convert: counts, mass of every nuclide,
volume and every volume-integrated total are 3 x the third-core values.  After every creation of
copies: independence (no shared object, mutation of a copy leaves sources and sibling copies alone).
"""
import math
import re

from mcverif import build, explore, observe
from mcverif import core as mc

PROPERTY = "C13"
LEVEL = "model_checking"
MOD = "mcverif.checks.c13"

RTOL = 1e-10  # x3 relations: sums of O(50) products associated differently
SIG = 12  # centre volume-integrated values go x3 then :3 : equal to 12 significant digits
TRACERS = ["B10", "B11", "O", "PU239", "AL"]  # nuclides absent from UZr/HT9/Sodium
ASSEM_BOOKKEEPING = {"assemNum", "numMoves", "daysSinceLastMove", "chargeTime", "chargeCycle", "chargeFis", "chargeBu"}
FLUX_TOTALS = {"mgFlux": "flux", "adjMgFlux": "fluxAdj", "mgFluxGamma": "fluxGamma"}

# ---------------------------------------------------------------------------------------------
# bounds (one place)

DEPTH = {"quick": 4, "thorough": 5}
MAX_ASSIGN = {"quick": 1, "thorough": 2}  # assignments per history in the extra thorough search (1 elsewhere)

OPS_ALL = [
    ["convert", "1"],
    ["restore", "1"],
    ["addEdge", "1"],
    ["removeEdge", "1"],
    ["convert", "2"],
    ["restore", "2"],
    ["scaleSym"],
    ["removeEdge", "2"],
    ["addEdge", "2"],
    ["assign", "centre", "power"],
    ["assign", "centre", "mgFlux"],
    ["assign", "lower", "power"],
    ["assign", "lower", "mgFlux"],
    ["assign", "interior", "power"],
]
OPS_QUICK = [op for op in OPS_ALL if op != ["assign", "interior", "power"]]

SCRIPTS = {
    # the (destructive) independence test runs on the last step of a script when that step creates copies
    # same changer reused: round trip, then a second conversion
    "roundtrip-same-changer": [["convert", "1"], ["restore", "1"], ["convert", "1"]],
    # edges on/off, halves combined, then a round trip with a fresh changer, edges again
    "edges-then-roundtrip": [["addEdge", "1"], ["scaleSym"], ["removeEdge", "1"], ["convert", "2"], ["restore", "2"], ["addEdge", "2"]],
    # edge operations on a full core are no-ops; parameters assigned in full core come back as thirds
    "full-core-noops": [["convert", "2"], ["addEdge", "1"], ["removeEdge", "1"], ["assign", "centre", "power"], ["assign", "lower", "power"], ["restore", "2"], ["removeEdge", "2"]],
    # conversion of a core that currently holds edge assemblies (both halves written), then its undo
    "convert-with-edges": [["addEdge", "1"], ["assign", "lower", "power"], ["convert", "2"], ["restore", "2"]],
    # parameter first assigned between two conversions by the same changer
    "assign-between-conversions": [["assign", "centre", "power"], ["convert", "1"], ["assign", "centre", "power"], ["restore", "1"], ["assign", "centre", "mgFlux"], ["assign", "interior", "power"], ["convert", "1"], ["restore", "1"]],
}
SCRIPTS_QUICK_WIDE = ["roundtrip-same-changer", "edges-then-roundtrip", "convert-with-edges", "assign-between-conversions"]  # 3-ring family, quick (thorough: all)
SCRIPTS_THOROUGH_WIDE = ["roundtrip-same-changer", "edges-then-roundtrip", "assign-between-conversions"]  # 4-ring family


def wide_inits(quick, seed):
    """All subsets (>=2 cells) of the 3-ring in-domain cells; thorough adds a 4-ring family:
    every subset of the 7 inner cells x (no / exactly one / all six) ring-4 cells."""
    inner = build.third_core_cells(3)
    out = []
    for m in range(1 << len(inner)):
        cells = [inner[b] for b in range(len(inner)) if m >> b & 1]
        if len(cells) >= 2:
            out.append({"rings": 3, "cells": [list(c) for c in cells], "seed": seed})
    if not quick:
        ring4 = [c for c in build.third_core_cells(4) if build.hexdist(*c) == 3]
        outers = [[c] for c in ring4] + [ring4]
        for m in range(1 << len(inner)):
            cells = [inner[b] for b in range(len(inner)) if m >> b & 1]
            for o in outers:
                if len(cells) + len(o) >= 2:
                    out.append({"rings": 4, "cells": [list(c) for c in cells + o], "seed": seed})
    return out


def special_inits(quick, seed):
    """Maps beyond the subset family: pin lattices (rotation of pin locations) and a 5-ring core with
    two cells on the symmetry line (pairing of several edge assemblies)."""
    out = [{"rings": 3, "cells": [list(c) for c in build.third_core_cells(3)], "pins": True, "seed": seed}]
    five = [c for c in build.third_core_cells(5) if c in ((0, 0), (1, 0), (2, -1), (4, -2), (1, 1), (3, 0), (0, 4))]
    out.append({"rings": 5, "cells": [list(c) for c in five], "seed": seed})
    out.append({"rings": 5, "cells": [list(c) for c in five if tuple(c) != (2, -1)], "seed": seed})
    out.append({"rings": 3, "cells": [list(c) for c in build.third_core_cells(3)], "seed": seed, "cs": {"trackAssems": True, "zones": "by-ring"}, "pool": [[[0, 0], "IC"], [[1, 0], "OC"]]})
    if not quick:
        out.append({"rings": 4, "cells": [list(c) for c in build.third_core_cells(4)], "pins": True, "seed": seed})
        out.append({"rings": 5, "cells": [list(c) for c in build.third_core_cells(5)], "seed": seed})
    return out


def deep_inits(quick, seed):
    """(init, depth) pairs of the deep search."""
    small = [
        [(0, 0), (1, 0), (2, -1)],  # centre + interior + symmetry-line cell
        [(0, 1), (2, -1), (2, 0)],  # no centre assembly, hole in ring 2
        [(0, 0), (0, 1), (1, 1)],  # no cell on the symmetry line
    ]
    ops = OPS_QUICK if quick else OPS_ALL
    tier = "quick" if quick else "thorough"
    out = [({"rings": 3, "cells": [list(c) for c in m], "seed": seed, "ops": ops, "max_assign": 1}, DEPTH[tier]) for m in small]
    # the complete 3-ring map with pin lattices, one depth less (every execution costs 3x)
    full = {"rings": 3, "cells": [list(c) for c in build.third_core_cells(3)], "pins": True, "seed": seed, "ops": ops, "max_assign": 1}
    if quick:
        full["ops"] = [op for op in ops if op[0] != "assign" or op[1:] == ["centre", "mgFlux"]]
    out.append((full, DEPTH[tier] - 1))
    # settings read on the paths of the alphabet (Core.removeAssembly: trackAssems; convert: zones), each
    # varied on the richest small map with a populated spent fuel pool, and both on the complete map
    pool = [[[0, 0], "IC"], [[1, 0], "OC"]]
    out.append(({"rings": 3, "cells": [list(c) for c in small[0]], "seed": seed, "ops": ops, "max_assign": 1, "cs": {"trackAssems": True}, "pool": pool}, DEPTH[tier] - 1))
    out.append(({"rings": 3, "cells": [list(c) for c in small[0]], "seed": seed, "ops": ops, "max_assign": 1, "cs": {"zones": "by-ring"}, "pool": pool}, DEPTH[tier] - 1))
    out.append((dict(full, cs={"trackAssems": True, "zones": "by-ring"}, pool=pool), DEPTH[tier] - 2))
    if not quick:
        # two assignments per history, one depth less, on the richest small map
        out.append(({"rings": 3, "cells": [list(c) for c in small[0]], "seed": seed, "ops": ops, "max_assign": MAX_ASSIGN[tier]}, DEPTH[tier] - 1))
    return out


# ---------------------------------------------------------------------------------------------
# independent hexagon geometry (flats-up lattice, pitch 1)

S3 = math.sqrt(3.0)


def hexdist(i, j):
    return max(abs(i), abs(j), abs(i + j))


def xy(c):
    return (S3 / 2.0 * c[0], c[0] / 2.0 + c[1])


def rot_cell(c, k):
    """Cell whose centre is the centre of ``c`` rotated counter-clockwise by k*120 degrees."""
    x, y = xy(c)
    a = 2.0 * math.pi / 3.0 * k
    xr, yr = x * math.cos(a) - y * math.sin(a), x * math.sin(a) + y * math.cos(a)
    fi = xr / (S3 / 2.0)
    fj = yr - fi / 2.0
    i, j = int(round(fi)), int(round(fj))
    if abs(fi - i) > 1e-9 or abs(fj - j) > 1e-9:
        raise RuntimeError("rotation of a lattice point is not a lattice point: %s" % (c,))
    return (i, j)


def cell_kind(c):
    c = tuple(c)
    if c == (0, 0):
        return "centre"
    x, y = xy(c)
    ang = math.degrees(math.atan2(y, x)) % 360.0
    if abs(ang) < 1e-7 or abs(ang - 360.0) < 1e-7:
        return "lower"  # on the 0-degree symmetry line
    if abs(ang - 120.0) < 1e-7:
        return "upper"  # on the 120-degree line: where edge assemblies go
    if 0.0 < ang < 120.0:
        return "interior"
    return "outside"


def rot_pin(ij, k):
    """120-degree rotation in lattice coordinates (both hex orientations: the two lattice vectors are
    60 degrees apart with j counter-clockwise of i, so u_i -> u_j - u_i and u_j -> -u_i)."""
    i, j = ij
    for _ in range(k % 3):
        i, j = -i - j, i
    return [i, j]


def rotate6(v, k):
    """Values attached to the 6 corners/edges (counter-clockwise numbering) after k*120 degrees."""
    out = [None] * 6
    for m in range(6):
        out[(m + 2 * k) % 6] = v[m]
    return out


# ---------------------------------------------------------------------------------------------
# parameter families (definitions read from armi: what "volume integrated" means is metadata)

_NAMES = {}


def names():
    if not _NAMES:
        from armi.reactor import blocks
        from armi.reactor.parameters import ParamLocation

        pdefs = blocks.HexBlock.paramCollectionType.pDefs
        _NAMES["volint"] = list(pdefs.atLocation(ParamLocation.VOLUME_INTEGRATED).names)
        _NAMES["boundary"] = list(pdefs.atLocation(ParamLocation.CORNERS).names) + list(pdefs.atLocation(ParamLocation.EDGES).names)
    return _NAMES


def reset_global_flags():
    """Parameter.assigned masks are process-wide and steer which parameters the changers scale:
    every execution starts from the state of a fresh interpreter (never assigned)."""
    from armi.reactor import parameters

    for pd in parameters.ALL_DEFINITIONS:
        pd.assigned = parameters.NEVER


# ---------------------------------------------------------------------------------------------
# building the initial state


class State:
    pass


def decorate(r, cells, seed):
    """Distinct block parameters of every location kind, one tracer nuclide (and density) per assembly."""
    grid = r.core.spatialGrid
    sh = 0.125 * (seed % 8)
    import numpy as np

    shared_list = [31.0 + sh, 32.5, 34.0]
    shared_array = np.array([41.0 + sh, 42.5])
    for n, c in enumerate(cells):
        a = r.core.childrenByLocator[grid[c[0], c[1], 0]]
        a.p.maxPercentBu = n + 0.5 + sh
        a.p.THmassFlowRate = 10.0 + n
        for bi, b in enumerate(a):
            base = 1000.0 * (n + 1) + 100.0 * (bi + 1) + sh
            b.p.power = base + 1  # VOLUME_INTEGRATED scalar
            b.p.powerGamma = base / 8.0
            b.p.mgFluxGamma = [base + 60, base + 61.5]  # VOLUME_INTEGRATED list
            b.p.flux = base + 2  # AVERAGE
            b.p.pdens = base / 7.0
            b.p.percentBuPeak = base + 3  # MAX
            b.p.THcoolantInletT = base + 4  # BOTTOM
            b.p.THcoolantOutletT = base + 5  # TOP
            b.p.cornerFastFlux = [base + 10 + m for m in range(6)]  # CORNERS
            b.p.THcornTemp = [base + 20 + m for m in range(6)]  # TOP|CORNERS
            b.p.pointsEdgeDpa = [base + 30 + m for m in range(6)]  # EDGES
            b.p.THedgeTemp = [base + 40 + m for m in range(6)]  # TOP|EDGES
            b.p.linPowByPin = [base + 50 + m for m in range(7)]  # CHILDREN
            # ALIASED values: one python list / one ndarray object assigned to every block of the core
            # (volume-integrated parameters whose setters do not copy)
            b.p.adjMgFlux = shared_list
            b.p.lastMgFlux = shared_array
            b.p.displacementX = 0.25 * (n + 1)
            b.p.displacementY = 0.5 * (n + 1) + bi
            clad = b.getComponentByName("clad")
            clad.setNumberDensity(TRACERS[n % len(TRACERS)], 1.0e-5 * (n + 2 + bi))
            if b.spatialGrid is not None:
                # pin-lattice blocks: every kind of child placement is present - lattice sites (fuel, clad),
                # a free-coordinate child OFF the block centre (duct), a single lattice site (intercoolant),
                # the block centre (coolant)
                from armi.reactor import grids

                for c in b:
                    if c.name == "duct":
                        c.spatialLocator = grids.CoordinateLocation(0.5 + 0.125 * n, -0.25 - 0.0625 * bi, 0.0, b.spatialGrid)
                    elif c.name == "intercoolant":
                        c.spatialLocator = b.spatialGrid[1, 0, 0]


def build_state(init):
    from armi.reactor.converters import geometryConverters as gc

    reset_global_flags()
    cells = [tuple(c) for c in init["cells"]]
    for c in cells:
        if cell_kind(c) not in ("centre", "lower", "interior"):
            raise RuntimeError("initial cell %s is outside the third-core domain" % (c,))
    seed = int(init.get("seed", 0))
    pool = {tuple(k): v for k, v in (init.get("pool") or [])}
    spec = build.hex_spec(rings=init["rings"], cells=cells, pins=bool(init.get("pins")), sfp=True, sfp_contents=pool)
    over = dict(init.get("cs") or {})
    zones = over.pop("zones", None)
    if zones == "by-ring":
        over["zoneDefinitions"] = zone_definitions(cells)
    cs = build.settings(**over) if over else None
    r = build.reactor(spec, cs=cs, seed=seed)
    if zones:
        r.core.buildManualZones(cs)
    decorate(r, cells, seed)
    S = State()
    S.gc = gc
    S.r, S.core, S.init, S.cells, S.seed = r, r.core, init, cells, seed
    # two changer objects of each kind: every operation may be issued by #1 or #2 (reuse of one
    # changer, a fresh one at its first use, and interleavings such as E1.add E2.remove E2.add E1.remove)
    S.T = {"1": gc.ThirdCoreHexToFullCoreChanger(), "2": gc.ThirdCoreHexToFullCoreChanger()}
    S.E = {"1": gc.EdgeAssemblyChanger(), "2": gc.EdgeAssemblyChanger()}
    S.converted_before = set()  # tags of third-core changers that have converted already
    S.edge_belief = {}  # tag -> this edge changer added edge assemblies and has not removed them itself
    S.orig = {}
    for a in r.core:
        S.orig[tuple(int(x) for x in a.spatialLocator.indices[:2])] = a
    if sorted(S.orig) != sorted(cells):
        raise RuntimeError("built core occupies %s, asked for %s" % (sorted(S.orig), sorted(cells)))
    S.rings_scan = init["rings"] + 1
    S.edge_ops = 0
    S.pool = r.excore.get("sfp") if hasattr(r, "excore") else None
    S.pool_names = sorted(a.getName() for a in (S.pool or []))
    if sorted(pool) and len(S.pool_names) != len(pool):
        raise RuntimeError("the declared spent fuel pool holds %s, asked for %d assemblies" % (S.pool_names, len(pool)))
    S.zone_of = {}
    if zones:
        for c, a in S.orig.items():
            z = r.core.zones.findZoneItIsIn(a)
            S.zone_of[c] = None if z is None else z.name
        if None in S.zone_of.values():
            raise RuntimeError("zone definitions do not cover the map: %s" % S.zone_of)
    S.ever = {}  # name -> block names of every non-original assembly that has been in the core
    return S


def zone_definitions(cells):
    """One manual zone per hexagon ring (labels from ring/position, C07)."""
    from armi.reactor import grids

    by_ring = {}
    for c in cells:
        ring, pos = grids.HexGrid.indicesToRingPos(*c)
        by_ring.setdefault(ring, []).append("%03d-%03d" % (ring, pos))
    return ["ring-%d: %s" % (r, ", ".join(sorted(v))) for r, v in sorted(by_ring.items())]


# ---------------------------------------------------------------------------------------------
# observation helpers


def split_obs(o):
    """obs(reactor) -> (reactor level, core level, other children, {cell: assembly obs})."""
    top = {k: v for k, v in o.items() if k != "children"}
    coreo, others, per, dup = None, [], {}, []
    for ch in o["children"]:
        if ch.get("cls") == "Core":
            coreo = {k: v for k, v in ch.items() if k != "children"}
            for ao in ch["children"]:
                cell = tuple(ao["loc"]["idx"][:2]) if ao.get("loc") and ao["loc"].get("kind") == "index" else ("noloc", len(per))
                if cell in per:
                    dup.append(cell)
                per.setdefault(cell, ao)
        else:
            others.append(ch)
    return top, coreo, others, per, dup


def fcopy(x):
    """Copy of a JSON-like structure (no memo: observations are trees of primitives)."""
    if isinstance(x, dict):
        return {k: fcopy(v) for k, v in x.items()}
    if isinstance(x, list):
        return [fcopy(v) for v in x]
    return x


def walk(o, depth=0):
    yield o, depth
    for ch in o.get("children", ()):
        yield from walk(ch, depth + 1)


def round_sig(v):
    if isinstance(v, float):
        return float("%.*g" % (SIG, v)) if math.isfinite(v) else v
    if isinstance(v, list):
        return [round_sig(x) for x in v]
    return v


def norm_assembly(ao, strip_vol=False, as_copy=False, inplace=False):
    """Comparison form of an assembly observation (deep copy).

    Always: volume-integrated block parameters to 12 significant digits (x3 then :3), displacement
    to 1e-9 (rotation by cos/sin). ``strip_vol``: volume and mass are not compared (objects whose
    symmetry factor legitimately differs between the two states). ``as_copy``: identity fields of a
    copy (names of assembly and blocks, serial numbers, assembly bookkeeping parameters) removed."""
    o = ao if inplace else fcopy(ao)
    vi = names()["volint"]
    for node, depth in walk(o):
        if as_copy:
            node.pop("serial", None)
            if depth <= 1:
                node.pop("name", None)
            if depth == 0 and "params" in node:
                for k in ASSEM_BOOKKEEPING:
                    node["params"].pop(k, None)
            if depth == 1 and "params" in node:
                node["params"].pop("assemNum", None)  # blocks repeat their assembly's number
        if depth == 1 and "params" in node:
            p = node["params"]
            for k in vi:
                if k in p:
                    p[k] = round_sig(p[k])
            for k in ("displacementX", "displacementY"):
                if isinstance(p.get(k), float):
                    p[k] = round(p[k], 9)
        if depth == 2 and node.get("loc") and node["loc"].get("kind") == "coord":
            node["loc"]["xyz"] = [round(x, 9) for x in node["loc"]["xyz"]]
        if strip_vol:
            if "geom" in node:
                node["geom"].pop("volume", None)
                node["geom"].pop("mass", None)
            if "comp" in node:
                node["comp"].pop("volume", None)
                node["comp"].pop("mass", None)
    return o


def scale_volint(ao, f):
    """Model: every volume-integrated parameter of every block of the assembly multiplied by f."""
    vi = names()["volint"]
    for bo in ao["children"]:
        p = bo["params"]
        for k in vi:
            v = p.get(k)
            if isinstance(v, bool) or v is None or isinstance(v, str):
                continue
            if isinstance(v, (int, float)):
                p[k] = v * f
            elif isinstance(v, list) and all(isinstance(x, (int, float)) and not isinstance(x, bool) for x in v):
                p[k] = [x * f for x in v]


def expected_copy(src, img, k, half):
    """Expected observation of a copy of ``src`` placed at cell ``img``, rotated by k*120 degrees."""
    t = fcopy(src)
    t["loc"]["idx"] = [img[0], img[1], 0]
    ang = 2.0 * math.pi / 3.0 * k
    bnd = names()["boundary"]
    for bo in t["children"]:
        p = bo["params"]
        if k:
            ori = p.get("orientation")
            if isinstance(ori, list) and len(ori) == 3:
                p["orientation"] = [ori[0], ori[1], ori[2] + 120.0 * k]
            for name in bnd:
                v = p.get(name)
                if isinstance(v, list) and len(v) == 6:
                    p[name] = rotate6(v, k)
            dx, dy = p.get("displacementX"), p.get("displacementY")
            if isinstance(dx, (int, float)) and isinstance(dy, (int, float)):
                p["displacementX"] = dx * math.cos(ang) - dy * math.sin(ang)
                p["displacementY"] = dx * math.sin(ang) + dy * math.cos(ang)
            for co in bo["children"]:
                loc = co.get("loc")
                if not loc:
                    continue
                if loc.get("kind") in ("multi",):
                    loc["idx"] = [rot_pin(x[:2], k) + list(x[2:]) for x in loc["idx"]]
                elif loc.get("kind") == "index":
                    loc["idx"] = rot_pin(loc["idx"][:2], k) + list(loc["idx"][2:])
                elif loc.get("kind") == "coord":
                    x, y, z = loc["xyz"]
                    loc["xyz"] = [x * math.cos(ang) - y * math.sin(ang), x * math.sin(ang) + y * math.cos(ang), z]
    if half:
        scale_volint(t, 0.5)
    return t


def _exp_norm(rec):
    if "exp_norm" not in rec:
        rec["exp_norm"] = norm_assembly(rec["exp"], rec["strip"], True)
    return rec["exp_norm"]


def classify(path):
    m = re.search(r"/params/(\w+)", path)
    level = ["assembly", "block", "component"][min(2, path.count("children["))]
    if m:
        n = m.group(1)
        if n in names()["volint"]:
            fam = "volint-param"
        elif n in names()["boundary"]:
            fam = "boundary-param"
        elif n in ("displacementX", "displacementY", "orientation"):
            fam = n.rstrip("XY")
        else:
            fam = "param"
    elif "/loc" in path:
        fam = "location"
    elif "/name" in path:
        fam = "name"
    elif "/geom" in path:
        fam = "geometry"
    elif "/comp/nd" in path:
        fam = "composition"
    elif "/comp" in path:
        fam = "component"
    elif "/grid" in path:
        fam = "grid"
    elif "/serial" in path:
        fam = "serial"
    elif "length" in path:
        fam = "children"
    else:
        fam = "other"
    return "%s-%s" % (level, fam)


def close(a, b, rtol=RTOL):
    if isinstance(a, list) or isinstance(b, list):
        return isinstance(a, list) and isinstance(b, list) and len(a) == len(b) and all(close(x, y, rtol) for x, y in zip(a, b))
    if isinstance(a, (int, float)) and isinstance(b, (int, float)):
        return abs(a - b) <= rtol * max(abs(a), abs(b)) + 1e-300
    return a == b


def vadd(a, b):
    if isinstance(a, list):
        return [x + y for x, y in zip(a, b)]
    return a + b


# ---------------------------------------------------------------------------------------------
# the reference model


class Model:
    def __init__(self, S):
        o = observe.obs(S.r)
        self.top, self.coreo, self.others, per, dup = split_obs(o)
        if dup or sorted(per) != sorted(S.cells):
            raise RuntimeError("initial observation does not show one assembly per requested cell")
        self.orig = per  # cell -> expected observation of the ORIGINAL assembly (serial numbers included)
        self.copies = {}  # cell -> {src, k, kind: sym|edge, exp, strip}
        self.domain = "third"
        self.active = None  # tag of the changer whose conversion is in force
        self.edge_backup = {}
        self.nassign = {}
        self.qual = "plain"  # qualifier of the last conversion, part of violation keys
        self.grid_third = self.coreo["grid"]

    def closure(self):
        out = set()
        for c in self.orig:
            out.update(rot_cell(c, k) for k in range(3))
        return out

    def expected_cells(self):
        return set(self.orig) | set(self.copies)

    def target(self, kind):
        for c in sorted(self.orig, key=lambda c: (hexdist(*c), c)):
            if cell_kind(c) == kind:
                return c
        return None


# ---------------------------------------------------------------------------------------------
# totals (x3 relations)


def totals(S, M):
    core = S.core
    mass = {}
    for a in core:
        for b in a:
            for c in b:
                for n in c.getNuclides():  # Composite.getMass(n) is this sum over the components
                    mass[n] = mass.get(n, 0.0) + c.getMass(n)
    upper = {c for c, rec in M.copies.items() if rec["kind"] == "edge"}
    vi = {}
    nblocks = 0
    for a in core:
        cell = tuple(int(x) for x in a.spatialLocator.indices[:2])
        if cell in upper:
            continue  # duplicates of the overhanging 0-degree assemblies (DESIGN: counted with their source)
        for b in a:
            nblocks += 1
            for pn in names()["volint"]:
                v = observe.canon_value(b.p[pn])
                if v is None or isinstance(v, str):
                    continue
                if pn in vi:
                    vi[pn] = vadd(vi[pn], v)
                else:
                    vi[pn] = v
    t = {
        "n": len(core) - len(upper),
        "centre": 1 if (0, 0) in M.orig else 0,
        "vol": core.getVolume(),
        "mass": mass,
        "massTotal": core.getMass(),
        "massU235": core.getMass("U235"),
        "vi": vi,
        "calc": {},
    }
    if not upper:
        for pn in ("power", "kgHM", "powerGamma"):
            t["calc"][pn] = core.calcTotalParam(pn, generationNum=2)
        t["calcSym"] = core.calcTotalParam("power", generationNum=2, addSymmetricPositions=True)
    return t


def compare_totals(pre, post, qual):
    vs = []

    def bad(what, msg):
        vs.append(("c13/convert/total-%s/%s" % (what, qual), msg))

    want_n = 3 * (pre["n"] - pre["centre"]) + pre["centre"]
    if post["n"] != want_n:
        bad("assembly-count", "full core holds %d assemblies, 3 x %d third-core assemblies with the centre once = %d" % (post["n"], pre["n"], want_n))
    mv = []
    if not close(post["vol"], 3.0 * pre["vol"]):
        mv.append("core volume %r after conversion, 3 x third-core volume = %r" % (post["vol"], 3.0 * pre["vol"]))
    if not close(post["massTotal"], 3.0 * pre["massTotal"]):
        mv.append("core mass %r after conversion, 3 x third-core mass = %r" % (post["massTotal"], 3.0 * pre["massTotal"]))
    if not close(post["massU235"], 3.0 * pre["massU235"]):
        mv.append("core.getMass(U235) %r after conversion, 3 x %r before" % (post["massU235"], pre["massU235"]))
    for n in sorted(set(pre["mass"]) | set(post["mass"])):
        a, b = post["mass"].get(n, 0.0), 3.0 * pre["mass"].get(n, 0.0)
        if not close(a, b):
            mv.append("mass of %s is %r after conversion, 3 x third-core mass = %r" % (n, a, b))
            break
    if mv:
        bad("mass-volume", "; ".join(mv))
    badp = []
    for pn in sorted(set(pre["vi"]) | set(post["vi"])):
        if pn not in pre["vi"] or pn not in post["vi"]:
            badp.append((pn, post["vi"].get(pn), pre["vi"].get(pn)))
            continue
        b = [3.0 * x for x in pre["vi"][pn]] if isinstance(pre["vi"][pn], list) else 3.0 * pre["vi"][pn]
        if not close(post["vi"][pn], b):
            badp.append((pn, post["vi"][pn], b))
    if badp:
        bad(
            "volint",
            "volume-integrated totals over all blocks are not 3 x the third-core totals for %s; e.g. %s: %r, expected %r" % ([p[0] for p in badp][:8], badp[0][0], badp[0][1], badp[0][2]),
        )
    reported = {p[0] for p in badp}
    for pn, v in pre.get("calc", {}).items():
        if pn in reported:
            continue  # the same numbers through another query
        if pn in post.get("calc", {}) and not close(post["calc"][pn], 3.0 * v):
            bad("calcTotalParam", "calcTotalParam(%s) = %r after conversion, 3 x %r before" % (pn, post["calc"][pn], v))
            break
    if "power" not in reported and "calcSym" in pre and "calcSym" in post and not close(pre["calcSym"], post["calcSym"]):
        bad("calcTotalParam-symmetric", "calcTotalParam(power, addSymmetricPositions=True) %r in third core, %r in full core" % (pre["calcSym"], post["calcSym"]))
    return vs


# ---------------------------------------------------------------------------------------------
# operations


def actual_cells(S):
    return [tuple(int(x) for x in a.spatialLocator.indices[:2]) for a in S.core]


def assembly_at(S, cell):
    for a in S.core:
        if tuple(int(x) for x in a.spatialLocator.indices[:2]) == tuple(cell):
            return a
    return None


def step(S, M, op, check):
    """Apply one operation to the real objects and to the model. Returns (outcome, [(key,msg)])."""
    gc = S.gc
    kind = op[0]
    vs = []
    try:
        if kind == "convert":
            ch, tag = S.T[op[1]], op[1]
            was_third = M.domain == "third"
            had_edges = any(rec["kind"] == "edge" for rec in M.copies.values())
            if was_third:
                M.qual = "changer-reused" if tag in S.converted_before else ("after-edge-ops" if S.edge_ops else "plain")
                if had_edges:
                    M.qual += "-with-edges"
            pre = totals(S, M) if (was_third and check) else None
            ch.convert(S.r)
            if not was_third:
                return "noop", vs
            S.converted_before.add(tag)
            M.edge_backup = {c: rec for c, rec in M.copies.items() if rec["kind"] == "edge"}
            M.copies = {}
            for c in sorted(M.orig):
                if c == (0, 0):
                    continue
                for k in (1, 2):
                    img = rot_cell(c, k)
                    M.copies[img] = {"src": c, "k": k, "kind": "sym", "exp": expected_copy(M.orig[c], img, k, False), "strip": had_edges and cell_kind(c) == "lower"}
            if (0, 0) in M.orig:
                scale_volint(M.orig[(0, 0)], 3.0)
            M.domain, M.active = "full", tag
            if pre is not None:
                vs += compare_totals(pre, totals(S, M), M.qual)
            return "converted", vs
        if kind == "restore":
            ch, tag = S.T[op[1]], op[1]
            if tag == M.active and S.seed % 2 == 0:
                ch.restorePreviousGeometry()
            else:
                ch.restorePreviousGeometry(S.r)
            if M.domain == "full" and tag == M.active:
                if (0, 0) in M.orig:
                    scale_volint(M.orig[(0, 0)], 1.0 / 3.0)
                M.copies = dict(M.edge_backup)  # the state before the conversion, literally
                M.edge_backup = {}
                M.domain, M.active = "third", None
                return "restored", vs
            return "noop", vs
        if kind == "addEdge":
            S.edge_ops += 1
            ch, tag = S.E[op[1]], op[1]
            before = set(actual_cells(S))
            ch.addEdgeAssemblies(S.core)
            added = set(actual_cells(S)) - before
            if M.domain == "full":
                return "noop", vs
            cands = {rot_cell(c, 1): c for c in M.orig if cell_kind(c) == "lower" and rot_cell(c, 1) not in M.copies}
            if not added:
                if cands and not S.edge_belief.get(tag):
                    vs.append(("c13/addEdge/nothing-added", "addEdgeAssemblies added nothing although %s on the 0-degree line have no partner on the 120-degree line" % sorted(cands.values())))
                return ("edge-skip-stale" if cands else "noop"), vs
            if added != set(cands):
                vs.append(("c13/addEdge/cells", "addEdgeAssemblies filled %s, the images of the 0-degree-line assemblies are %s" % (sorted(added), sorted(cands))))
                return "edge-added", vs
            halved = 0
            for img, c in cands.items():
                # the property does not say what a half assembly holds: a uniform factor 1/2 (cut in two)
                # or 1 on its volume-integrated parameters is accepted, whichever is observed
                tw, src = assembly_at(S, img)[0].p.power, S.orig[c][0].p.power
                half = not close(tw, src)
                halved += 1 if half else 0
                M.copies[img] = {"src": c, "k": 0, "kind": "edge", "exp": expected_copy(M.orig[c], img, 0, half), "strip": True}
            S.edge_belief[tag] = True
            return ("edge-added" if halved == len(cands) else "edge-added-unhalved"), vs
        if kind == "removeEdge":
            S.edge_ops += 1
            ch, tag = S.E[op[1]], op[1]
            ch.removeEdgeAssemblies(S.core)
            if M.domain == "full":
                return "noop", vs
            S.edge_belief[tag] = False
            had = [c for c, rec in M.copies.items() if rec["kind"] == "edge"]
            for c in had:
                del M.copies[c]
            return ("edge-removed" if had else "noop"), vs
        if kind == "scaleSym":
            S.edge_ops += 1
            gc.EdgeAssemblyChanger.scaleParamsRelatedToSymmetry(S.core)
            return _adopt_combined(S, M, vs), vs
        if kind == "assign":
            tkind, pname = op[1], op[2]
            cell = M.target(tkind)
            if cell is None:
                raise RuntimeError("assign on a cell kind the map does not have: %s" % op)
            key = "%s/%s" % (tkind, pname)
            M.nassign[key] = M.nassign.get(key, 0) + 1
            v = 7000.0 + 100.0 * ["centre", "lower", "interior"].index(tkind) + 10.0 * ["power", "mgFlux"].index(pname) + M.nassign[key] + 0.125 * (S.seed % 8)
            val = [v, v + 0.5] if pname == "mgFlux" else v
            b = S.orig[cell][0]
            b.p[pname] = val
            M.orig[cell]["children"][0]["params"][pname] = observe.canon_value(val)
            if tkind == "lower" and M.domain == "third":
                # a solver that runs with edge assemblies writes both halves of the cut assembly
                t = rot_cell(cell, 1)
                rec = M.copies.get(t)
                if rec and rec["kind"] == "edge":
                    assembly_at(S, t)[0].p[pname] = list(val) if isinstance(val, list) else val
                    rec["exp"]["children"][0]["params"][pname] = observe.canon_value(val)
                    rec.pop("exp_norm", None)
            return "assigned", vs
    except Exception as e:  # no operation of the alphabet has a refusal contract in these states
        import traceback

        tb = traceback.extract_tb(e.__traceback__)
        where = "%s-in-%s" % (type(e).__name__, tb[-1].name) if tb else type(e).__name__
        vs.append(("c13/%s/raises-%s" % (kind, where), "%s raised %r" % (op, e)))
        return "raised:" + type(e).__name__, vs
    raise RuntimeError("unknown operation %r" % (op,))


def _adopt_combined(S, M, vs):
    """scaleParamsRelatedToSymmetry may fold the 120-degree halves into the 0-degree-line blocks:
    which parameters it folds is not stated by the property, so the change is observed and
    constrained: only volume-integrated parameters of those blocks, new = old + partner (and the
    matching scalar flux = sum / combined volume). Anything else stays a difference to the model."""
    n = 0
    if M.domain != "third":
        return "noop"
    for c in sorted(M.orig):
        if cell_kind(c) != "lower":
            continue
        t = rot_cell(c, 1)
        rec = M.copies.get(t)
        if not rec or rec["kind"] != "edge":
            continue
        a, twin = S.orig[c], assembly_at(S, t)
        if twin is None:
            continue
        for bi, (b, bt) in enumerate(zip(a, twin)):
            ep, tp = M.orig[c]["children"][bi]["params"], rec["exp"]["children"][bi]["params"]
            for pn in names()["volint"]:
                new = observe.canon_value(b.p[pn])
                old = ep.get(pn)
                if close(old, new, 1e-13) or old is None or tp.get(pn) is None or isinstance(old, str):
                    continue
                want = vadd(old, tp[pn])
                if close(new, want):
                    ep[pn] = new
                    n += 1
                    fl = FLUX_TOTALS.get(pn)
                    if fl:
                        wf = sum(new) / (b.getVolume() + bt.getVolume())
                        got = observe.canon_value(b.p[fl])
                        if close(got, wf):
                            ep[fl] = got
                else:
                    vs.append(("c13/scaleSym/combination", "block %d of the 0-degree-line assembly at %s: %s became %r, own %r + partner %r = %r" % (bi, c, pn, new, old, tp[pn], want)))
    return "combined" if n else "noop"


# ---------------------------------------------------------------------------------------------
# the invariant, evaluated in every reached state


def check_state(S, M, opname):
    """Returns (violations, observation of the reactor as taken here)."""
    vs = []
    qual = M.qual if opname in ("convert", "restore") else ""

    def bad(aspect, msg, op=None):
        vs.append(("c13/%s/%s%s" % (op or opname, aspect, ("/" + qual) if qual else ""), msg))

    core = S.core
    o = observe.obs(S.r)
    top, coreo, others, per, dup = split_obs(o)
    # --- symmetry
    want_sym = "third periodic" if M.domain == "third" else "full"
    if str(core.symmetry) != want_sym or bool(core.isFullCore) != (M.domain == "full") or core.powerMultiplier != (3 if M.domain == "third" else 1):
        bad("symmetry", "core symmetry reads %s (isFullCore=%s, powerMultiplier=%s), expected %s" % (core.symmetry, core.isFullCore, core.powerMultiplier, want_sym))
    # --- reactor, core, other systems unchanged
    d = observe.diff(M.top, top)
    if d:
        bad("reactor-level", "reactor-level observation changed: %s" % d[:3])
    cg, eg = fcopy(coreo), fcopy(M.coreo)
    for x in (cg, eg):
        if x.get("grid") and isinstance(x["grid"].get("reduce"), list):
            x["grid"]["reduce"] = x["grid"]["reduce"][:-1]  # symmetry string: checked above
    d = observe.diff(eg, cg)
    if d:
        bad("core-level", "core-level observation (parameters, grid, location) changed: %s" % d[:3])
    d = observe.diff(M.others, others)
    if d:
        bad("other-systems", "spent fuel pool / ex-core observation changed: %s" % d[:3])
    # --- occupied cells
    cells = actual_cells(S)
    want = M.expected_cells()
    if dup or len(set(cells)) != len(cells):
        bad("two-assemblies-one-cell", "several assemblies share a cell: %s" % sorted(c for c in set(cells) if cells.count(c) > 1))
    if set(cells) != want:
        missing, extra = sorted(want - set(cells)), sorted(set(cells) - want)
        if M.domain == "full" and want != M.closure():
            raise RuntimeError("model error: full-core cells are not the rotation closure")
        if opname == "restore" and not extra and all(cell_kind(c) == "upper" for c in missing):
            vs.append(("c13/restore/edge-assemblies-not-restored", "the core held edge assemblies at %s before the conversion; after restorePreviousGeometry they are gone" % missing))
        else:
            bad("cells", "occupied cells differ from the %s: missing %s, unexpected %s" % ("closure of the third-core cells under 120-degree rotation" if M.domain == "full" else "third-core cells", missing, extra))
        return vs, o
    serials = [node["serial"] for node, _ in walk(o) if "serial" in node]
    # --- originals: same objects, same places, observation == E
    has_edges = any(rec["kind"] == "edge" for rec in M.copies.values())
    for c in sorted(M.orig):
        a = S.orig[c]
        if a.parent is not core or assembly_at(S, c) is not a:
            bad("original-replaced", "the assembly at %s is not the object that was there before" % (c,))
            continue
        ck = cell_kind(c)
        strip = (ck == "centre" and M.domain == "full") or (ck == "lower" and has_edges)
        d = observe.diff(norm_assembly(M.orig[c], strip), norm_assembly(per[c], strip, False, True), limit=6)
        if d:
            bad("orig-%s-%s" % (ck, classify(d[0])), "original assembly at %s differs from the model (expected vs observed): %s" % (c, d[:4]))
    # --- copies
    for c in sorted(M.copies):
        rec = M.copies[c]
        d = observe.diff(_exp_norm(rec), norm_assembly(per[c], rec["strip"], True, True), limit=6)
        if d:
            bad("copy-%s-%s" % (rec["kind"], classify(d[0])), "copy at %s of the assembly at %s (rotation %d x 120 deg) differs from its rotated source (expected vs observed): %s" % (c, rec["src"], rec["k"], d[:4]))
        if S.orig.get(rec["src"]) is assembly_at(S, c):
            bad("copy-is-source", "cell %s holds the source object itself" % (c,))
    # --- unique identities
    anames, bnames, anums = [], [], []
    for a in S.pool or ():  # names and numbers are unique across the core AND the spent fuel pool
        anames.append(a.getName())
        anums.append(int(a.p.assemNum))
        bnames += [b.getName() for b in a]
    if sorted(a.getName() for a in (S.pool or ())) != S.pool_names:
        bad("pool-contents", "the spent fuel pool holds %s, it held %s before" % (sorted(a.getName() for a in S.pool), S.pool_names))
    for a in core:
        anames.append(a.getName())
        anums.append(int(a.p.assemNum))
        if a.getName() != "A%04d" % int(a.p.assemNum):
            bad("name-format", "assembly %s has assemNum %s" % (a.getName(), a.p.assemNum))
        for bi, b in enumerate(a):
            bnames.append(b.getName())
            if b.getName() != "B%04d-%03d" % (int(a.p.assemNum), bi):
                bad("block-name-format", "block %d of %s is named %s" % (bi, a.getName(), b.getName()))
    for what, xs in (("serial-numbers", serials), ("assembly-names", anames), ("block-names", bnames), ("assembly-numbers", anums)):
        if len(set(xs)) != len(xs):
            bad("unique-" + what, "%s are not unique: %s" % (what, sorted(x for x in set(xs) if xs.count(x) > 1)[:4]))
    # --- zones: location -> zone lookups of the originals resolve as before; a copy is in its source's zone
    if S.zone_of:
        for c in sorted(M.orig):
            z = core.zones.findZoneItIsIn(S.orig[c])
            if (None if z is None else z.name) != S.zone_of[c]:
                bad("zone-of-original", "the assembly at %s is found in zone %s, it was in %s" % (c, z and z.name, S.zone_of[c]))
        if M.domain == "full":
            for c in sorted(M.copies):
                z = core.zones.findZoneItIsIn(assembly_at(S, c))
                if (None if z is None else z.name) != S.zone_of[M.copies[c]["src"]]:
                    bad("zone-of-copy", "the copy at %s is found in zone %s, its source at %s is in %s" % (c, z and z.name, M.copies[c]["src"], S.zone_of[M.copies[c]["src"]]))
    # --- lookup tables
    vs += [("c13/%s/%s%s" % (opname, k, ("/" + qual) if qual else ""), m) for k, m in check_lookups(S)]
    return vs, o


def note_copies(S):
    """Called after every operation: names of the non-original assemblies currently in the core."""
    origs = {id(a) for a in S.orig.values()}
    for a in S.core:
        if id(a) not in origs:
            S.ever[a.getName()] = [b.getName() for b in a]


def check_lookups(S):
    from armi.reactor import grids

    vs = []
    core = S.core
    grid = core.spatialGrid
    kids = list(core)
    by_cell = {}
    for a in kids:
        by_cell[tuple(int(x) for x in a.spatialLocator.indices)] = a
    cbl = {}
    for loc, a in core.childrenByLocator.items():
        cbl[tuple(int(x) for x in loc.indices)] = a
        if loc.grid is not grid:
            vs.append(("lookup-childrenByLocator", "childrenByLocator key %s belongs to another grid" % (loc,)))
        if a.spatialLocator != loc:
            vs.append(("lookup-childrenByLocator", "childrenByLocator[%s] is %s whose locator is %s" % (loc, a, a.spatialLocator)))
    if set(cbl) != set(by_cell) or any(cbl[k] is not by_cell[k] for k in cbl if k in by_cell):
        vs.append(("lookup-childrenByLocator", "childrenByLocator holds cells %s, the children sit at %s" % (sorted(set(cbl) - set(by_cell)) or sorted(cbl)[:5], sorted(set(by_cell) - set(cbl)) or "the same cells (other objects)")))
    pooled = list(S.pool or ())
    abn = core.assembliesByName
    want = {a.getName(): a for a in kids}
    okp = {a.getName(): a for a in pooled}  # assemblies tracked in the pool may be registered too (C14's business)
    stale = sorted(k for k in abn if abn[k] is not want.get(k) and abn[k] is not okp.get(k))
    if stale or set(want) - set(abn):
        vs.append(("lookup-assembliesByName", "assembliesByName resolves %s to objects that are neither in the core nor in the pool; children missing from it %s" % (stale[:5], sorted(set(want) - set(abn))[:5])))
    bbn = core.blocksByName
    wantb = {b.getName(): b for a in kids for b in a}
    okb = {b.getName(): b for a in pooled for b in a}
    staleb = sorted(k for k in bbn if bbn[k] is not wantb.get(k) and bbn[k] is not okb.get(k))
    if staleb or set(wantb) - set(bbn):
        vs.append(("lookup-blocksByName", "blocksByName has stale keys %s; blocks missing from it %s" % (staleb[:5], sorted(set(wantb) - set(bbn))[:5])))
    # every assembly that is not an original and has been in the core: once purged it must not be found by name
    present = set(want)
    note_copies(S)
    for name in sorted(set(S.ever) - present):
        try:
            got = core.getAssemblyByName(name)
        except KeyError:
            got = None
        if got is not None:
            vs.append(("lookup-purged-assembly-found", "getAssemblyByName(%s) returns %s, which was purged from the core" % (name, got)))
            break
        for bn in S.ever[name]:
            try:
                gotb = core.getBlockByName(bn)
            except KeyError:
                gotb = None
            if gotb is not None:
                vs.append(("lookup-purged-block-found", "getBlockByName(%s) returns a block of the purged assembly %s" % (bn, name)))
                break
    for a in kids:
        if core.getAssemblyByName(a.getName()) is not a:
            vs.append(("lookup-getAssemblyByName", "getAssemblyByName(%s) does not return the child" % a.getName()))
        if core.getAssemblyWithStringLocation(a.getLocation()) is not a:
            vs.append(("lookup-getAssemblyWithStringLocation", "getAssemblyWithStringLocation(%s) does not return the assembly located there" % a.getLocation()))
        for b in a:
            if core.getBlockByName(b.getName()) is not b:
                vs.append(("lookup-getBlockByName", "getBlockByName(%s) does not return the block" % b.getName()))
    n = S.rings_scan
    for i in range(-n, n + 1):
        for j in range(-n, n + 1):
            if hexdist(i, j) > n - 1:
                continue
            ring, pos = grids.HexGrid.indicesToRingPos(i, j)
            got = core.getAssemblyWithStringLocation("%03d-%03d" % (ring, pos))
            if got is not by_cell.get((i, j, 0)):
                vs.append(("lookup-getAssemblyWithStringLocation", "getAssemblyWithStringLocation(%03d-%03d) [cell %s] returns %s, the cell holds %s" % (ring, pos, (i, j), got, by_cell.get((i, j, 0)))))
    return vs[:6]


# ---------------------------------------------------------------------------------------------
# independence of freshly made copies


def _identities(a):
    ids = {}
    for o in [a] + list(a.getChildren(deep=True)):
        ids[id(o)] = "composite %s" % o
        ids[id(o.p)] = "parameter collection of %s" % o
        if getattr(o, "spatialLocator", None) is not None:
            ids[id(o.spatialLocator)] = "spatialLocator of %s" % o
        if getattr(o, "spatialGrid", None) is not None:
            ids[id(o.spatialGrid)] = "spatialGrid of %s" % o
        if getattr(o, "material", None) is not None:
            ids[id(o.material)] = "material of %s" % o
        for pd in o.p.paramDefs:
            try:
                v = o.p[pd.name]
            except Exception:
                continue
            if isinstance(v, (list, dict)) or type(v).__name__ == "ndarray":
                ids[id(v)] = "value of %s on %s" % (pd.name, o)
    return ids


def _mutate(a):
    """In-place changes of everything mutable a copy owns."""
    import numpy as np

    n = 0
    for o in [a] + list(a.getChildren(deep=True)):
        for pd in o.p.paramDefs:
            if pd.name in ("serialNum", "flags"):
                continue
            try:
                v = o.p[pd.name]
            except Exception:
                continue
            if isinstance(v, np.ndarray) and v.size and v.dtype.kind in "fiu":
                v.flat[0] = v.flat[0] + 1
                n += 1
            elif isinstance(v, list) and v and isinstance(v[0], (int, float)) and not isinstance(v[0], bool):
                v[0] = v[0] + 1
                n += 1
            elif isinstance(v, dict) and v:
                k = sorted(v, key=str)[0]
                if isinstance(v[k], (int, float)):
                    v[k] = v[k] * 2 + 1e-7
                    n += 1
        if getattr(o, "material", None) is not None:
            try:
                o.setTemperature(o.temperatureInC + 11.0)
                n += 1
            except Exception:
                pass
    a.p.maxPercentBu = 99.0
    for b in a:
        b.p.power = -5.0
        b.p.flux = -6.0
    return n


def check_independence(S, M, opname):
    vs = []
    copies = sorted(M.copies)
    if not copies:
        return vs
    qual = M.qual if opname == "convert" else ""
    everyone = list(S.core)
    idents = {id(a): _identities(a) for a in everyone}
    for c in copies:
        a = assembly_at(S, c)
        mine = idents[id(a)]
        for other in everyone:
            if other is a:
                continue
            shared = mine.keys() & idents[id(other)].keys()
            if shared:
                vs.append(("c13/%s/copy-shares-object%s" % (opname, ("/" + qual) if qual else ""), "copy at %s shares %s with the assembly %s" % (c, sorted(mine[i] for i in shared)[:3], other)))
                break
        if a.spatialGrid is None or a.spatialGrid.armiObject is not a or any(b.spatialLocator.grid is not a.spatialGrid for b in a):
            vs.append(("c13/%s/copy-grid-owner" % opname, "blocks of the copy at %s are not located in the copy's own axial grid" % (c,)))
    # mutate the first image of every source; sources and sibling copies must not notice
    victims = [c for c in copies if M.copies[c]["k"] in (0, 1)]
    for c in victims:
        _mutate(assembly_at(S, c))
    _t, _c, _o, per, _d = split_obs(observe.obs(S.r))
    has_edges = any(rec["kind"] == "edge" for rec in M.copies.values())
    for c in sorted(M.orig):
        ck = cell_kind(c)
        strip = (ck == "centre" and M.domain == "full") or (ck == "lower" and has_edges)
        d = observe.diff(norm_assembly(M.orig[c], strip), norm_assembly(per[c], strip, False, True), limit=4)
        if d:
            vs.append(("c13/%s/copy-not-independent-of-source%s" % (opname, ("/" + qual) if qual else ""), "changing the copies in place changed the original assembly at %s: %s" % (c, d[:3])))
    for c in copies:
        if c in victims:
            continue
        rec = M.copies[c]
        d = observe.diff(_exp_norm(rec), norm_assembly(per[c], rec["strip"], True, True), limit=4)
        if d:
            vs.append(("c13/%s/copy-not-independent-of-sibling%s" % (opname, ("/" + qual) if qual else ""), "changing the first image in place changed the second image at %s: %s" % (c, d[:3])))
    return vs


# ---------------------------------------------------------------------------------------------
# canonical form, hidden state, enabled operations


def _changer_state(ch, S):
    """Everything a changer object remembers (its whole attribute dictionary), in a form that does not
    depend on names or object identities: the search must not merge two states whose changers differ in
    ANY attribute, known to this check or not."""
    if ch is None:
        return None
    from armi.reactor import assemblies

    def canon(v):
        if v is None or isinstance(v, (bool, int, float, str)):
            return v
        if v is S.r:
            return "<the reactor>"
        if v is S.core:
            return "<the core>"
        if isinstance(v, assemblies.Assembly):
            if v.parent is S.core:
                return ["assembly-at"] + [int(x) for x in v.spatialLocator.indices[:2]]
            return "<assembly not in the core>"
        if isinstance(v, (list, tuple, set, frozenset)):
            items = [canon(x) for x in v]
            return sorted(items, key=repr) if isinstance(v, (set, frozenset)) or all(isinstance(x, list) and x[:1] == ["assembly-at"] for x in items) else items
        if isinstance(v, dict):
            return {str(k): canon(x) for k, x in sorted(v.items(), key=lambda kv: str(kv[0]))}
        text = str(v)
        if " at 0x" in text or "id:" in text:
            text = "<%s>" % type(v).__name__
        return "%s:%s" % (type(v).__name__, text)

    return {k: canon(v) for k, v in sorted(vars(ch).items())}


def hidden(S, M):
    from armi.reactor import parameters

    bit = parameters.SINCE_LAST_GEOMETRY_TRANSFORMATION
    flagged = sorted(pd.name for pd in S.core.getFirstBlock().p.paramDefs if pd.name in names()["volint"] and pd.assigned & bit)
    # the two changers of a kind are interchangeable objects: a state and its mirror image (#1 <-> #2)
    # have the same futures, so the pair is kept as an unordered pair (with what the model knows of each)
    third = sorted(([_changer_state(S.T[k], S), M.active == k] for k in ("1", "2")), key=repr)
    edge = sorted(([_changer_state(S.E[k], S), bool(S.edge_belief.get(k))] for k in ("1", "2")), key=repr)
    return {"third": third, "edge": edge, "flags": flagged}


def model_digest(M):
    parts = []
    for c in sorted(M.orig):
        o = norm_assembly(M.orig[c])  # rounded: x3 then :3 must land on the same canonical state
        for node, _ in walk(o):
            node.pop("serial", None)
        parts.append([list(c), o])
    for c in sorted(M.copies):
        rec = M.copies[c]
        parts.append([list(c), list(rec["src"]), rec["k"], rec["kind"], observe.digest(norm_assembly(rec["exp"], False, True))])
    return observe.digest([M.domain, M.active is not None, sorted(map(list, M.edge_backup)), parts, sorted(M.nassign.items())])


def full_digest(S, M, o):
    """Digest of the whole observation taken by check_state (already normalised in place there:
    rounding; copies without names/serials). Serial numbers are process-wide: removed."""
    top, coreo, others, per, dup = split_obs(o)
    parts = [top, coreo, others]
    for c in sorted(per):
        parts.append([list(c), per[c]])
    parts = fcopy(parts)
    for part in parts:
        for x in part if isinstance(part, list) else [part]:
            if isinstance(x, dict):
                for node, _ in walk(x):
                    node.pop("serial", None)
    return observe.digest(parts)


def enabled_ops(S, M, item):
    init = item["init"]
    ops = init.get("ops") or OPS_QUICK
    nass = sum(1 for op in item["hist"] if op[0] == "assign")
    out = []
    for op in ops:
        if op[0] == "assign":
            if nass >= init.get("max_assign", 1) or M.target(op[1]) is None:
                continue
        out.append(list(op))
    return out


# ---------------------------------------------------------------------------------------------
# driver


def _run(item, every_step):
    init, hist, outs = item["init"], item["hist"], item.get("outs") or []
    S = build_state(init)
    M = Model(S)
    found = []
    outcomes = []
    steps = 0
    out = "ok"
    opname = "init"
    res = {}
    o = None
    if not hist:
        vs, o = check_state(S, M, opname)
        if vs:
            case = {"init": init, "hist": [], "outs": [], "every_step": bool(every_step)}
            found += [mc.viol(key, "initial state on cells %s: %s" % (init["cells"], msg), case) for key, msg in vs]
    for k, op in enumerate(hist):
        last = k == len(hist) - 1
        opname = op[0]
        out, vs = step(S, M, op, every_step or last)
        note_copies(S)
        outcomes.append(out)
        steps += 1
        if k < len(outs) and outs[k] != out:
            raise RuntimeError("prefix replay diverged at step %d %s: recorded %r, now %r" % (k, op, outs[k], out))
        if vs and not (every_step or last):
            raise RuntimeError("violation inside an already explored prefix: %s" % vs[:2])
        raised = out.startswith("raised")
        if not vs and (every_step or last) and not raised:
            vs, o = check_state(S, M, opname)
            if not vs and last:
                if not every_step:
                    # canonical form first: the independence test below modifies the copies
                    res["canon"], res["full"], res["ops"] = [model_digest(M), hidden(S, M)], full_digest(S, M, o), enabled_ops(S, M, item)
                if out in ("converted", "edge-added", "edge-added-unhalved"):
                    vs = check_independence(S, M, opname)
        if vs:
            case = {"init": init, "hist": hist[: k + 1], "outs": outcomes[:k], "every_step": bool(every_step)}
            found += [mc.viol(key, "history %s on cells %s: %s" % (hist[: k + 1], init["cells"], msg), case) for key, msg in vs]
            break
    res.update({"viols": found, "out": out, "steps": steps, "outcomes": outcomes})
    if not every_step:
        terminal = bool(found) or out.startswith("raised")
        res["terminal"] = terminal
        if terminal:
            res["canon"], res["full"], res["ops"] = "terminal:" + repr(hist), None, []
        elif "canon" not in res:
            res["canon"], res["full"], res["ops"] = [model_digest(M), hidden(S, M)], full_digest(S, M, o), enabled_ops(S, M, item)
    return res


def expand(item):
    return _run(item, False)


def run_script(item):
    r = _run(item, True)
    return {"viols": r["viols"], "steps": r["steps"], "outcomes": r["outcomes"]}


def evaluate(case):
    if "other" in case:  # differential oracle of explore.bfs: two histories, one canonical state
        a = _run({"init": case["init"], "hist": case["hist"], "outs": []}, False)
        b = _run({"init": case["init"], "hist": case["other"], "outs": []}, False)
        vs = a["viols"] + b["viols"]
        if not vs and a["canon"] == b["canon"] and a["full"] != b["full"]:
            vs.append(mc.viol("c13/differential", "histories %s and %s reach the same canonical state with different full observations" % (case["hist"], case["other"]), case))
        return vs
    item = {"init": case["init"], "hist": case["hist"], "outs": case.get("outs") or []}
    return _run(item, bool(case.get("every_step")))["viols"]


def run(ctx):
    quick = ctx.quick
    seed = ctx.seed
    total = {}
    deep = deep_inits(quick, seed)
    for init, d in deep:
        st = explore.bfs(ctx, MOD, [init], depth=d)
        explore.merge_stats(total, st)
        for k, v in st["outcomes"].items():
            ctx.count("deep_outcome_" + k, v)
    # wide family: every map x scripted histories, invariant after every step
    inits = wide_inits(quick, seed)
    names_ = SCRIPTS_QUICK_WIDE if quick else list(SCRIPTS)
    items = []
    for init in inits:
        kinds = {cell_kind(c) for c in init["cells"]}
        for sn in names_ if init["rings"] == 3 else SCRIPTS_THOROUGH_WIDE:
            hist = [op for op in SCRIPTS[sn] if op[0] != "assign" or op[1] in kinds]
            items.append({"init": init, "hist": hist, "outs": [], "script": sn})
    for init in special_inits(quick, seed):
        kinds = {cell_kind(tuple(c)) for c in init["cells"]}
        for sn in SCRIPTS:
            hist = [op for op in SCRIPTS[sn] if op[0] != "assign" or op[1] in kinds]
            items.append({"init": init, "hist": hist, "outs": [], "script": sn})
    items = ctx.order(items)
    res = mc.pmap(MOD, "run_script", [{"init": it["init"], "hist": it["hist"], "outs": []} for it in items])
    wsteps = 0
    for it, r in zip(items, res):
        wsteps += r["steps"]
        ctx.add_violations(r["viols"])
        ctx.count("wide_scripts")
        ctx.count("wide_scripts_cut_by_violation", 1 if r["viols"] else 0)
        for o in r["outcomes"]:
            ctx.count("wide_outcome_" + o.split(":")[0])
    total["states"] = total.get("states", 0) + wsteps
    total["transitions"] = total.get("transitions", 0) + wsteps
    total["traces"] = total.get("traces", 0) + len(items)
    ctx.log("wide family: %d maps, %d scripted histories, %d checked steps" % (len(inits), len(items), wsteps))
    explore.finish(
        ctx,
        total,
        {
            "deep_depth": DEPTH[ctx.tier],
            "deep_searches": [{"cells": i["cells"], "pins": bool(i.get("pins")), "settings": i.get("cs") or "default", "pool": len(i.get("pool") or []), "depth": d, "max_assign": i["max_assign"], "operations": len(i["ops"])} for i, d in deep],
            "wide_maps": len(inits),
            "wide_scripts": {k: SCRIPTS[k] for k in names_},
            "wide_scripts_4ring_family": [] if quick else SCRIPTS_THOROUGH_WIDE,
            "wide_checked_steps": wsteps,
            "alphabet": OPS_QUICK if quick else OPS_ALL,
        },
    )
    ctx.coverage["exhaustive"] = False  # depth-bounded
    ctx.assumptions += [
        "deep search: every history of the alphabet up to depth %d with at most one parameter assignment on three 3-assembly maps (centre+interior+line cell; no centre; no line cell), up to depth %d on the complete 3-ring map with pin lattices" % (DEPTH[ctx.tier], DEPTH[ctx.tier] - 1)
        + (" (there: one assignment kind)" if quick else "; up to depth %d with two assignments on the first map" % (DEPTH[ctx.tier] - 1)),
        "wide family: every subset with >= 2 cells of the 7 in-domain cells within 3 rings"
        + ("" if quick else " and, within 4 rings, every subset of those 7 cells combined with none/exactly one/all six ring-4 cells")
        + ", each with the scripted histories listed in coverage.wide_scripts, invariant evaluated after every step; a script stops at its first violation",
        "two assembly designs (inner/outer ring), 2 blocks per assembly, distinct values for block parameters of every location kind, one tracer nuclide and density per assembly; zones, other symmetries than third periodic and Cartesian cores are not visited",
        "volume-integrated third-core totals count the duplicated 120-degree edge assemblies with their (overhanging) 0-degree source, as the model does; scaleParamsRelatedToSymmetry is constrained (old + partner), not predicted",
        "Parameter.assigned masks are reset to the fresh-interpreter state before every execution; assigned values are finite representatives",
    ]
