"""C05 - every parameter value shape survives database encoding and decoding.

Bounded-exhaustive enumeration, three parts:

A. *value lists*: every list (one entry per object) of length 1..L over a typed alphabet is put on L
   real ARMI objects, written with the REAL ``Database._writeParams`` into a real in-memory HDF5 file
   (h5py ``driver="core", backing_store=False``: real datasets, real attributes) and read back into
   fresh objects with the REAL ``Database._readParams``.  Outcome classes:
       write refused (exception)                       -> accepted
       stored, reads back == N(values)                 -> accepted
       stored, read raises / reads back != N(values)   -> VIOLATION
   ``N`` is the reference normaliser below, written from the *documented* normalisations only.
B. *flags*: for (writer field order, reader field order) over permutations and 1-2-field extensions
   of private ``armi.utils.flags.Flag`` classes with 3, 8 and 9 fields and every subset of the
   writer's fields: ``FlagSerializer._unpackImpl(_packImpl(x))`` names the same set of fields.
   A sub-family goes through a real HDF5 dataset + attributes (``_writeAttrs/_resolveAttrs``).
C. *full database*: one value list per storage strategy on the blocks of a small generated reactor
   through ``Database.writeToDB`` / ``Database.load``.

A case is pure JSON; values are encoded as tagged lists (see ``dec``).
"""
import itertools
import math

from mcverif import core

PROPERTY = "C05"
LEVEL = "exploration"
MOD = "mcverif.checks.c05"

# ---------------------------------------------------------------------------------------------
# bounds (one place)

BOUNDS = {
    "quick": {"alpha": "quick", "maxlen": 3, "block_maxlen": 2, "deep": None},
    # thorough: everything of length <= 3 over the extended alphabet, length 4 over the core alphabet
    "thorough": {"alpha": "thorough", "maxlen": 3, "block_maxlen": 2, "deep": ("core", 4)},
}

HOSTS = {
    # host -> (module, class, parameter with default None and a plain setter, mask other params)
    "assembly": ("armi.reactor.assemblies", "HexAssembly", "orientation", True),
    "block": ("armi.reactor.blocks", "HexBlock", "axMesh", False),
}

INT_RANGE = {
    "int8": (-(2**7), 2**7 - 1),
    "int16": (-(2**15), 2**15 - 1),
    "int32": (-(2**31), 2**31 - 1),
    "int64": (-(2**63), 2**63 - 1),
    "uint8": (0, 2**8 - 1),
    "uint16": (0, 2**16 - 1),
    "uint32": (0, 2**32 - 1),
    "uint64": (0, 2**64 - 1),
}


def documented_sentinel(dtype):
    """layout.NONE_MAP as documented: signed -> min+2, unsigned -> max-2 ("we assume no one assigns
    min(int)+2 as a meaningful value")."""
    lo, hi = INT_RANGE[dtype]
    return hi - 2 if dtype.startswith("u") else lo + 2


# ---------------------------------------------------------------------------------------------
# value encoding:  JSON <-> python objects


def I(n):
    return ["i", n]


def NP(dt, n):
    return ["np", dt, n]


def F(x):
    return ["f", repr(float(x))]


def S(s):
    return ["s", s]


def ARR(dt, shape, flat):
    return ["arr", dt, list(shape), [repr(float(x)) if isinstance(x, float) else x for x in flat]]


def alphabet(name):
    """Ordered simplest first. core (30 values) < quick (44) < thorough (77) in content."""
    nan, inf = float("nan"), float("inf")
    if name == "core":
        drop = [I(-1), I(2), NP("int8", 2), NP("int8", 125), NP("int64", 2), NP("int64", INT_RANGE["int64"][0] + 2), NP("uint16", 2**16 - 3), NP("uint32", 2**32 - 3), NP("uint64", 2), F(0.0), F(inf), ["b", False], ARR("uint8", (2,), [2, 253]), ["list", [["list", [I(4), I(5)]], I(6), I(7)]]]
        out = [x for x in alphabet("quick") if x not in drop]
        assert len(out) == len(alphabet("quick")) - len(drop)
        return out
    a = [None]
    a += [I(0), I(-1), I(2), I(2**40)]
    if name == "quick":
        npints = [("int8", (2, "lo", "hi")), ("int64", (2, "lo", "hi")), ("uint8", (2, "hi")), ("uint16", ("hi",)), ("uint32", ("hi",)), ("uint64", (2, "hi"))]
    else:
        npints = [(dt, (1, 2, "lo", "hi")) for dt in ("int8", "int16", "int32", "int64")] + [(dt, (1, 2, "hi")) for dt in ("uint8", "uint16", "uint32", "uint64")]
    for dt, vals in npints:
        lo, hi = INT_RANGE[dt]
        for v in vals:
            a.append(NP(dt, lo + 2 if v == "lo" else hi - 2 if v == "hi" else v))
    a += [F(0.0), F(1.5), F(-0.0), F(inf), F(nan)]
    a += [["b", True], ["b", False]]
    a += [S(""), S("a"), S("<!None!>")]
    a += [
        ARR("int64", (2,), [1, 2]),
        ARR("int64", (3,), [3, 4, 5]),
        ARR("int64", (2, 2), [1, 2, 3, 4]),
        ARR("int64", (0,), []),
        ARR("float64", (2,), [1.5, nan]),
        ARR("str", (2,), ["a", "b"]),
        ARR("uint8", (2,), [2, 253]),
    ]
    a += [
        ["list", [I(1), I(2)]],
        ["tuple", [F(1.5), F(2.5)]],
        ["list", []],
        ["list", [F(1.5), None]],
        ["list", [I(1), ["list", [I(2), I(3)]]]],
        ["list", [["list", [I(4), I(5)]], I(6), I(7)]],
    ]
    if name != "quick":
        a += [
            ARR("float64", (3,), [0.5, 2.5, -1.0]),
            ARR("str", (3,), ["c", "", "e"]),
            ["list", [["list", [I(1), I(2)]], ["list", [I(3), I(4)]]]],
        ]
    # falsy values are boundary values for every kind (0, 0.0, "", [] above): also as dict values
    a += [["dict", {"a": F(1.0)}], ["dict", {"a": F(0.0), "b": F(2.0)}], ["dict", {}]]
    a += [["flag", 3]]
    if name != "quick":
        a += [
            ["npf", "float32", repr(1.5)],
            ["npf", "float64", repr(2.5)],
            ["npb", True],
            S("µ"),
            ARR("float64", (2, 2), [1.0, 2.0, 3.0, 4.0]),
            ARR("float64", (0,), []),
            ARR("int32", (2,), [7, 8]),
            ARR("bool", (2,), [True, False]),
            ARR("object", (2,), [1, None]),
            ["list", [I(1), None]],
            ["tuple", []],
            ["tuple", [I(1), I(2), I(3)]],
            ["dict", {"a": I(1)}],
            ["dict", {"b": F(float("nan"))}],
        ]
    return a


_FLAGCLS = {}


def private_flag_class(order, tag="P"):
    """A fresh private ``Flag`` subclass whose fields (all ``auto()``) are defined in ``order``."""
    from armi.utils import flags as uflags

    return uflags._FlagMeta("%s_%s" % (tag, "_".join(order)), (uflags.Flag,), {n: uflags.auto() for n in order})


def dec(e):
    """Encoded JSON value -> python object handed to ARMI."""
    import numpy as np

    if e is None:
        return None
    t = e[0]
    if t == "i":
        return int(e[1])
    if t == "np":
        return getattr(np, e[1])(e[2])
    if t == "f":
        return float(e[1])
    if t == "npf":
        return getattr(np, e[1])(float(e[2]))
    if t == "b":
        return bool(e[1])
    if t == "npb":
        return np.bool_(e[1])
    if t == "s":
        return str(e[1])
    if t == "arr":
        dt, shape, flat = e[1], e[2], e[3]
        if dt == "str":
            return np.array([str(x) for x in flat], dtype=str).reshape(shape) if flat else np.zeros(shape, dtype="<U1")
        if dt == "object":
            out = np.empty(len(flat), dtype=object)
            for i, x in enumerate(flat):
                out[i] = float(x) if isinstance(x, str) else x
            return out.reshape(shape)
        if dt.startswith("float"):
            return np.array([float(x) for x in flat], dtype=dt).reshape(shape)
        return np.array(flat, dtype=dt).reshape(shape)
    if t == "list":
        return [dec(x) for x in e[1]]
    if t == "tuple":
        return tuple(dec(x) for x in e[1])
    if t == "dict":
        return {k: dec(v) for k, v in e[1].items()}
    if t == "flag":
        if "F" not in _FLAGCLS:
            _FLAGCLS["F"] = private_flag_class(["A", "B", "C"])
        return _FLAGCLS["F"](int(e[1]))
    raise ValueError("bad encoding %r" % (e,))


def kind_of(e):
    """Coarse value-kind class of one encoded entry (used for keys, counters and the intended subset)."""
    if e is None:
        return "none"
    t = e[0]
    if t == "i":
        return "int"
    if t == "np":
        return "npuint" if e[1].startswith("u") else "npint"
    if t == "f" or (t == "npf" and e[1] == "float64"):
        return "float"  # np.float64 is a python float
    if t == "npf":
        return "np" + e[1]
    if t == "b":
        return "bool"
    if t == "npb":
        return "npbool"
    if t == "s":
        return "str"
    if t == "arr":
        dt = e[1]
        k = "str" if dt == "str" else "obj" if dt == "object" else "bool" if dt == "bool" else "uint" if dt.startswith("u") else "int" if dt.startswith("i") else "float"
        return "arr-" + k + ("-empty" if 0 in e[2] else "")
    if t in ("list", "tuple"):
        if not e[1]:
            return t + "-empty"
        if any(x is None for x in e[1]):
            return t + "-innernone"
        if any(isinstance(x, list) and x[0] in ("list", "tuple") for x in e[1]):
            return t + ("-nested" if _rect_shape(exp_of(e)) is not None else "-nestedragged")
        return t
    return t  # dict, flag


# ---------------------------------------------------------------------------------------------
# canonical forms.  A canonical value is a JSON-able nested list:
#   ["none"] | ["bool", b] | ["int", n] | ["float", repr] | ["str", s] | ["seq", [c...]] | ["dict", [[k, c]...]] | ["obj", typename]
# *expected* integer leaves carry their declared dtype as a third element (sentinel rule).


def exp_of(e):
    """Canonical form of an encoded input value, derived from the encoding alone (no numpy)."""
    if e is None:
        return ["none"]
    t = e[0]
    if t == "i":
        return ["int", int(e[1]), "int64"]
    if t == "np":
        return ["int", int(e[2]), e[1]]
    if t == "f":
        return ["float", repr(float(e[1]))]
    if t == "npf":
        return ["float", repr(float(e[2]))]
    if t in ("b", "npb"):
        return ["bool", bool(e[1])]
    if t == "s":
        return ["str", e[1]]
    if t == "arr":
        dt, shape, flat = e[1], e[2], e[3]

        def leaf(x):
            if x is None:
                return ["none"]
            if dt == "str":
                return ["str", x]
            if dt == "bool":
                return ["bool", bool(x)]
            if dt.startswith("float") or isinstance(x, str):
                return ["float", repr(float(x))]
            return ["int", int(x), dt if dt in INT_RANGE else "int64"]

        leaves = [leaf(x) for x in flat]

        def build(shape, leaves):
            if not shape:
                return leaves[0]
            n = shape[0]
            per = len(leaves) // n if n else 0
            return ["seq", [build(shape[1:], leaves[i * per : (i + 1) * per]) for i in range(n)]]

        return build(list(shape), leaves)
    if t in ("list", "tuple"):
        return ["seq", [exp_of(x) for x in e[1]]]
    if t == "dict":
        return ["dict", [[k, exp_of(v)] for k, v in sorted(e[1].items())]]
    if t == "flag":
        return ["obj", "Flag"]
    raise ValueError(e)


def got_of(v):
    """Canonical form of a value read back from ARMI."""
    import numpy as np

    if v is None:
        return ["none"]
    if isinstance(v, (bool, np.bool_)):
        return ["bool", bool(v)]
    if isinstance(v, (int, np.integer)):
        return ["int", int(v)]
    if isinstance(v, (float, np.floating)):
        return ["float", repr(float(v))]
    if isinstance(v, (str, np.str_)):
        return ["str", str(v)]
    if isinstance(v, np.ndarray):
        if v.ndim == 0:
            return got_of(v.item())
        return ["seq", [got_of(x) for x in v]]
    if isinstance(v, (list, tuple)):
        return ["seq", [got_of(x) for x in v]]
    if isinstance(v, dict):
        return ["dict", [[str(k), got_of(x)] for k, x in sorted(v.items(), key=lambda kv: str(kv[0]))]]
    return ["obj", type(v).__name__]


def _rect_shape(c):
    """Shape of a canonical value if it is a rectangular nest of scalar leaves, else None. Scalars -> ()."""
    if c[0] != "seq":
        return ()
    subs = [_rect_shape(x) for x in c[1]]
    if any(s is None for s in subs):
        return None
    if len(set(subs)) > 1:
        return None
    return (len(c[1]),) + (subs[0] if subs else ())


def _leaves(c):
    if c[0] == "seq":
        out = []
        for x in c[1]:
            out += _leaves(x)
        return out
    if c[0] == "dict":
        out = []
        for _, x in c[1]:
            out += _leaves(x)
        return out
    return [c]


_NUM_RANK = {"bool": 0, "int": 1, "float": 2}


def _num_value(c):
    if c[0] == "bool":
        return int(c[1])
    if c[0] == "int":
        return int(c[1])
    f = float(c[1])
    return f


def _same_number(e, g):
    """Exact numeric equality between canonical numeric leaves of possibly different kinds."""
    a, b = _num_value(e), _num_value(g)
    if isinstance(a, float) and math.isnan(a):
        return isinstance(b, float) and math.isnan(b)
    if isinstance(b, float) and (math.isnan(b) or math.isinf(b)):
        return isinstance(a, float) and repr(a) == repr(b)
    if isinstance(a, float) and math.isinf(a):
        return False
    if isinstance(a, float) and isinstance(b, float):
        return repr(a) == repr(b)  # keeps -0.0 apart from 0.0
    if isinstance(a, int) and isinstance(b, float):
        return b == int(b) and int(b) == a and not (b == 0 and repr(b).startswith("-"))
    if isinstance(a, float) and isinstance(b, int):
        return False  # a real never legitimately reads back as an integer
    return a == b


class Ctxt:
    """What the reference normaliser knows about the whole collection."""

    def __init__(self, exps):
        self.n = len(exps)
        self.has_none = any(x[0] == "none" for x in exps)
        self.all_none = all(x[0] == "none" for x in exps)
        # the unset markers are in use when anything is unset, at the top level or inside an entry
        self.marker = any(l[0] == "none" for x in exps for l in _leaves(x))
        shapes = [(_rect_shape(x) if x[0] != "none" else "none") for x in exps]
        real = [s for s in shapes if s != "none"]
        # ragged: the entries that are present do not all have one rectangular shape
        self.ragged = len(set(real)) > 1 or any(s is None for s in real)
        # an unset entry next to array entries is stored in the ragged layout as well
        self.ragged_layout = self.ragged or (self.has_none and any(s not in ("none", ()) for s in shapes))
        ranks = [_NUM_RANK[l[0]] for x in exps for l in _leaves(x) if l[0] in _NUM_RANK]
        self.max_rank = max(ranks) if ranks else -1
        self.notes = set()


def match_leaf(e, g, cx, path, out):
    """expected leaf vs got canonical value."""
    if g[0] in ("seq", "dict"):
        out.append(("shape", path, e, g))
        return
    if e[0] == "none":
        if g[0] != "none":
            out.append(("unset-lost", path, e, g))
        return
    if g[0] == "none":
        # documented unset markers: NaN for reals, "<!None!>" for strings, the NONE_MAP sentinel for
        # integers -- only in a collection that has unset entries (else no marker is in use)
        if cx.marker:
            if e[0] == "float" and e[1] == "nan":
                cx.notes.add("nan-read-as-unset")
                return
            if e[0] == "str" and e[1] == "<!None!>":
                cx.notes.add("marker-read-as-unset")
                return
            if e[0] == "int" and e[1] == documented_sentinel(e[2]) or (e[0] == "int" and e[1] == documented_sentinel("int64")):
                cx.notes.add("marker-read-as-unset")
                return
        out.append(("unset-invented", path, e, g))
        return
    if e[0] == "obj" or g[0] == "obj":
        if e != g:
            out.append(("object", path, e, g))
        return
    if e[0] == "str" or g[0] == "str":
        if e[0] != g[0]:
            out.append(("kind-string", path, e, g))
        elif e[1] != g[1]:
            out.append(("value", path, e, g))
        return
    # numeric leaves
    if e[0] == g[0]:
        if not _same_number(e, g):
            out.append(("value", path, e, g))
        return
    # different numeric kinds: a collection is one homogeneous array, so entries of a narrower kind
    # are promoted (bool -> int -> float) to a kind that is present in the collection -- accepted
    # only if the value is preserved exactly
    if _NUM_RANK[g[0]] > _NUM_RANK[e[0]] and _NUM_RANK[g[0]] <= cx.max_rank:
        if _same_number(e, g):
            cx.notes.add("promoted-lossless")
            return
        out.append(("value-promoted", path, e, g))
        return
    out.append(("kind", path, e, g))


def match(e, g, cx, path, out, top=False):
    """Compare expected canonical value ``e`` (after documented normalisations) with ``g``."""
    if e[0] == "seq":
        if top and len(e[1]) == 0 and g[0] == "none" and (cx.ragged_layout or cx.has_none):
            # "an empty entry among ragged ones comes back unset"
            cx.notes.add("empty-read-as-unset")
            return
        if g[0] == "none" and cx.marker and top and e[1]:
            # an entry whose every element equals the unset marker is indistinguishable from unset
            lv = _leaves(e)
            if lv and all(l[0] == "float" and l[1] == "nan" for l in lv):
                cx.notes.add("nan-read-as-unset")
                return
        if g[0] != "seq":
            out.append(("shape", path, e, g))
            return
        if top and _rect_shape(e) is None and cx.ragged_layout:
            # JaggedArray docstring: only one layer of raggedness is kept; an entry that is itself
            # ragged comes back flattened to one dimension
            fl = _leaves(e)
            if _rect_shape(g) == (len(fl),):
                cx.notes.add("nested-ragged-flattened")
                for i, (a, b) in enumerate(zip(fl, g[1])):
                    match_leaf(a, b, cx, path + [i], out)
                return
        if len(e[1]) != len(g[1]):
            out.append(("shape", path, e, g))
            return
        for i, (a, b) in enumerate(zip(e[1], g[1])):
            match(a, b, cx, path + [i], out)
        return
    if e[0] == "dict":
        if g[0] != "dict":
            out.append(("shape", path, e, g))
            return
        # NaN is the unset marker for reals: a NaN-valued key is dropped
        ee = [[k, v] for k, v in e[1] if not (v[0] == "float" and v[1] == "nan")]
        if len(ee) != len(e[1]):
            cx.notes.add("nan-read-as-unset")
        if [k for k, _ in ee] != [k for k, _ in g[1]]:
            out.append(("dict-keys", path, e, g))
            return
        # packSpecialData docstring: dictionaries are {str: float} matrices with NaN for absent keys,
        # so an integer value may come back as the equal real
        saved, cx.max_rank = cx.max_rank, max(cx.max_rank, _NUM_RANK["float"])
        for (k, a), (_, b) in zip(ee, g[1]):
            match(a, b, cx, path + [k], out)
        cx.max_rank = saved
        return
    match_leaf(e, g, cx, path, out)


def reference_compare(encs, got_values, default=None):
    """-> (list of mismatches, notes). ``got_values``: python objects read back, one per object."""
    exps = [exp_of(x) for x in encs]
    cx = Ctxt(exps)
    out = []
    if len(got_values) != len(encs):
        return [("length", [], len(encs), len(got_values))], cx.notes
    if cx.all_none:
        # an all-unset collection is not stored; every object keeps the parameter default
        exps = [got_of(default)] * len(encs)
    for i, (e, gv) in enumerate(zip(exps, got_values)):
        match(e, got_of(gv), cx, [i], out, top=True)
    return out, cx.notes


# ---------------------------------------------------------------------------------------------
# driver A: real _writeParams / _readParams on an in-memory HDF5 file

_DB = []


def _database():
    if not _DB:
        from armi.bookkeeping.db.database import Database

        db = Database.__new__(Database)  # no file of its own: _writeParams only needs the instance
        db.h5db = None
        _DB.append(db)
    return _DB[0]


def roundtrip(encs, host="assembly"):
    """One execution. Returns dict(outcome=..., got=[...], attrs=set, dtype=str, exc=str)."""
    import importlib

    import h5py

    from armi.bookkeeping.db.database import Database
    from armi.reactor.parameters import parameterDefinitions as pd

    modname, clsname, pname, mask = HOSTS[host]
    cls = getattr(importlib.import_module(modname), clsname)
    vals = [dec(e) for e in encs]
    writers = [cls("w") for _ in vals]
    readers = [cls("r") for _ in vals]
    defs = writers[0].p.paramDefs
    default = defs[pname].default
    saved = [(p, p.assigned) for p in defs]
    res = {"outcome": None, "got": None, "attrs": [], "dtype": None, "exc": None, "default": default}
    f = h5py.File("c05-%s.h5" % host, "w", driver="core", backing_store=False)
    try:
        if mask:
            # only the probe parameter (and nothing the constructor assigned) is written: the class
            # level ``assigned`` masks decide what _writeParams stores; restored below
            for p in defs:
                p.assigned = pd.NEVER
        for o, v in zip(writers, vals):
            o.p[pname] = v
        g = f.create_group("c00n00")
        try:
            _database()._writeParams(g, writers)
        except Exception as e:  # refusal at write time: accepted outcome
            res["outcome"] = "refused"
            res["exc"] = type(e).__name__
            return res
        grp = g[clsname]
        if pname in grp:
            ds = grp[pname]
            res["attrs"] = sorted(k for k in ds.attrs.keys())
            res["dtype"] = ds.dtype.kind
        else:
            res["attrs"] = ["<not stored>"]
        try:
            Database._readParams(g, clsname, readers)
        except Exception as e:
            res["outcome"] = "read-raised"
            res["exc"] = "%s: %s" % (type(e).__name__, str(e)[:160].replace("\n", " "))
            return res
        res["outcome"] = "stored"
        res["got"] = [r.p[pname] for r in readers]
        return res
    finally:
        f.close()
        for p, a in saved:
            p.assigned = a


def layout_of(res):
    a = res["attrs"]
    if a == ["<not stored>"]:
        return "notstored"
    if "jagged" in a:
        return "jagged"
    if "dict" in a:
        return "dict"
    if "nones" in a:
        return "nones"
    if "specialFormatting" in a:
        return "special"
    return "plain"


def eval_list(case):
    """-> (violations, info)"""
    encs, host = case["vals"], case.get("host", "assembly")
    res = roundtrip(encs, host)
    kinds = sorted(set(kind_of(e) for e in encs))
    info = {"outcome": res["outcome"], "layout": None, "notes": (), "kinds": kinds}
    if res["outcome"] == "refused":
        info["exc"] = res["exc"]
        return [], info
    lay = layout_of(res)
    info["layout"] = lay
    if res["outcome"] == "read-raised":
        mism = [("read-raised", [], res["exc"], None)]
        notes = set()
    else:
        mism, notes = reference_compare(encs, res["got"], res["default"])
        info["notes"] = sorted(notes)
        info["gotc"] = [got_of(v) for v in res["got"]]
    if not mism:
        return [], info
    key = classify(encs, kinds, lay, res, mism)
    msg = "%s list %s: stored (layout %s, dtype kind %s, attrs %s) but %s" % (
        host,
        show(encs),
        lay,
        res["dtype"],
        res["attrs"],
        ("reading raised " + res["exc"]) if res["outcome"] == "read-raised" else "read back %s; first difference %s at %s: expected %s got %s" % (_short([got_of(v) for v in res["got"]]), mism[0][0], mism[0][1], _short(mism[0][2]), _short(mism[0][3])),
    )
    info["mismatch"] = mism[0][0]
    return [core.viol(key, msg, {"kind": "list", "host": host, "vals": encs})], info


def _short(x, n=200):
    s = repr(x)
    return s if len(s) <= n else s[: n - 3] + "..."


def show(encs):
    def one(e):
        if e is None:
            return "None"
        t = e[0]
        if t == "np":
            return "np.%s(%d)" % (e[1], e[2])
        if t == "npf":
            return "np.%s(%s)" % (e[1], e[2])
        if t in ("i", "b", "npb"):
            return repr(e[1])
        if t == "f":
            return e[1]
        if t == "s":
            return repr(e[1])
        if t == "arr":
            return "array(%s,%s,shape=%s)" % (e[3], e[1], tuple(e[2]))
        if t == "list":
            return "[" + ", ".join(one(x) for x in e[1]) + "]"
        if t == "tuple":
            return "(" + ", ".join(one(x) for x in e[1]) + ",)"
        if t == "dict":
            return "{" + ", ".join("%r: %s" % (k, one(v)) for k, v in e[1].items()) + "}"
        return "<%s %s>" % (t, e[1:])

    return "[" + ", ".join(one(e) for e in encs) + "]"


# ---------------------------------------------------------------------------------------------
# violation keys: mechanism / value-kind class, never the individual list

_JAGGED_SUPPORTED = ("none", "int", "float", "bool")  # scalar kinds JaggedArray.__init__ names explicitly


def classify(encs, kinds, lay, res, mism):
    """Violation key = storage layout actually used x value-kind class x kind of difference."""
    first = mism[0][0]
    exc = res["exc"] or ""
    scalar_kinds = [k for k in kinds if not k.startswith(("arr-", "list", "tuple")) and k != "none"]
    dropped = [k for k in scalar_kinds if k not in _JAGGED_SUPPORTED]
    exp, got = mism[0][2], mism[0][3]
    if lay == "nones" and res["dtype"] == "u":
        return "c05/uint-none-sentinel"
    if lay == "jagged" and first == "read-raised" and "not iterable" in exc and any(k.endswith("nestedragged") for k in kinds):
        return "c05/jagged-nested-ragged-shapes-unreadable"
    if lay in ("jagged", "notstored") and dropped and (lay == "notstored" or first in ("read-raised", "length")):
        return "c05/jagged-drops-unsupported-entry"
    if lay == "jagged" and first == "shape" and exp[0] in ("int", "float", "bool") and got[0] == "seq" and len(got[1]) == 1:
        return "c05/jagged-scalar-read-as-1-element-array"
    if lay == "special" and first == "read-raised" and any(k.endswith("innernone") or k == "arr-obj" for k in kinds):
        return "c05/inner-none-array-unreadable"
    if lay == "dict" and any(k != "dict" for k in kinds):
        return "c05/dict-layout-absorbs-non-dict-entry"
    if lay == "nones" and first in ("kind", "value") and exp[0] == "float" and got[0] == "int":
        return "c05/none-sentinel-casts-to-first-entry-type"
    if first == "kind-string":
        return "c05/mixed-number-string-stringified"
    if res["dtype"] == "f" and (first == "value-promoted" or (first == "kind" and exp[0] in ("int", "bool") and got[0] == "float")):
        return "c05/mixed-int-promoted-to-float"
    # anything else: layout x kind of difference x (kind of the value that differs | exception class)
    what = exc.split(":")[0] if first == "read-raised" else exp[0] if isinstance(exp, list) and exp else "-"
    return "c05/unclassified/%s/%s/%s" % (lay, first, what)


# ---------------------------------------------------------------------------------------------
# enumeration of part A (runs in workers)


def _chunk(item):
    """item = {"host", "alpha", "prefix": [indices], } -> all lists prefix+[a] for a in alphabet."""
    alpha = alphabet(item["alpha"])
    pre = [alpha[i] for i in item["prefix"]]
    counters = {}
    viols = {}
    obs = set()
    nontrivial = 0
    quiet = set(item.get("quiet_keys") or ())  # classes already witnessed by shorter lists: count only

    def cnt(k, n=1):
        counters[k] = counters.get(k, 0) + n

    for j, a in enumerate(alpha):
        encs = pre + [a]
        vs, info = eval_list({"vals": encs, "host": item["host"]})
        cnt("lists")
        cnt("len%d" % len(encs))
        cnt("outcome_" + info["outcome"])
        if info["outcome"] == "refused":
            cnt("refused_" + info["exc"])
        else:
            cnt("layout_" + info["layout"])
        for nt in info["notes"]:
            cnt("norm_" + nt)
        nonnone = set(k for k in info["kinds"] if k != "none")
        intended = len(nonnone) == 1
        if intended:
            cnt("intended_lists")
            if info["outcome"] == "stored" and not vs:
                nontrivial += 1
        if vs:
            cnt("violating_lists")
            for v in vs:
                cnt("viol_" + v["key"])
                if v["key"] in quiet:
                    continue
                viols.setdefault(v["key"], [])
                if len(viols[v["key"]]) < 2:
                    viols[v["key"]].append(v)
        elif info["outcome"] == "stored":
            cnt("stored_equal")
        if item.get("hash_obs"):
            obs.add(core.jhash([info["outcome"], info.get("layout"), info.get("gotc"), info.get("exc") if info["outcome"] != "refused" else None]))
    return {"counters": counters, "viols": [v for vs in viols.values() for v in vs], "obs": sorted(obs), "nontrivial": nontrivial}


def _size(case):
    import json

    return (len(case.get("vals", [])), len(json.dumps(case)))


# ---------------------------------------------------------------------------------------------
# part B: flags


def _insertions(base, extras):
    """all orders obtained by inserting 0..len(extras) of ``extras`` (in that order of choice) anywhere."""
    out = [tuple(base)]
    cur = [tuple(base)]
    for x in extras:
        nxt = []
        for o in cur:
            for p in range(len(o) + 1):
                nxt.append(o[:p] + (x,) + o[p:])
        nxt = sorted(set(nxt))
        out += nxt
        cur = nxt
    return sorted(set(out), key=lambda o: (len(o), o))


def flag_orders(k, tier):
    """(writers, readers) as lists of name tuples; every (writer, reader) pair is evaluated."""
    base = tuple("F%d" % i for i in range(k))
    ex = ("X0", "X1")
    if k <= 3 or (k == 4 and tier != "quick"):
        perms = list(itertools.permutations(base))
        allo = sorted(set(o for p in perms for o in _insertions(p, ex)), key=lambda o: (len(o), o))
        return allo, allo
    ident = base
    rev = base[::-1]
    rots = [base[i:] + base[:i] for i in range(1, k)]
    trans = []
    for i in range(k):
        for j in range(i + 1, k):
            p = list(base)
            p[i], p[j] = p[j], p[i]
            trans.append(tuple(p))
    rbase = [ident, rev] + rots + trans
    adjacent = [t for t in trans if sum(1 for a, b in zip(t, base) if a != b) == 2 and abs([i for i, (a, b) in enumerate(zip(t, base)) if a != b][0] - [i for i, (a, b) in enumerate(zip(t, base)) if a != b][1]) in (1, k - 1)]
    readers = set(rbase)
    for b in [ident, rev] + rots + adjacent:
        readers.update(_insertions(b, ex[:1]))  # one added field, every position
    for b in (ident, rev, rots[0])[: 3 if k == 8 else 2]:
        readers.update(_insertions(b, ex))  # two added fields, every pair of positions
    if tier != "quick" and k == 8:
        readers.update(itertools.permutations(base))
    readers = sorted(readers, key=lambda o: (len(o), o))
    writers = [ident, rev, ("X0",) + ident, ident + ("X0",)][: 4 if k == 8 else 3]
    if tier != "quick":
        writers += [rots[0], ("X0",) + ident + ("X1",), ident[:1] + ("X1", "X0") + ident[1:]]
    return writers, readers


def flag_pair(worder, rorder, through_h5=False, subsets="all"):
    """-> (violations, number of (pair, subset) evaluations)."""
    import numpy as np

    from armi.reactor.composites import FlagSerializer

    W = private_flag_class(worder, "W")
    R = private_flag_class(rorder, "R")
    wf = W.fields()
    names = list(worder)
    k = len(names)
    if subsets == "all":
        masks = range(1 << k)
    else:
        masks = sorted(set([0, (1 << k) - 1] + [1 << i for i in range(k)] + [((1 << k) - 1) ^ (1 << i) for i in range(k)] + [0x55555 & ((1 << k) - 1), 0xAAAAA & ((1 << k) - 1)]))
    sets = [[names[i] for i in range(k) if m >> i & 1] for m in masks]
    values = []
    for s in sets:
        v = W(0)
        for n in s:
            v = v | W[n]
        values.append(v)
    case = {"kind": "flags", "writer": list(worder), "reader": list(rorder), "h5": bool(through_h5), "subsets": subsets}
    try:
        data, attrs = FlagSerializer._packImpl(values, W)
    except Exception as e:
        return [core.viol("c05/flags-pack-raises", "packing flags of a class with fields %s raised %r" % (names, e), case)], len(sets)
    if through_h5:
        import h5py

        from armi.bookkeeping.db.database import Database

        f = h5py.File("c05-flags.h5", "w", driver="core", backing_store=False)
        try:
            g = f.create_group("c00n00")
            ds = g.create_dataset("flags", data=data, compression="gzip", track_order=True)
            Database._writeAttrs(ds, g, attrs)
            data = ds[:]
            attrs = Database._resolveAttrs(ds.attrs, g)
        finally:
            f.close()
    try:
        out = FlagSerializer._unpackImpl(data, FlagSerializer.version, attrs, R)
    except Exception as e:
        return [core.viol(_flag_key(worder, rorder, "unpack-raises"), "writer fields %s, reader fields %s: unpack raised %r" % (names, list(rorder), e), case)], len(sets)
    vs = []
    rf = R.fields()
    if len(out) != len(sets):
        return [core.viol(_flag_key(worder, rorder, "count"), "unpack returned %d values for %d" % (len(out), len(sets)), case)], len(sets)
    for s, o in zip(sets, out):
        if type(o) is not R:
            vs.append(core.viol(_flag_key(worder, rorder, "type"), "unpack returned a %s" % type(o).__name__, case))
            break
        gotnames = sorted(n for n, bit in rf.items() if int(o) & bit)
        extra_bits = int(o) & ~sum(rf.values())
        if gotnames != sorted(s) or extra_bits:
            vs.append(
                core.viol(
                    _flag_key(worder, rorder, "meaning"),
                    "flag set %s written by a class with field order %s reads as %s%s in a class defined with field order %s" % (sorted(s), names, gotnames, " plus undefined bits" if extra_bits else "", list(rorder)),
                    case,
                )
            )
            break
    return vs, len(sets)


def _flag_key(worder, rorder, what):
    ws, rs = set(worder), set(rorder)
    rel = "same-fields" if ws == rs else "reader-extended" if ws < rs else "reader-lacks-fields" if rs < ws else "both-differ"
    order = "same-order" if [n for n in rorder if n in ws] == [n for n in worder if n in rs] else "reordered"
    return "c05/flags-%s/%s/%s" % (what, rel, order)


def _flag_chunk(item):
    vs, n, pairs = [], 0, 0
    seen = set()
    for r in item["readers"]:
        v, m = flag_pair(item["writer"], r, item.get("h5", False), item.get("subsets", "all"))
        n += m
        pairs += 1
        for x in v:
            if x["key"] not in seen:
                seen.add(x["key"])
                vs.append(x)
    return {"viols": vs, "n": n, "pairs": pairs}


# ---------------------------------------------------------------------------------------------
# part C: full writeToDB / load of a small reactor

FULLDB_LISTS = [
    ("plain-float", [F(1.5), F(0.0), F(-2.25)]),
    ("plain-int", [I(1), I(-1), I(2**40)]),
    ("plain-bool", [["b", True], ["b", False], ["b", True]]),
    ("plain-str", [S("a"), S(""), S("bc")]),
    ("float-none", [F(1.5), None, F(2.5)]),
    ("int-none", [None, I(2), I(3)]),
    ("arrays-equal", [ARR("float64", (2,), [1.0, 2.0]), ARR("float64", (2,), [3.0, 4.0]), ARR("float64", (2,), [5.0, 6.0])]),
    ("arrays-2d", [ARR("int64", (2, 2), [1, 2, 3, 4]), ARR("int64", (2, 2), [5, 6, 7, 8]), ARR("int64", (2, 2), [9, 10, 11, 12])]),
    ("arrays-none", [ARR("float64", (2,), [1.0, 2.0]), None, ARR("float64", (2,), [5.0, 6.0])]),
    ("ragged", [ARR("int64", (2,), [1, 2]), ARR("int64", (3,), [3, 4, 5]), ["list", [I(6)]]]),
    ("ragged-none-empty", [ARR("int64", (2,), [1, 2]), None, ["list", []]]),
    ("ragged-2d", [ARR("int64", (2, 2), [1, 2, 3, 4]), ARR("int64", (1, 2), [5, 6]), None]),
    ("dict", [["dict", {"a": F(1.0)}], ["dict", {"a": F(3.0), "b": F(2.0)}], ["dict", {}]]),
    ("all-none", [None, None, None]),
    ("uint-none", [NP("uint8", 2), None, NP("uint8", 7)]),
    ("ragged-npscalar", [ARR("int64", (2,), [1, 2]), NP("int64", 3), ARR("int64", (3,), [1, 2, 3])]),
]


def eval_fulldb(case):
    import os
    import shutil

    from armi.bookkeeping.db.database import Database
    from armi.reactor.flags import Flags

    from mcverif import build, env

    name, encs = case["name"], case["vals"]
    pname = "axMesh"
    spec = build.hex_spec(rings=1, third=False, sfp=False, two_designs=False, nblocks=3)
    cs = build.settings()
    r = build.reactor(spec, cs=cs, seed=0)
    blocks = r.core.getBlocks()
    if len(blocks) != len(encs):
        raise RuntimeError("generated reactor has %d blocks, list has %d" % (len(blocks), len(encs)))
    for b, e in zip(blocks, encs):
        b.p[pname] = dec(e)
    flags_before = [sorted(n for n, v in Flags.fields().items() if int(b.p.flags) & v) for b in blocks]
    names_before = [b.getName() for b in blocks]
    d = env.fresh_dir("c05db")
    c = dict(case)
    c["kind"] = "fulldb"
    cwd = os.getcwd()
    os.chdir(d)  # the database is created in the fast path (the process scratch) and moved here on close
    try:
        db = Database("c05.h5", "w")
        db.open()
        try:
            try:
                db.writeInputsToDB(cs, bpString=build.render(build.normalize(spec)))
                db.writeToDB(r)
            except Exception as e:
                return [], {"outcome": "refused", "exc": type(e).__name__}
        finally:
            db.close(True)
        # what was actually stored (layout attributes, dtype) -- only used to name the violation class
        import h5py

        res = {"attrs": ["<not stored>"], "dtype": None, "exc": None}
        with h5py.File("c05.h5", "r") as h5:
            grp = h5["c00n00/HexBlock"]
            if pname in grp:
                res["attrs"] = sorted(grp[pname].attrs.keys())
                res["dtype"] = grp[pname].dtype.kind
        lay = layout_of(res)
        kinds = sorted(set(kind_of(e) for e in encs))
        db = Database("c05.h5", "r")
        db.open()
        try:
            try:
                r2 = db.load(0, 0, cs=cs, bp=build.blueprints(spec))
            except Exception as e:
                res["exc"] = "%s: %s" % (type(e).__name__, str(e)[:160].replace("\n", " "))
                key = classify(encs, kinds, lay, res, [("read-raised", [], res["exc"], None)])
                return [core.viol(key, "reactor with block parameter %s = %s written by writeToDB (layout %s); Database.load raised %s" % (pname, show(encs), lay, res["exc"]), c)], {"outcome": "read-raised"}
        finally:
            db.close()
    finally:
        os.chdir(cwd)
        shutil.rmtree(d, ignore_errors=True)
    blocks2 = r2.core.getBlocks()
    vs = []
    got = [b.p[pname] for b in blocks2]
    mism, notes = reference_compare(encs, got, None)
    if [b.getName() for b in blocks2] != names_before:
        raise RuntimeError("block order changed by the round trip: %s vs %s" % (names_before, [b.getName() for b in blocks2]))
    if mism:
        key = classify(encs, kinds, lay, res, mism)
        vs.append(core.viol(key, "reactor with block parameter %s = %s (stored with layout %s): after writeToDB/load it reads %s (%s at %s)" % (pname, show(encs), lay, _short([got_of(v) for v in got]), mism[0][0], mism[0][1]), c))
    flags_after = [sorted(n for n, v in Flags.fields().items() if int(b.p.flags) & v) for b in blocks2]
    if flags_after != flags_before:
        vs.append(core.viol("c05/fulldb-flags-differ", "block flags %s read back as %s" % (flags_before, flags_after), c))
    return vs, {"outcome": "stored", "notes": sorted(notes)}


def _fulldb_item(case):
    return eval_fulldb(case)


# ---------------------------------------------------------------------------------------------


def evaluate(case):
    k = case.get("kind", "list")
    if k == "list":
        return eval_list(case)[0]
    if k == "flags":
        return flag_pair(tuple(case["writer"]), tuple(case["reader"]), case.get("h5", False), case.get("subsets", "all"))[0]
    if k == "fulldb":
        return eval_fulldb(case)[0]
    raise ValueError(k)


def run(ctx):
    import json

    B = BOUNDS[ctx.tier]
    totals = {}
    obs = set()
    nontrivial = 0
    evaluations = 0
    viols = []

    def merge(res):
        nonlocal nontrivial
        for r in res:
            for k, n in r["counters"].items():
                totals[k] = totals.get(k, 0) + n
            viols.extend(r["viols"])
            obs.update(r["obs"])
            nontrivial += r["nontrivial"]

    # ---- part A
    plans = [("assembly", B["alpha"], range(1, B["maxlen"] + 1), True), ("block", B["alpha"], range(1, B["block_maxlen"] + 1), False)]
    if B["deep"]:
        plans.append(("assembly", B["deep"][0], range(B["maxlen"] + 1, B["deep"][1] + 1), False))
    for host, alpha, lengths, hash_obs in plans:
        A = len(alphabet(alpha))
        items = []
        for L in lengths:
            for pre in itertools.product(range(A), repeat=L - 1):
                items.append({"host": host, "alpha": alpha, "prefix": list(pre), "hash_obs": hash_obs})
        if not hash_obs:
            quiet = sorted(set(v["key"] for v in viols))
            for it in items:
                it["quiet_keys"] = quiet
        items = ctx.order(items)
        ctx.log("part A: host %s, alphabet %s (%d values), lists of length %s: %d chunks" % (host, alpha, A, list(lengths), len(items)))
        merge(core.pmap(MOD, "_chunk", items, chunksize=4 if len(items) > 400 else 1))
    evaluations += totals.get("lists", 0)
    for k, n in sorted(totals.items()):
        ctx.count("A_" + k, n)
    ctx.count("A_distinct_observations", len(obs))

    # ---- part B
    fl_eval = fl_pairs = 0
    for k in (3, 8, 9) if ctx.quick else (3, 4, 8, 9):
        writers, readers = flag_orders(k, ctx.tier)
        items = []
        for w in writers:
            for i in range(0, len(readers), 150):
                rs = readers[i : i + 150]
                if k == 8 and not ctx.quick and w != writers[0]:
                    rs = [r for r in rs if len(r) > k or r in readers[:40]]
                # all 8! reader permutations (thorough) are probed with singletons, co-singletons, empty, full and
                # alternating subsets; everything else with every subset of the writer's fields
                items.append({"writer": list(w), "readers": [list(r) for r in rs], "subsets": "probe" if (k == 8 and not ctx.quick and w == writers[0]) else "all"})
        if k == 8 and not ctx.quick:
            short = [r for r in readers if len(r) > k] + readers[:40]
            items.append({"writer": list(writers[0]), "readers": [list(r) for r in short], "subsets": "all"})
        small = [o for o in writers if len(o) <= k + 1]
        h5r = small if k <= 4 else readers[:: max(1, len(readers) // 40)]
        items += [{"writer": list(w), "readers": [list(r) for r in h5r], "h5": True} for w in small[:40]]
        res = core.pmap(MOD, "_flag_chunk", ctx.order(items), chunksize=1)
        n = sum(r["n"] for r in res)
        p = sum(r["pairs"] for r in res)
        fl_eval += n
        fl_pairs += p
        ctx.count("B_pairs_k%d" % k, p)
        ctx.count("B_subset_evaluations_k%d" % k, n)
        for r in res:
            viols.extend(r["viols"])
        ctx.log("part B: %d-field classes: %d writers x %d readers, %d pairs, %d subset evaluations" % (k, len(writers), len(readers), p, n))
    evaluations += fl_eval

    # ---- part C
    cases = [{"kind": "fulldb", "name": n, "vals": v} for n, v in FULLDB_LISTS]
    res = core.pmap(MOD, "_fulldb_item", cases, chunksize=1)
    for c, (vs, info) in zip(cases, res):
        ctx.count("C_outcome_" + info["outcome"])
        viols.extend(vs)
        if info["outcome"] == "stored" and not vs:
            nontrivial += 1
    evaluations += len(cases)

    viols.sort(key=lambda v: (v["key"], _size(v["case"]), json.dumps(v["case"], sort_keys=True)))
    ctx.add_violations(viols)
    al = alphabet(B["alpha"])
    ctx.samples = [
        {"kind": "list", "host": "assembly", "vals": [F(1.5), None, F(float("nan"))]},
        {"kind": "list", "host": "assembly", "vals": [ARR("int64", (2,), [1, 2]), ["list", []], ARR("int64", (3,), [3, 4, 5])]},
        {"kind": "list", "host": "block", "vals": [["dict", {"a": F(1.0)}], ["dict", {}]]},
        {"kind": "flags", "writer": ["F0", "F1", "F2"], "reader": ["F2", "X0", "F0", "F1"], "h5": True, "subsets": "all"},
        cases[9],
    ]
    ctx.coverage.update(
        evaluations=evaluations,
        distinct_nontrivial=nontrivial + fl_pairs,
        rule="part A: one evaluation = one value list written and read back; non-trivial = lists whose set entries are of one value kind (plus any pattern of None), that were stored and read back equal to N(list) (refused and mixed-kind lists are evaluated but not counted). part B: one evaluation = one (writer order, reader order, field subset); each (writer, reader) pair counted once as non-trivial. part C: full-database lists stored and equal",
        exhaustive=True,
        alphabet_size=len(al),
        max_list_length=B["deep"][1] if B["deep"] else B["maxlen"],
        flag_pairs=fl_pairs,
        distinct_observations=len(obs),
    )
    ctx.assumptions += [
        "value lists of length <= %d over a typed alphabet of %d values (%s); %s" % (B["maxlen"], len(al), B["alpha"], ("length %d over the %d-value core alphabet" % (B["deep"][1], len(alphabet(B["deep"][0])))) if B["deep"] else "longer lists not visited"),
        "lists are carried by HexAssembly.p.orientation (class-level Parameter.assigned masks set so that only this parameter is written; restored after each execution) and, for length <= %d, by HexBlock.p.axMesh with all constructor-assigned parameters written too" % B["block_maxlen"],
        "reference normaliser N: container type is not observed; an empty entry in a ragged/unset-bearing collection may read as unset; in a collection with unset entries NaN, '<!None!>' and the documented integer sentinel may read as unset; an all-unset collection reads as the parameter default; an entry that is itself ragged may come back flattened (JaggedArray docstring); entries of a narrower numeric kind may be promoted bool->int->float to a kind present in the collection if the value is preserved exactly",
        "flags: private Flag subclasses with auto() fields only (as armi.reactor.flags.Flags); 3-field (thorough: 4-field) classes exhaustively over permutations x 0-2 inserted fields on both sides, 8/9-field classes over identity/reversal/rotations/transpositions x insertions; explicit non-contiguous bit values not covered",
        "in-memory HDF5 (core driver) for parts A/B, on-disk HDF5 in the scratch directory for part C",
    ]
