"""C01 - the reactor model tree stays a well-formed tree under any edit history.

Explicit-state BFS over histories of structural edits applied to REAL ARMI composites
(``mcverif.explore.bfs``).  Every reached state is rebuilt from pure data and replayed; in every
reached state

* the real child lists are compared with a boring reference model (dict label -> list of labels);
* parent/child agreement, single parenthood, detachment of removed objects are asserted;
* every traversal query is compared with a naive walk over the child lists (iteration only);
* ``copy.deepcopy`` and a pickle round trip of the root and of the interior nodes on the first
  container path are compared node by node with the original (shape, no sharing, re-linking).

Shapes (DESIGN 4/C01): (a) generic composites + detached pool, (b) HexBlock of components with a
pin-grid multi-location component, (c) HexAssembly of blocks + detached block, (d) Reactor/Core
from generated blueprints + one ``createAssemblyOfType`` assembly.  Each has a small ("5-node")
variant explored to closure.

Stated precondition (not a finding): ``add``/``insert`` of an object that still has a *different
live parent* is outside the alphabet - the API contract is "remove, then add".
"""
import json
import os
import random
import time

from mcverif import core, explore

PROPERTY = "C01"
LEVEL = "model_checking"
MOD = "mcverif.checks.c01"

# ---------------------------------------------------------------------------------------------
# bounds (one place)

BOUNDS = {
    # shape key -> BFS depth; "closure" shapes run until the frontier is empty (or CLOSURE_DEPTH)
    "quick": {"a7": 3, "b7": 4, "c": 3, "d": 2, "dT": 2},
    "thorough": {"a7": 5, "b7": 8, "c": 4, "d": 4, "dT": 4},
}
CLOSURE_DEPTH = 80
CLOSURE_CAP = {"quick": 6000, "thorough": 60000}  # safety cap on canonical states of one closure search
POOL_CAP = 2  # shapes (c),(d): only the POOL_CAP lowest-labelled parentless nodes of a kind are offered to add/insert


def inits(ctx):
    s = int(ctx.seed)
    q = BOUNDS[ctx.tier]
    out = [
        ("a5", {"shape": "a", "n": 5, "seed": s}, None),
        ("b5", {"shape": "b", "n": 5, "seed": s}, None),
        ("c5", {"shape": "c", "n": 5, "seed": s}, None),
        ("d5", {"shape": "d", "n": 5, "seed": s, "track": False}, None),
        ("d5T", {"shape": "d", "n": 5, "seed": s, "track": True}, None),
        ("a7", {"shape": "a", "n": 7, "seed": s}, q["a7"]),
        ("b7", {"shape": "b", "n": 7, "seed": s}, q["b7"]),
        ("c", {"shape": "c", "n": 0, "seed": s}, q["c"]),
        ("d", {"shape": "d", "n": 0, "seed": s, "track": False}, q["d"]),
        ("dT", {"shape": "d", "n": 0, "seed": s, "track": True}, q["dT"]),
    ]
    return out


# ---------------------------------------------------------------------------------------------
# counters collected inside workers (merged by run())

_CNT = {}


def _cnt(name, n=1):
    _CNT[name] = _CNT.get(name, 0) + n


def _collect(item):
    time.sleep(item.get("sleep", 0.0))
    out = dict(_CNT)
    _CNT.clear()
    return {"pid": os.getpid(), "cnt": out}


# ---------------------------------------------------------------------------------------------
# world = real objects + labels; model = boring reference


def fnames(f):
    """Flags value -> frozenset of flag names (independent of the bit arithmetic in hasFlags)."""
    if not f:
        return frozenset()
    return frozenset(str(f).split(".")[-1].split("|"))


class World:
    def __init__(self, init):
        self.init = init
        self.objs = []  # label -> object
        self.lab = {}  # id(obj) -> label
        self.kind = []  # label -> 'R','C','S','A','B','K','G'
        self.flags = []  # label -> frozenset of flag names (read once when labelled)
        self.keep = []  # keep-alive (blueprints, settings, throw-away contexts)
        self.cfg = {}
        self.root = 0

    def kind_of(self, o):
        from armi.reactor import assemblies, blocks, cores, excoreStructure, reactors
        from armi.reactor.components import Component

        if isinstance(o, reactors.Reactor):
            return "R"
        if isinstance(o, cores.Core):
            return "C"
        if isinstance(o, excoreStructure.ExcoreStructure):
            return "S"
        if isinstance(o, assemblies.Assembly):
            return "A"
        if isinstance(o, blocks.Block):
            return "B"
        if isinstance(o, Component):
            return "K"
        return "G"

    def new(self, o):
        if id(o) in self.lab:
            raise RuntimeError("object labelled twice while building: %r" % o)
        l = len(self.objs)
        self.objs.append(o)
        self.lab[id(o)] = l
        self.kind.append(self.kind_of(o))
        self.flags.append(fnames(o.p.flags))
        return l

    def label_tree(self, o):
        """Label ``o`` and everything beneath it (naive walk, pre-order)."""
        l = self.new(o)
        for c in o:
            self.label_tree(c)
        return l

    def L(self, o):
        return self.lab.get(id(o), "?")


class Model:
    """label -> ordered list of child labels.  Nothing else."""

    def __init__(self, w):
        self.kids = {}
        for l, o in enumerate(w.objs):
            self.kids[l] = [w.lab[id(c)] for c in o]
        self.root = w.root

    def parents(self):
        par = {}
        for p, ks in self.kids.items():
            for k in ks:
                par[k] = p
        return par

    def pool(self):
        par = self.parents()
        return [l for l in sorted(self.kids) if l != self.root and l not in par]

    def under(self, l):
        out = [l]
        for k in self.kids[l]:
            out += self.under(k)
        return out

    def detach(self, x):
        for ks in self.kids.values():
            if x in ks:
                ks.remove(x)


# ---------------------------------------------------------------------------------------------
# building the initial shapes (pure data -> real objects through public constructors)

_BP = {}


def _bp(spec, nocache=False):
    """Blueprints (the *input description*) are parsed once per worker; every execution gets fresh
    objects from it through the public factory ``constructAssem`` / ``BlockBlueprint.construct``.
    ``run`` audits that cached and uncached builds give identical results."""
    from mcverif import build

    key = json.dumps(build.jsonable(spec), sort_keys=True)
    if nocache or key not in _BP:
        bp = build.blueprints(spec)
        if nocache:
            return bp
        _BP[key] = bp
    return _BP[key]


def _spec_b5():
    from mcverif import build

    spec = build.hex_spec(pins=True, rings=2, nblocks=2, two_designs=False, sfp=False, cells=[(0, 0)])
    fuel = {
        "grid name": "pins",
        "components": [
            build.comp("fuel", "Circle", "UZr", 25.0, 600.0, id=0.0, od=0.86, latticeIDs=["F"]),
            build.comp("clad", "Circle", "HT9", 25.0, 470.0, id="fuel.od", od=1.09, latticeIDs=["F"]),
            build.comp("coolant", "DerivedShape", "Sodium", 450.0, 450.0),
            build.comp("duct", "Hexagon", "HT9", 25.0, 450.0, ip=16.0, op=16.75, mult=1.0),
        ],
    }
    spec["blocks"] = {"fuel": fuel}
    spec["assemblies"] = {"igniter fuel": build.assem("IC", ["fuel"], [25.0], ["A"], {"U235_wt_frac": [0.11], "ZR_wt_frac": [0.06]})}
    return spec


def _spec_c5():
    from mcverif import build

    spec = build.hex_spec(pins=False, rings=2, nblocks=2, two_designs=False, sfp=False, cells=[(0, 0)])
    spec["blocks"] = {"dummy": build.dummy_block()}
    spec["assemblies"] = {"igniter fuel": build.assem("IC", ["dummy"], [10.0], ["A"])}
    return spec


def _free_block(bp, cs, design, height=25.0, xs="A"):
    b = bp.blockDesigns[design].construct(cs, bp, 0, 1, height, xs, {"byBlock": {}, "byComponent": {}})
    if b.spatialGrid is not None:
        # BlockBlueprint.construct leaves the pin grid ownerless (blueprint assemblies get it from the
        # deepcopy in constructAssem); a free-standing block is given its owner here, as
        # AssemblyBlueprint.construct does for the axial grid.  Blueprint code is not C01's subject.
        b.spatialGrid.armiObject = b
    return b


def _add_group(block):
    """A nested composite grouping two leaf Components, next to the block's plain components."""
    from armi.reactor import grids
    from armi.reactor.components import Circle

    from mcverif.checks.c01_generic import Group

    g = Group("pin group")
    g.setType("wire")
    g.add(Circle("wire", "HT9", 25.0, 450.0, id=0.0, od=0.1, mult=7))
    g.add(Circle("liner", "HT9", 25.0, 450.0, id=0.86, od=0.9, mult=7))
    block.add(g)
    if block.spatialGrid is not None:
        g.spatialLocator = grids.CoordinateLocation(0.0, 0.0, 0.0, block.spatialGrid)
    return g


def build_world(init, nocache=False):
    from mcverif import build

    w = World(init)
    random.seed(1000 + int(init.get("seed", 0)))
    sh, n = init["shape"], init["n"]
    if sh == "a":
        _build_a(w, n)
    elif sh == "b":
        from armi.reactor.components import Circle

        cs = build.settings()
        spec = _spec_b5() if n == 5 else build.hex_spec(pins=True, rings=2, nblocks=2, two_designs=False, sfp=False, cells=[(0, 0)])
        bp = _bp(spec, nocache)
        bp._prepConstruction(cs)
        random.seed(2000 + int(init.get("seed", 0)))
        a = bp.constructAssem(cs, name="igniter fuel")
        w.keep += [bp, cs]
        if n != 5:
            _add_group(a[0])
        w.label_tree(a)
        full = [w.lab[id(a[0])]]
        if n != 5:
            k = Circle("shield", "HT9", 25.0, 450.0, id=0.0, od=0.5, mult=7)
            w.new(k)
        w.cfg = {"full": full, "lite": [], "anyG": False, "cap": None}
    elif sh == "c":
        cs = build.settings()
        spec = _spec_c5() if n == 5 else build.hex_spec(pins=True, rings=2, nblocks=3, two_designs=False, sfp=False, cells=[(0, 0)])
        bp = _bp(spec, nocache)
        bp._prepConstruction(cs)
        random.seed(2000 + int(init.get("seed", 0)))
        a = bp.constructAssem(cs, name="igniter fuel")
        w.keep += [bp, cs]
        if n != 5:
            _add_group(a[0])
        w.label_tree(a)
        bd = _free_block(bp, cs, "dummy" if n == 5 else "fuel", height=11.0 if n == 5 else 25.0)
        w.label_tree(bd)
        w.cfg = {"full": [0], "lite": [] if n == 5 else [w.lab[id(a[0])]], "anyG": False, "cap": POOL_CAP, "replace": n != 5}
    elif sh == "d":
        cs = build.settings(trackAssems=True) if init.get("track") else build.settings()
        if n == 5:
            spec = build.hex_spec(pins=False, rings=2, nblocks=2, two_designs=False, cells=[(0, 0)])
            cells = [[0, 0], [1, 0]]
        else:
            spec = build.hex_spec(pins=True, rings=3, nblocks=2, cells=[(0, 0), (1, 0), (0, 1), (2, 0)])
            cells = [[0, 0], [1, 0], [0, 1], [2, 0], [1, 1]]
        r = build.reactor(spec, cs=cs, seed=1000 + int(init.get("seed", 0)))
        w.keep += [cs]
        if n != 5:
            _add_group(r.core[0][0])
        w.label_tree(r)
        x = r.core.createAssemblyOfType("igniter fuel", cs=cs)
        w.label_tree(x)
        a0 = w.lab[id(r.core[0])]
        w.cfg = {
            "full": [],
            "lite": [] if n == 5 else [a0],
            "anyG": False,
            "cap": POOL_CAP,
            "reactor": 0,
            "core": w.lab[id(r.core)],
            "sfp": w.lab[id(r.excore["sfp"])],
            "cells": cells,
            "liteasm": n != 5,
        }
    else:
        raise ValueError(sh)
    return w


def _build_a(w, n):
    from armi.reactor import grids
    from armi.reactor.components import Circle

    from mcverif.checks.c01_generic import Generic

    def G(name, typ, hexa=False):
        # every container owns a lattice WITHOUT pre-built cells (len(grid) == 0, a falsy grid object):
        # cells appear only when a child is given an index location on demand; children placed by a
        # CoordinateLocation leave the lattice empty
        c = Generic(name)
        c.setType(typ)
        c.spatialGrid = grids.HexGrid.fromPitch(1.0, numRings=0, armiObject=c) if hexa else grids.CartesianGrid.fromRectangle(1.0, 1.0, numRings=0, armiObject=c)
        if len(c.spatialGrid) != 0:
            raise RuntimeError("expected a lattice without pre-built cells")
        return c

    def K(name, mat, od):
        return Circle(name, mat, 25.0, 450.0, id=0.0, od=od, mult=1)

    root = G("root", "root")
    if n == 7:
        c1, c2 = G("c1", "igniter fuel", hexa=True), G("c2", "clad")
        k3, g4 = K("fuel", "UZr", 0.8), G("g4", "duct", hexa=True)
        d5, k6 = G("d5", "fuel"), K("clad", "HT9", 1.0)
        root.add(c1)
        root.add(c2)
        c1.add(k3)
        c2.add(g4)
        # locators in the parent's grid, deliberately NOT in child order (so sort() has work to do)
        c1.spatialLocator = root.spatialGrid[2, 0, 0]
        c2.spatialLocator = root.spatialGrid[1, 0, 0]
        k3.spatialLocator = grids.CoordinateLocation(1.0, 1.0, 0.0, c1.spatialGrid)  # c1's lattice stays empty
        g4.spatialLocator = c2.spatialGrid[0, 1, 0]  # created on demand
        d5.spatialLocator = grids.IndexLocation(0, 2, 0, None)
        k6.spatialLocator = grids.IndexLocation(3, 0, 0, None)
        for o in (root, c1, k3, c2, g4, d5, k6):
            w.new(o)
    else:
        c1, k2 = G("c1", "igniter fuel", hexa=True), K("fuel", "UZr", 0.8)
        g3, k4 = G("g3", "clad"), K("clad", "HT9", 1.0)
        root.add(c1)
        c1.add(k2)
        c1.spatialLocator = root.spatialGrid[2, 0, 0]
        k2.spatialLocator = grids.CoordinateLocation(1.0, 1.0, 0.0, c1.spatialGrid)  # c1's lattice stays empty
        g3.spatialLocator = grids.IndexLocation(1, 0, 0, None)
        k4.spatialLocator = grids.IndexLocation(0, 1, 0, None)
        for o in (root, c1, k2, g3, k4):
            w.new(o)
    w.cfg = {"full": [], "lite": [], "anyG": True, "cap": None}


# ---------------------------------------------------------------------------------------------
# observation of structure (snapshot == canonical form)


def _own(w, g):
    """Who owns grid ``g``: label of g.armiObject (checked to really hold g) or a marker."""
    if g is None:
        return None
    ao = g.armiObject
    if ao is None:
        return "noowner"
    l = w.lab.get(id(ao))
    if l is None:
        # e.g. the throw-away copy made by replaceBlockWithBlock, whose grid the new components keep
        return "ext:%s:%s" % (type(ao).__name__, getattr(ao, "name", "?"))
    return l if ao.spatialGrid is g else "stale%s" % l


def locsig(w, o):
    from armi.reactor import grids

    sl = o.spatialLocator
    if sl is None:
        return None
    if isinstance(sl, grids.MultiIndexLocation):
        return ["M", _own(w, sl.grid), [[[int(x) for x in l.indices], _own(w, l.grid)] for l in sl]]
    return [type(sl).__name__[0], _own(w, sl.grid), [float(sl.i), float(sl.j), float(sl.k)]]


def gridsig(w, o):
    g = o.spatialGrid
    if g is None:
        return None
    try:
        red = repr(tuple(g.reduce()))
    except Exception as e:
        red = "raises " + type(e).__name__
    return [type(g).__name__, _own(w, g), red]


def snap(w):
    """Everything the property can see of the arrangement, per labelled object."""
    out = []
    for l, o in enumerate(w.objs):
        p = o.parent
        out.append([l, None if p is None else w.L(p), [w.L(c) for c in o], [getattr(o, "name", None), _gettype(o), sorted(fnames(o.p.flags))], locsig(w, o), gridsig(w, o)])
    return out


def canon(w, m):
    return json.dumps(snap(w), sort_keys=True, default=repr)


def full_digest(w, m):
    from mcverif import observe

    fam = ("id", "serial", "loc", "grid")
    trees = [observe.obs(w.objs[w.root], families=fam, rank=True)]
    for l in m.pool():
        trees.append([l, observe.obs(w.objs[l], families=fam, rank=True)])
    return observe.digest(trees)


# ---------------------------------------------------------------------------------------------
# alphabet

ACCEPTS = {"G": "GK", "B": "KG", "A": "B"}
CONTRACT = {
    "addDup": ("RuntimeError",),
    "insertDup": ("RuntimeError",),
    "removeForeign": ("ValueError",),
    "addWrongType": ("TypeError",),
    "coreAddOcc": ("ValueError",),
    "coreAddPresent": ("RuntimeError", "ValueError"),
    "sfpAddPresent": ("RuntimeError", "ValueError"),
    "sort": ("ValueError", "NotImplementedError", "TypeError"),
}
MISUSE = ("addDup", "insertDup", "removeForeign", "addWrongType", "coreAddOcc", "coreAddPresent", "sfpAddPresent")
# violation classes of pure observers (model and tree are still in step): the search is repeated
# tolerating them, so that the states behind them are explored too


def tolerable(key):
    return key == "c01/detached-multilocation-sublocations-attached" or key.startswith(("c01/query/", "c01/query-result", "c01/copy-", "c01/grid-owner-mismatch"))


def enabled_ops(w, m):
    cfg = w.cfg
    par = m.parents()
    pool = m.pool()
    ops = []

    def offered(kinds):
        xs = [x for x in pool if w.kind[x] in kinds]
        if cfg.get("cap"):
            byk = {}
            for x in xs:
                byk.setdefault(w.kind[x], []).append(x)
            xs = sorted(sum([v[: cfg["cap"]] for v in byk.values()], []))
        return xs

    def ancestors(p):
        out = [p]
        while out[-1] in par:
            out.append(par[out[-1]])
        return out

    full = list(cfg.get("full", []))
    if cfg.get("anyG"):
        full = [l for l in sorted(m.kids) if w.kind[l] == "G"]
    for p in full:
        ks = m.kids[p]
        anc = ancestors(p)
        if ks:
            ops.append(["remove", p, 0])
            if len(ks) > 1:
                ops.append(["remove", p, -1])
        for x in offered(ACCEPTS[w.kind[p]]):
            if x in anc:
                continue  # would create a cycle
            ops.append(["add", p, x])
            ops.append(["insert", p, 0, x])
            if ks:
                ops.append(["insert", p, "end", x])
        if ks:
            ops.append(["removeAll", p])
            ops.append(["setChildren", p, "tail"])
            if len(ks) > 1:
                ops.append(["setChildren", p, "rev"])
            ops.append(["sort", p])
        if w.kind[p] == "A":
            ops.append(["reorder", p])
            if cfg.get("replace") and ks:
                for bx in offered("B")[:1] + ([ks[-1]] if len(ks) > 1 else []):
                    ops.append(["replaceBlock", ks[0], bx])
        # misuse with a contract
        if ks:
            ops.append(["addDup", p, ks[0]])
            ops.append(["insertDup", p, 0, ks[-1]])
        foreign = [x for x in sorted(par) if par[x] != p and x not in anc and w.kind[x] in ACCEPTS[w.kind[p]]]
        if foreign:
            ops.append(["removeForeign", p, foreign[0]])
        if w.kind[p] == "A":
            wrong = [x for x in pool if w.kind[x] == "K"]
            if wrong:
                ops.append(["addWrongType", p, wrong[0]])
    for p in cfg.get("lite", []):
        ks = m.kids[p]
        if ks:
            ops.append(["remove", p, 0])
        for x in offered(ACCEPTS[w.kind[p]]):
            ops.append(["add", p, x])
            ops.append(["insert", p, 0, x])
        if w.kind[p] == "A" and cfg.get("liteasm"):
            ops.append(["reorder", p])
        if ks:
            ops.append(["addDup", p, ks[0]])
            ops.append(["insertDup", p, 0, ks[-1]])
    if "core" in cfg:
        c, s, r = cfg["core"], cfg["sfp"], cfg["reactor"]
        ks = m.kids[c]
        if ks:
            ops.append(["coreRemove", 0])
            if len(ks) > 1:
                ops.append(["coreRemove", -1])
        for x in offered("A"):
            ops.append(["coreAdd", x])
            ops.append(["sfpAdd", x])
            if ks:
                ops.append(["coreAddOcc", x])
        if ks:
            # an assembly that is ALREADY a child: at a still-free cell, at its own cell
            ops.append(["coreAddPresent", "free"])
            ops.append(["coreAddPresent", "same"])
            ops.append(["coreAddPresent", "none"])
        if m.kids[s]:
            ops.append(["remove", s, 0])
            ops.append(["sfpAddPresent"])
        ops.append(["addDup", r, c])
        ops.append(["sort", r])
        ops.append(["sort", c])
    return ops


def _method(o, name):
    """Qualified name of the method that implements ``name`` for ``o`` (stable key fragment)."""
    return getattr(type(o), name).__qualname__


def _pick(o, i):
    ks = [c for c in o]
    return ks[0] if i == 0 else ks[-1]


def _child_lists(o, acc):
    acc[id(o)] = [c for c in o]
    for c in acc[id(o)]:
        _child_lists(c, acc)


def _model_sort(o, before, acc):
    """What sorted() makes of the child lists as they were ``before``, with the objects' own ``<``
    (Composite.sort sorts a node, then recurses into its children in the new order)."""
    from armi.reactor import composites

    ks = sorted(before[id(o)])
    acc.append((o, ks))
    for c in ks:
        if isinstance(c, composites.Composite):
            _model_sort(c, before, acc)


def _free_cell(w):
    core = w.objs[w.cfg["core"]]
    used = set()
    for a in core:
        sl = a.spatialLocator
        if sl is not None and sl.grid is core.spatialGrid:
            used.add((int(sl.i), int(sl.j)))
    for c in w.cfg["cells"]:
        if tuple(c) not in used:
            return tuple(c)
    return None


def apply(w, m, op, check):
    """Apply one operation to the real objects and to the model.  Returns (outcome, violations).
    ``check``: this is the last operation of the history (post-conditions and refusal checks on)."""
    from armi.reactor import grids

    name = op[0]
    viols = []
    pre = snap(w) if check else None
    post = None  # post-condition closure
    method = None
    try:
        if name in ("add", "addDup", "addWrongType"):
            P, X = w.objs[op[1]], w.objs[op[2]]
            method = _method(P, "add")
            P.add(X)
            if name == "add":
                _model_simple(w, m, op)
                if w.kind[op[1]] == "A":
                    post = ("axial", P)
        elif name in ("insert", "insertDup"):
            P, X = w.objs[op[1]], w.objs[op[3]]
            method = _method(P, "insert")
            idx = 0 if op[2] == 0 else len(m.kids[op[1]])
            P.insert(idx, X)
            if name == "insert":
                _model_simple(w, m, op)
                if w.kind[op[1]] == "A":
                    post = ("axial1", P, X, idx)
        elif name == "remove":
            P = w.objs[op[1]]
            method = _method(P, "remove")
            P.remove(_pick(P, op[2]))
            _model_simple(w, m, op)
        elif name == "removeForeign":
            P, X = w.objs[op[1]], w.objs[op[2]]
            method = _method(P, "remove") + "-nonchild"
            P.remove(X)
        elif name == "removeAll":
            P = w.objs[op[1]]
            method = _method(P, "removeAll")
            P.removeAll()
            _model_simple(w, m, op)
        elif name == "setChildren":
            P = w.objs[op[1]]
            method = _method(P, "setChildren")
            ks = [c for c in P]
            P.setChildren(ks[::-1] if op[2] == "rev" else ks[1:])
            _model_simple(w, m, op)
        elif name == "sort":
            P = w.objs[op[1]]
            method = _method(P, "sort")
            before = {}
            _child_lists(P, before)
            real_exc = None
            try:
                P.sort()
            except Exception as e:
                real_exc = type(e).__name__
            # the reference is computed AFTER the run under test (a component's '<' fills caches)
            acc = []
            try:
                _model_sort(P, before, acc)
                expect = None
            except Exception as e:  # the objects' own comparison refuses
                expect = type(e).__name__
            if "RecursionError" in (real_exc, expect):
                # e.g. two DerivedShapes in one block: '<' recurses without end, and whether it does depends
                # on cached values - no reference order exists; the children must still be the same objects
                _resync(w, m, viols, op)
                if check:
                    _cnt("sort:comparison-recurses-no-reference")
                return ("refused:" + real_exc) if real_exc else "ok", viols
            if real_exc is None and expect is None:
                changed = False
                for o, ks in acc:
                    new = [w.lab[id(c)] for c in ks]
                    if m.kids[w.lab[id(o)]] != new:
                        changed = True
                    m.kids[w.lab[id(o)]] = new
                if check:
                    _cnt("sort:reordered" if changed else "sort:noop")
            elif real_exc is not None and real_exc == expect and real_exc in CONTRACT["sort"]:
                # list.sort() documents that a failing comparison may leave the list partly permuted:
                # the children must still be the same objects; the model takes the order found.
                _resync(w, m, viols, op)
                if check:
                    _cnt("refused:sort")
                return "refused:" + real_exc, viols
            elif real_exc is None:
                viols.append(_v("sort-accepted-where-comparison-raises/" + method, "sorted() of the same children raises %s but %s succeeded" % (expect, method), w, op))
                _resync(w, m, viols, op)
            else:
                viols.append(_v("sort-raises-" + real_exc + "/" + method, "%s raised %s; sorted() of the same children %s" % (method, real_exc, "succeeds" if expect is None else "raises " + expect), w, op))
                _resync(w, m, viols, op)
                return "raised:" + real_exc, viols
        elif name == "reorder":
            P = w.objs[op[1]]
            method = _method(P, "reestablishBlockOrder")
            P.reestablishBlockOrder()
            post = ("axial", P)
        elif name == "replaceBlock":
            B, Bx = w.objs[op[1]], w.objs[op[2]]
            method = _method(B, "replaceBlockWithBlock")
            B.replaceBlockWithBlock(Bx)
            new = []
            for c in B:
                if id(c) in w.lab:
                    viols.append(_v("replace-reuses-node/" + method, "after replaceBlockWithBlock the block lists the pre-existing object %s" % w.L(c), w, op))
                    new.append(w.lab[id(c)])
                else:
                    l0 = len(w.objs)
                    new.append(w.label_tree(c))  # a copied group brings its own (new) children
                    for l in range(l0, len(w.objs)):
                        m.kids[l] = [w.lab[id(x)] for x in w.objs[l]]
            m.kids[op[1]] = new
            w.flags[op[1]] = fnames(B.p.flags)  # the block takes over the replacement's parameters, flags included
            if len(new) != len(m.kids[op[2]]) or [type(c) for c in B] != [type(w.objs[k]) for k in m.kids[op[2]]]:
                viols.append(_v("replace-shape/" + method, "replacement has %d children, block now has %d" % (len(m.kids[op[2]]), len(new)), w, op))
        elif name == "coreRemove":
            C = w.objs[w.cfg["core"]]
            method = _method(C, "removeAssembly")
            a = _pick(C, op[1])
            C.removeAssembly(a)
            _model_simple(w, m, op)
        elif name in ("coreAdd", "coreAddOcc"):
            C, X = w.objs[w.cfg["core"]], w.objs[op[1]]
            method = _method(C, "add") + ("-occupied" if name == "coreAddOcc" else "")
            if name == "coreAdd":
                cell = _free_cell(w)
                if cell is None:
                    return "noop", viols
            else:
                sl = _pick(C, 0).spatialLocator
                cell = (int(sl.i), int(sl.j))
            C.add(X, C.spatialGrid[cell[0], cell[1], 0])
            if name == "coreAdd":
                _model_simple(w, m, op)
                post = ("cell", C, X, cell)
        elif name == "coreAddPresent":
            C = w.objs[w.cfg["core"]]
            method = _method(C, "add") + "-present"
            X = _pick(C, -1)
            if op[1] == "free":
                cell = _free_cell(w)
                if cell is None:
                    return "noop", viols
                C.add(X, C.spatialGrid[cell[0], cell[1], 0])
            elif op[1] == "same":
                C.add(X, X.spatialLocator)
            else:
                C.add(X)
        elif name == "sfpAddPresent":
            S = w.objs[w.cfg["sfp"]]
            method = _method(S, "add") + "-present"
            S.add(_pick(S, 0))
        elif name == "sfpAdd":
            S, X = w.objs[w.cfg["sfp"]], w.objs[op[1]]
            method = _method(S, "add")
            S.add(X)
            _model_simple(w, m, op)
        else:
            raise RuntimeError("unknown op %r" % (op,))
    except Exception as e:
        exc = type(e).__name__
        if method is None:
            raise
        if exc == "RuntimeError" and "unknown op" in str(e):
            raise
        if exc in CONTRACT.get(name, ()):
            if check:
                _cnt("refused:" + name)
                now = snap(w)
                if now == pre:
                    w.unchanged = True  # the very state its parent history reached (and was checked in)
                if now != pre:
                    viols.append(
                        _v(
                            "refusal-mutates/" + method,
                            "%s refused with %s but the model changed: %s" % (op, exc, _snapdiff(pre, now)),
                            w,
                            op,
                        )
                    )
            return "refused:" + exc, viols
        if name in MISUSE:
            # refused, but not with the documented exception class
            now = snap(w)
            pre = pre if pre is not None else now
            viols.append(
                _v(
                    "misuse-raises-" + exc + "/" + method,
                    "%s raised %s (%s); documented refusal is %s; model %s" % (op, exc, str(e)[:120], "/".join(CONTRACT[name]), "unchanged" if now == pre else "changed: " + _snapdiff(pre, now)),
                    w,
                    op,
                )
            )
            return "raised:" + exc, viols
        # an operation of the alphabet raised: the property speaks about the tree afterwards - the edit
        # must have been applied completely or not at all
        real = {l: [w.L(c) for c in o] for l, o in enumerate(w.objs)}
        if real == m.kids:
            if check:
                _cnt("raised-unapplied:%s:%s" % (method, exc))
                now = snap(w)
                if now != pre:
                    viols.append(_v("refusal-mutates/" + method, "%s raised %s (%s) without applying the edit, but the model changed: %s" % (op, exc, str(e)[:100], _snapdiff(pre, now)), w, op))
            return "raised-unapplied:" + exc, viols
        m2 = Model.__new__(Model)
        m2.kids, m2.root = {k: list(v) for k, v in m.kids.items()}, m.root
        if _model_simple(w, m2, op) and real == m2.kids:
            m.kids = m2.kids
            if check:
                _cnt("raised-applied:%s:%s" % (method, exc))
            return "raised-applied:" + exc, viols
        viols.append(_v("op-fails-midway-" + exc + "/" + method, "%s raised %s (%s) and left the child lists neither as before nor as after the edit" % (op, exc, str(e)[:160]), w, op))
        return "raised:" + exc, viols
    if name in MISUSE:
        viols.append(_v("misuse-accepted/" + method, "%s was accepted (documented refusal: %s)" % (op, "/".join(CONTRACT[name])), w, op))
        return "accepted", viols
    if check and post:
        if post[0] == "axial":
            P = post[1]
            if P.spatialGrid is None or P.spatialGrid.armiObject is not P:
                viols.append(_v("axial-grid-owner/" + method, "after %s the assembly's grid is not owned by it" % (op,), w, op))
            for k, b in enumerate(P):
                sl = b.spatialLocator
                if not (isinstance(sl, grids.IndexLocation) and (sl.i, sl.j, sl.k) == (0, 0, k) and sl.grid is P.spatialGrid):
                    viols.append(_v("axial-order/" + method, "after %s block #%d sits at %r (grid %s)" % (op, k, sl, "own" if sl is not None and sl.grid is P.spatialGrid else "other"), w, op))
                    break
        elif post[0] == "axial1":
            _, P, X, idx = post
            sl = X.spatialLocator
            if not (isinstance(sl, grids.IndexLocation) and (sl.i, sl.j, sl.k) == (0, 0, idx) and sl.grid is P.spatialGrid):
                viols.append(_v("insert-locator/" + method, "after %s the inserted block sits at %r" % (op, sl), w, op))
        elif post[0] == "cell":
            _, C, X, cell = post
            sl = X.spatialLocator
            if not (sl is C.spatialGrid[cell[0], cell[1], 0]):
                viols.append(_v("core-add-locator/" + method, "after %s the assembly sits at %r, asked for %s" % (op, sl, cell), w, op))
    return "ok", viols


def _model_simple(w, m, op):
    """Reference semantics of the plain list edits.  False if ``op`` is not one of them."""
    name = op[0]
    if name == "add":
        m.kids[op[1]].append(op[2])
    elif name == "insert":
        m.kids[op[1]].insert(0 if op[2] == 0 else len(m.kids[op[1]]), op[3])
    elif name == "remove":
        m.kids[op[1]].pop(0 if op[2] == 0 else -1)
    elif name == "removeAll":
        m.kids[op[1]] = []
    elif name == "setChildren":
        mk = m.kids[op[1]]
        m.kids[op[1]] = mk[::-1] if op[2] == "rev" else mk[1:]
    elif name == "coreRemove":
        la = m.kids[w.cfg["core"]].pop(0 if op[1] == 0 else -1)
        if w.init.get("track"):
            m.kids[w.cfg["sfp"]].append(la)
    elif name == "coreAdd":
        m.kids[w.cfg["core"]].append(op[1])
    elif name == "sfpAdd":
        m.kids[w.cfg["sfp"]].append(op[1])
    else:
        return False
    return True


def _resync(w, m, viols, op):
    """After a (legitimately) failed sort: same children, possibly permuted."""
    for l, o in enumerate(w.objs):
        real = [w.L(c) for c in o]
        if real != m.kids[l]:
            if sorted(map(str, real)) != sorted(map(str, m.kids[l])):
                viols.append(_v("sort-changes-membership", "after failed sort node %d lists %s, had %s" % (l, real, m.kids[l]), w, op))
            else:
                m.kids[l] = real


def _snapdiff(a, b):
    out = []
    for x, y in zip(a, b):
        if x != y:
            for nm, u, v in zip(("label", "parent", "children", "name/type/flags", "locator", "grid"), x, y):
                if u != v:
                    out.append("node %s %s: %s -> %s" % (x[0], nm, u, v))
    if len(a) != len(b):
        out.append("%d -> %d labelled nodes" % (len(a), len(b)))
    return "; ".join(out[:4])


_CASE = {}


def _v(key, msg, w, op=None):
    return core.viol("c01/" + key, "[shape %s%s] %s" % (w.init["shape"], w.init["n"] or "", msg), dict(_CASE))


# ---------------------------------------------------------------------------------------------
# invariants of a state


def naive_deep(o):
    """Own children first, then each child's descendants the same way (order of _iterChildren)."""
    ks = [c for c in o]
    out = list(ks)
    for c in ks:
        out += naive_deep(c)
    return out


def naive_gen(o, g):
    ks = [c for c in o]
    if g == 1:
        return ks
    out = []
    for c in ks:
        out += naive_gen(c, g - 1)
    return out


def naive_components(o):
    """Leaf components beneath ``o`` in child order."""
    from armi.reactor.components import Component

    out = []
    for c in o:
        if isinstance(c, Component):
            out.append(c)
        else:
            out += naive_components(c)
    return out


def flag_match(names, spec, exact):
    """Reference semantics of hasFlags on flag *names*: spec None/empty matches iff not exact; a list
    is OR over its elements; a Flags value matches if all its names are present (exact: equal)."""
    if spec is None:
        return not exact
    if isinstance(spec, list):
        return any(flag_match(names, s, exact) for s in spec)
    if not names:
        return False
    return names == spec if exact else spec <= names


SPECS = [None, ["FUEL"], ["CLAD"], ["FUEL", "CLAD"], [["FUEL"], ["DUCT"]], ["CONTROL"], ["FUEL", "IGNITER"], ["PLENUM"], ["WIRE"], [["WIRE"], ["FUEL"]]]


def _spec_real(s):
    from armi.reactor.flags import Flags

    if s is None:
        return None
    if isinstance(s[0], list):
        return [_spec_real(x) for x in s]
    f = Flags(0)
    for n in s:
        f = f | Flags[n]
    return f


def _spec_ref(s):
    if s is None:
        return None
    if isinstance(s[0], list):
        return [frozenset(x) for x in s]
    return frozenset(s)


def check_structure(w, m, tag):
    """Oracle (1),(2): real child lists vs model; parent pointers; single parenthood; detachment."""
    from armi.reactor import grids

    viols = []
    listed = {}
    for l, o in enumerate(w.objs):
        real = [c for c in o]
        rl = [w.L(c) for c in real]
        if rl != m.kids[l]:
            viols.append(_v("child-list-mismatch/after-" + tag, "node %s lists %s, reference model says %s" % (l, rl, m.kids[l]), w))
        if len(set(id(c) for c in real)) != len(real):
            viols.append(_v("duplicate-child/after-" + tag, "node %s lists a child twice: %s" % (l, rl), w))
        if len(o) != len(real):
            viols.append(_v("len-mismatch", "len(node %s)=%d but iteration gives %d" % (l, len(o), len(real)), w))
        for c in real:
            if c.parent is not o:
                viols.append(_v("child-parent-mismatch/after-" + tag, "node %s lists %s whose parent is %s" % (l, w.L(c), None if c.parent is None else w.L(c.parent)), w))
            listed.setdefault(id(c), []).append(l)
        g = o.spatialGrid
        if g is not None and g.armiObject is not o:
            viols.append(_v("grid-owner-mismatch", "grid of node %s is owned by %s" % (l, None if g.armiObject is None else w.L(g.armiObject)), w))
        # measured, not asserted (the statement speaks of locators only for removed objects and copies)
        for c in real:
            sl = c.spatialLocator
            if sl is not None and sl.grid is not None and sl.grid is not o.spatialGrid:
                _cnt("note:attached-child-locator-in-foreign-grid")
    for i, ls in listed.items():
        if len(ls) > 1:
            viols.append(_v("listed-by-two-parents/after-" + tag, "node %s is listed by %s" % (w.lab.get(i, "?"), ls), w))
    for x in m.pool():
        o = w.objs[x]
        if o.parent is not None:
            viols.append(_v("detached-has-parent/after-" + tag, "node %s is in no child list but has parent %s" % (x, w.L(o.parent)), w))
        sl = o.spatialLocator
        if sl is not None and sl.grid is not None:
            viols.append(_v("detached-locator-attached/after-" + tag, "node %s is out of the model but its locator %r is still in the grid of %s" % (x, sl, _own(w, sl.grid)), w))
        if isinstance(sl, grids.MultiIndexLocation):
            att = [l for l in sl if l.grid is not None]
            if att:
                viols.append(
                    _v(
                        "detached-multilocation-sublocations-attached",
                        "node %s is out of the model, its multi-location reports grid None, but %d of its %d sub-locations are still in the grid of node %s" % (x, len(att), len(sl), _own(w, att[0].grid)),
                        w,
                    )
                )
    _cnt("states:structure-checked")
    return viols


def list_queries(w, l, o):
    """Every query of ``o`` that hands out a container: (name, thunk).  Used by the aliasing oracle
    (a result is a snapshot the caller owns, never a view of the model)."""
    from armi.reactor.components import Component
    from armi.reactor.flags import Flags

    qs = [
        ("getChildren", lambda: o.getChildren()),
        ("getChildren-deep", lambda: o.getChildren(deep=True)),
        ("getChildren-generation", lambda: o.getChildren(generationNum=2)),
        ("getChildren-includeMaterials", lambda: o.getChildren(includeMaterials=True)),
        ("getChildren-predicate", lambda: o.getChildren(predicate=lambda z: True)),
        ("getChildren-deep-predicate", lambda: o.getChildren(deep=True, predicate=lambda z: isinstance(z, Component))),
        ("getComponents", lambda: o.getComponents()),
        ("getComponents-flags", lambda: o.getComponents(Flags.FUEL)),
        ("getChildrenWithFlags", lambda: o.getChildrenWithFlags(None)),
        ("getChildrenWithFlags-flags", lambda: o.getChildrenWithFlags(Flags.FUEL)),
        ("add-operator", lambda: o + o),
    ]
    ks = [c for c in o]
    if ks and all(_gettype(c) is not None for c in ks):
        t0 = _gettype(ks[0])
        qs.append(("getChildrenOfType", lambda: o.getChildrenOfType(t0)))
    if w.kind[l] == "C":
        qs += [
            ("Core.getAssemblies", lambda: o.getAssemblies()),
            ("Core.getAssemblies-flags", lambda: o.getAssemblies(Flags.FUEL)),
            ("Core.getAssemblies-includeSFP", lambda: o.getAssemblies(includeSFP=True)),
            ("Core.getBlocks", lambda: o.getBlocks()),
            ("Core.getBlocks-flags", lambda: o.getBlocks(Flags.FUEL)),
        ]
    if w.kind[l] == "A":
        qs += [("Assembly.getBlocks", lambda: o.getBlocks()), ("Assembly.getBlocks-flags", lambda: o.getBlocks(Flags.FUEL))]
    return qs


def struct(w):
    """Child lists and parents of every labelled object, by identity (cheap)."""
    return [(id(o.parent), [id(c) for c in o]) for o in w.objs]


def check_aliasing(w, m):
    """Whatever a caller does to a returned container (append a foreign node, pop, reverse, clear)
    leaves the model alone, and the next call gives the same answer."""
    viols = []
    before = struct(w)
    foreign = w.objs[w.root]
    n = 0
    for l, o in enumerate(w.objs):
        if w.kind[l] == "K":
            continue
        for qn, q in list_queries(w, l, o):
            try:
                first = q()
                if not isinstance(first, list):
                    viols.append(_v("query-returns-no-list/" + qn, "node %s: %s returns a %s" % (l, qn, type(first).__name__), w))
                    continue
                ref = list(first)
                r = q()
                r.append(foreign)
                r.reverse()
                r = q()
                if r:
                    r.pop()
                r.clear()
                n += 4
                again = q()
            except Exception as e:
                viols.append(_v("query-alias-raises-%s/%s" % (type(e).__name__, qn), "node %s: %s raised %s while its results were being edited: %s" % (l, qn, type(e).__name__, str(e)[:120]), w))
                return viols
            if struct(w) != before:
                viols.append(_v("query-result-is-a-view/" + qn, "node %s: editing the container returned by %s (append/pop/reverse/clear) changed the model's child lists" % (l, qn), w))
                return viols  # the model is damaged now
            if len(again) != len(ref) or any(a is not b for a, b in zip(again, ref)):
                viols.append(_v("query-result-not-reproducible/" + qn, "node %s: %s answers differently after an earlier result was edited" % (l, qn), w))
                return viols
    _cnt("aliasing:result-edits", n)
    return viols


def take_views(w):
    """Results handed out BEFORE an edit (with a private copy each)."""
    out = []
    for l, o in enumerate(w.objs):
        if w.kind[l] == "K":
            continue
        for qn, q in list_queries(w, l, o):
            try:
                r = q()
            except Exception:
                continue
            if isinstance(r, list):
                out.append((l, qn, r, list(r)))
    return out


def check_views(w, views, op):
    """... are not changed by the edit: query results are snapshots."""
    viols = []
    seen = set()
    for l, qn, r, saved in views:
        if (len(r) != len(saved) or any(a is not b for a, b in zip(r, saved))) and qn not in seen:
            seen.add(qn)
            viols.append(_v("query-result-changed-by-later-edit/" + qn, "node %s: a list obtained from %s before %s had %d items, after the edit it has %d" % (l, qn, op, len(saved), len(r)), w))
    _cnt("aliasing:views-held-across-edit", len(views))
    return viols


def check_queries(w, m):
    """Oracle (3): every traversal query against the naive walk."""
    from armi.reactor.components import Component

    viols = []
    nq = 0
    seen_keys = set()

    def bad(q, msg):
        if q not in seen_keys:  # one per query kind and state
            seen_keys.add(q)
            viols.append(_v("query/" + q, msg, w))

    def labs(xs):
        return [w.lab.get(id(x), "?" if hasattr(x, "spatialLocator") else "mat") for x in xs]

    def same(got, exp):
        return len(got) == len(exp) and all(a is b for a, b in zip(got, exp))

    specs = [(s, _spec_real(s), _spec_ref(s)) for s in SPECS]
    preds = [
        ("isComponent", lambda o: isinstance(o, Component)),
        ("hasChildren", lambda o: len(o) > 0),
        ("evenLabel", lambda o: w.lab.get(id(o), 1) % 2 == 0),
    ]
    types = sorted(set(str(t) for t in (_gettype(o) for o in w.objs) if t is not None)) + ["no such type"]
    par = m.parents()
    for l, o in enumerate(w.objs):
        if w.kind[l] == "K":
            continue
        try:
            ks = [c for c in o]
            deep = naive_deep(o)
            for qn, got in (("getChildren", o.getChildren()), ("iterChildren", list(o.iterChildren())), ("getitem", [o[i] for i in range(len(ks))])):
                nq += 1
                if not same(got, ks):
                    bad(qn, "node %s: %s gives %s, child list is %s" % (l, qn, labs(got), labs(ks)))
            nq += 2
            got = o.getChildren(deep=True)
            if not same(got, deep):
                bad("getChildren-deep", "node %s: getChildren(deep=True) gives %s, naive walk %s" % (l, labs(got), labs(deep)))
            got = list(o.iterChildren(deep=True))
            if not same(got, deep):
                bad("iterChildren-deep", "node %s: iterChildren(deep=True) gives %s, naive walk %s" % (l, labs(got), labs(deep)))
            for g in (1, 2, 3, 4):
                nq += 1
                got = o.getChildren(generationNum=g)
                exp = naive_gen(o, g)
                if not same(got, exp):
                    bad("getChildren-generation", "node %s: getChildren(generationNum=%d) gives %s, naive walk %s" % (l, g, labs(got), labs(exp)))
            nq += 1
            try:
                got = o.getChildren(deep=True, generationNum=2)
                bad("deep-and-generation-accepted", "node %s: getChildren(deep=True, generationNum=2) returned %s instead of raising" % (l, labs(got)))
            except RuntimeError:
                pass
            for dp in (False, True):
                nq += 1
                got = o.getChildren(deep=dp, includeMaterials=True)
                exp = []
                for c in deep if dp else ks:
                    exp.append(c)
                    if getattr(c, "material", None) is not None:
                        exp.append(c.material)
                if not same(got, exp):
                    bad("getChildren-includeMaterials", "node %s: getChildren(deep=%s, includeMaterials=True) gives %d items %s, expected %d %s" % (l, dp, len(got), labs(got), len(exp), labs(exp)))
            comps = naive_components(o)
            for s, sr, sf in specs:
                for ex in (False, True):
                    nq += 3
                    exp = [c for c in comps if flag_match(w.flags[w.lab[id(c)]], sf, ex)] if all(id(c) in w.lab for c in comps) else None
                    if exp is not None:
                        got = o.getComponents(sr, ex)
                        if not same(got, exp):
                            bad("getComponents", "node %s: getComponents(%s, exact=%s) gives %s, naive walk %s" % (l, s, ex, labs(got), labs(exp)))
                        got = list(o.iterComponents(sr, ex))
                        if not same(got, exp):
                            bad("iterComponents", "node %s: iterComponents(%s, exact=%s) gives %s, naive walk %s" % (l, s, ex, labs(got), labs(exp)))
                        nq += 1
                        got = o.getNumComponents(sr, ex)
                        want = sum(int(c.getDimension("mult")) for c in exp)
                        if got != want:
                            bad("getNumComponents", "node %s: getNumComponents(%s, exact=%s) gives %s, naive leaf walk (sum of mult over %s) %s" % (l, s, ex, got, labs(exp), want))
                        if s is None or isinstance(s[0], list) or len(s) == 1:
                            # a list asks for ALL of its elements to be present (a multi-bit scalar is left out:
                            # Flags values are themselves iterable)
                            nq += 1
                            elems = sf if isinstance(sf, list) else [sf]
                            want = all(any(flag_match(w.flags[w.lab[id(c)]], e, ex) for c in comps) for e in elems)
                            got = bool(o.hasComponents(sr, ex))
                            if got != want:
                                bad("hasComponents", "node %s: hasComponents(%s, exact=%s) gives %s, naive leaf walk says %s" % (l, s, ex, got, want))
                    if all(id(c) in w.lab for c in ks):
                        exp = [c for c in ks if flag_match(w.flags[w.lab[id(c)]], sf, ex)]
                        got = o.getChildrenWithFlags(sr, ex)
                        if not same(got, exp):
                            bad("getChildrenWithFlags", "node %s: getChildrenWithFlags(%s, exactMatch=%s) gives %s, naive walk %s" % (l, s, ex, labs(got), labs(exp)))
            for t in types if all(_gettype(c) is not None for c in ks) else []:  # Core/ExcoreStructure define no type parameter
                nq += 1
                exp = [c for c in ks if _gettype(c) == t]
                got = o.getChildrenOfType(t)
                if not same(got, exp):
                    bad("getChildrenOfType", "node %s: getChildrenOfType(%r) gives %s, naive walk %s" % (l, t, labs(got), labs(exp)))
            for pn, pf in preds:
                nq += 3
                for qn, got, exp in (
                    ("predicate", o.getChildren(predicate=pf), [c for c in ks if pf(c)]),
                    ("predicate-deep", o.getChildren(deep=True, predicate=pf), [c for c in deep if pf(c)]),
                    ("predicate-generation", o.getChildren(generationNum=2, predicate=pf), [c for c in naive_gen(o, 2) if pf(c)]),
                ):
                    if not same(got, exp):
                        bad("getChildren-" + qn, "node %s: getChildren(%s %s) gives %s, naive walk %s" % (l, qn, pn, labs(got), labs(exp)))
            # membership, index
            kidset = set(id(c) for c in ks)
            for x in w.objs:
                nq += 1
                if (x in o) != (id(x) in kidset):
                    bad("contains", "node %s: (%s in node) is %s, child list says %s" % (l, w.L(x), x in o, id(x) in kidset))
            for i, c in enumerate(ks):
                nq += 1
                try:
                    got = o.index(c)
                except ValueError:
                    got = None
                if got != i:
                    bad("index", "node %s: index(child #%d) gives %s" % (l, i, got))
        except Exception as e:  # a query that raises is a wrong answer, not a harness problem
            import traceback

            fr = traceback.extract_tb(e.__traceback__)[-1]
            bad("raises-%s/%s" % (type(e).__name__, fr.name), "node %s: a traversal query raised %s (%s) in %s" % (l, type(e).__name__, str(e)[:120], fr.name))
    # core/assembly level conveniences: same objects as the naive walk (their order is by location)
    for l, o in enumerate(w.objs):
        try:
            if w.kind[l] == "C":
                nq += 2
                ks = [c for c in o]
                got = o.getAssemblies()
                if sorted(map(id, got)) != sorted(map(id, ks)):
                    bad("Core.getAssemblies", "core: getAssemblies() gives %s, child list %s" % (labs(got), labs(ks)))
                got = o.getBlocks()
                exp = [b for a in ks for b in a]
                if sorted(map(id, got)) != sorted(map(id, exp)):
                    bad("Core.getBlocks", "core: getBlocks() gives %s, naive walk %s" % (labs(got), labs(exp)))
            elif w.kind[l] == "A":
                nq += 1
                got = o.getBlocks()
                if not same(got, [c for c in o]):
                    bad("Assembly.getBlocks", "node %s: getBlocks() gives %s, child list %s" % (l, labs(got), labs([c for c in o])))
        except Exception as e:
            bad("raises-%s/getAssemblies-getBlocks" % type(e).__name__, "node %s: %s" % (l, str(e)[:120]))
    # ancestors (reference: parent chain of the MODEL)
    for l, o in enumerate(w.objs):
        chain = [l]
        while chain[-1] in par:
            chain.append(par[chain[-1]])
        targets = chain + [x for x in (w.root, len(w.objs) - 1) if x not in chain][:1]
        for t in targets:
            nq += 2
            tobj = w.objs[t]
            exp = (tobj, chain.index(t)) if t in chain else None
            got = o.getAncestor(lambda z: z is tobj)
            if got is not (exp[0] if exp else None):
                bad("getAncestor", "node %s: getAncestor(is node %s) gives %s, parent chain is %s" % (l, t, None if got is None else w.L(got), chain))
            got = o.getAncestorAndDistance(lambda z: z is tobj)
            if (got is None) != (exp is None) or (got is not None and (got[0] is not exp[0] or got[1] != exp[1])):
                bad("getAncestorAndDistance", "node %s: getAncestorAndDistance(is node %s) gives %s, parent chain is %s" % (l, t, None if got is None else (w.L(got[0]), got[1]), chain))
        for s, sr, sf in specs[1:]:
            for ex in (False, True):
                nq += 1
                exp = None
                for c in chain:
                    if flag_match(w.flags[c], sf, ex):
                        exp = w.objs[c]
                        break
                got = o.getAncestorWithFlags(sr, exactMatch=ex)
                if got is not exp:
                    bad("getAncestorWithFlags", "node %s: getAncestorWithFlags(%s, exactMatch=%s) gives %s, reference %s (chain %s)" % (l, s, ex, None if got is None else w.L(got), None if exp is None else w.L(exp), chain))
    _cnt("queries:evaluated", nq)
    return viols


def _gettype(o):
    try:
        return o.getType()
    except AttributeError:
        return None


# ---------------------------------------------------------------------------------------------
# copy / pickle oracle


def _walk(o, acc):
    acc.append(o)
    for c in o:
        _walk(c, acc)
    return acc


def _parts(nodes):
    """ids of nodes, grids, locators (and sub-locations) of a tree."""
    from armi.reactor import grids

    ns, gs, ls = set(), set(), set()
    for o in nodes:
        ns.add(id(o))
        if o.spatialGrid is not None:
            gs.add(id(o.spatialGrid))
        sl = o.spatialLocator
        if sl is not None:
            ls.add(id(sl))
            if isinstance(sl, grids.MultiIndexLocation):
                for s in sl:
                    ls.add(id(s))
    return ns, gs, ls


def _locdesc(sl):
    from armi.reactor import grids

    if sl is None:
        return None
    if isinstance(sl, grids.MultiIndexLocation):
        return ("M", tuple(tuple(int(x) for x in l.indices) for l in sl))
    return (type(sl).__name__, float(sl.i), float(sl.j), float(sl.k))


def check_copy(w, o, c, how):
    """Oracle (4) for one original ``o`` and its copy ``c`` made by ``how``."""
    from armi.reactor import cores, grids, reactors
    from armi.reactor.components import Component

    viols = []
    keys = set()

    def bad(k, msg):
        if k not in keys:
            keys.add(k)
            viols.append(_v("copy-%s/%s/%s" % (how, type(o).__name__, k), "%s of node %s: %s" % (how, w.L(o), msg), w))

    onodes = _walk(o, [])
    ons, ogs, ols = _parts(onodes)
    if o.parent is not None and o.parent.spatialGrid is not None:
        ogs.add(id(o.parent.spatialGrid))
    if c is o:
        bad("same-object", "returned the original")
        return viols
    if c.parent is not None:
        bad("root-has-parent", "the copy's parent is %r" % (c.parent,))
    sl = c.spatialLocator
    if sl is not None and sl.grid is not None and id(sl.grid) in ogs:
        bad("root-locator-in-original-grid", "the copy's locator is still in a grid of the original model")
    stack = [(o, c, "0")]
    cmap = {}
    while stack:
        a, b, path = stack.pop()
        cmap[id(a)] = b
        if type(a) is not type(b):
            bad("class", "at %s: %s vs %s" % (path, type(a).__name__, type(b).__name__))
            continue
        if id(b) in ons:
            bad("shares-node", "at %s the copy contains the original object %s" % (path, w.L(b)))
            continue
        expname = a.name + ("-copy" if how == "deepcopy" and isinstance(a, (cores.Core, reactors.Reactor)) else "")
        if b.name != expname:
            bad("name", "at %s: name %r, original %r" % (path, b.name, a.name))
        if _locdesc(a.spatialLocator) != _locdesc(b.spatialLocator):
            bad("locator-value", "at %s: locator %s, original %s" % (path, _locdesc(b.spatialLocator), _locdesc(a.spatialLocator)))
        ga, gb = a.spatialGrid, b.spatialGrid
        if (ga is None) != (gb is None):
            bad("grid-presence", "at %s: grid %s, original %s" % (path, gb, ga))
        elif gb is not None:
            if gb is ga or id(gb) in ogs:
                bad("shares-grid", "at %s the copy holds a grid of the original" % path)
            if gb.armiObject is not b:
                bad("grid-owner", "at %s: the copied grid's owner is %s, not the copied node" % (path, "None" if gb.armiObject is None else ("the ORIGINAL node" if gb.armiObject is a else repr(gb.armiObject))))
            if type(ga) is not type(gb):
                bad("grid-class", "at %s" % path)
        ka, kb = [x for x in a], [x for x in b]
        if len(ka) != len(kb):
            bad("shape", "at %s: %d children, original %d" % (path, len(kb), len(ka)))
            continue
        if len(b) != len(kb):
            bad("len", "at %s" % path)
        for i, (x, y) in enumerate(zip(ka, kb)):
            if y.parent is not b:
                bad("child-parent", "at %s.%d: child.parent is %s" % (path, i, "None" if y.parent is None else ("the ORIGINAL parent" if y.parent is a else repr(y.parent))))
            lx, ly = x.spatialLocator, y.spatialLocator
            if ly is not None:
                if id(ly) in ols:
                    bad("shares-locator", "at %s.%d the copy holds a locator object of the original" % (path, i))
                pairs = [(lx, ly)]
                if isinstance(lx, grids.MultiIndexLocation) and isinstance(ly, grids.MultiIndexLocation) and len(lx) == len(ly):
                    pairs += list(zip(list(lx), list(ly)))
                    if ly.grid is gb and gb is not None and all(u.grid is lx.grid for u in lx) and any(v.grid is not gb for v in ly):
                        bad("multilocation-sublocations-not-relinked", "at %s.%d: the copied multi-location is in its new parent's grid but %d of its sub-locations are not" % (path, i, len([v for v in ly if v.grid is not gb])))
                for u, v in pairs:
                    if id(v) in ols:
                        bad("shares-locator", "at %s.%d the copy holds a (sub-)locator object of the original" % (path, i))
                    gu, gv = u.grid, v.grid
                    if gv is not None and id(gv) in ogs:
                        bad("locator-in-original-grid", "at %s.%d: the copied child's locator is in a grid of the ORIGINAL" % (path, i))
                    elif gu is not None and gu is ga:
                        if gv is not gb:
                            bad("locator-grid", "at %s.%d: original child is located in its parent's grid, the copied child's locator has grid %s" % (path, i, "None" if gv is None else "of another object"))
                    elif gu is None and gv is not None and gv is not gb:
                        bad("locator-grid-foreign", "at %s.%d: copied child's locator got a grid that is not its parent's" % (path, i))
            stack.append((x, y, "%s.%d" % (path, i)))
        if isinstance(a, Component):
            for dn in a.DIMENSION_NAMES:
                rb = b.p[dn]
                if isinstance(rb, tuple) and len(rb) == 2 and isinstance(rb[0], Component):
                    if id(rb[0]) in ons:
                        bad("shares-linked-component", "at %s: dimension %s of the copy links to a component of the ORIGINAL" % (path, dn))
        if isinstance(a, reactors.Reactor):
            if b.core is not None and id(b.core) in ons:
                bad("shares-node-core-attr", "copy.core is the ORIGINAL core")
            if (a.core is None) != (b.core is None) or (b.core is not None and b.core not in [x for x in b]):
                bad("core-attr", "copy.core is not the copy's own core child")
            for k, v in dict(b.excore).items():
                if id(v) in ons:
                    bad("shares-node-excore", "copy.excore[%r] is an ORIGINAL object" % k)
        if isinstance(a, cores.Core):
            for tabname in ("assembliesByName", "blocksByName", "childrenByLocator"):
                for v in getattr(b, tabname, {}).values():
                    if id(v) in ons:
                        bad("shares-node-" + tabname, "copy.%s still refers to an ORIGINAL object" % tabname)
                        break
    _cnt("copies:verified")
    return viols


def check_copies(w, m):
    import copy
    import pickle

    viols = []
    # the root and the interior nodes on the first-container path below it
    targets = [w.objs[w.root]]
    cur = targets[0]
    while True:
        nxt = [c for c in cur if w.kind[w.lab[id(c)]] != "K"] if all(id(c) in w.lab for c in cur) else []
        if not nxt:
            break
        cur = nxt[0]
        targets.append(cur)
    before = snap(w)
    for o in targets:
        for how, f in (("deepcopy", copy.deepcopy), ("pickle", lambda z: pickle.loads(pickle.dumps(z)))):
            try:
                c = f(o)
            except Exception as e:
                viols.append(_v("copy-%s/%s/raises-%s" % (how, type(o).__name__, type(e).__name__), "%s of node %s raises %s: %s" % (how, w.L(o), type(e).__name__, str(e)[:160]), w))
                continue
            viols += check_copy(w, o, c, how)
    after = snap(w)
    if after != before:
        viols.append(_v("copy-changes-original", "copying changed the original: %s" % _snapdiff(before, after), w))
    return viols


# ---------------------------------------------------------------------------------------------
# expand / run / evaluate


def expand(item):
    global _CASE
    init, hist, outs = item["init"], item["hist"], item.get("outs", [])
    _CASE = {"init": init, "hist": hist, "outs": outs}
    w = build_world(init, nocache=bool(item.get("_nocache")))
    m = Model(w)
    viols, out = [], "ok"
    tag = "build"
    tol = init.get("tolerate") or []

    def drop(vs):
        keep = []
        for v in vs:
            if v["key"] in tol:
                _cnt("tolerated:" + v["key"])
            else:
                keep.append(v)
        return keep

    for k, op in enumerate(hist):
        last = k == len(hist) - 1
        views = take_views(w) if last else None
        out, vs = apply(w, m, op, last)
        if last and not vs:
            vs = vs + check_views(w, views, op)
        if not last:
            if vs:
                raise RuntimeError("violation while replaying the prefix (the prefix state was violation-free when first explored): %s" % vs[0]["msg"])
            if k < len(outs) and out != outs[k]:
                raise RuntimeError("prefix replay diverged at %d: %s gave %s, recorded %s" % (k, op, out, outs[k]))
        else:
            viols += drop(vs)
            tag = op[0]
    if not viols:
        viols += drop(check_structure(w, m, tag))
    if not viols and not getattr(w, "unchanged", False):
        # (after a clean refusal the snapshot - which is the canonical form - equals that of the parent
        # history's state, where queries and copies have been checked)
        viols += drop(check_queries(w, m))
        viols += drop(check_copies(w, m))
    if out != "ok" and not viols and hist:
        _cnt("outcome:" + out.split(":")[0])
    res = {
        "canon": canon(w, m),
        "full": full_digest(w, m) if not viols else None,
        "ops": enabled_ops(w, m) if not viols else [],
        "out": out,
        # never terminal: a refusal that leaves the state where it was has the canonical form of its
        # parent state (already seen, not extended again); a refused sort may leave siblings permuted -
        # such a state must be extended like any other, or the explored set would depend on the order
        "terminal": False,
    }
    if not viols and not getattr(w, "unchanged", False):
        # last of all, after everything else has been read off this execution: if a result were a view,
        # this oracle's own edits would damage the model
        viols += drop(check_aliasing(w, m))
        if viols:
            res["full"], res["ops"] = None, []
    res["viols"] = viols[:6]
    return res


def evaluate(case):
    return expand({"init": case["init"], "hist": case["hist"], "outs": case.get("outs", [])})["viols"]


def audit_item(item):
    """Cached-blueprint build vs. a build that parses the blueprints again: same result?"""
    a = expand(dict(item))
    b = expand(dict(item, _nocache=True))
    return {"same": a["canon"] == b["canon"] and a["full"] == b["full"] and a["out"] == b["out"], "ops": a["ops"]}


def selftest():
    """The oracles must see deliberate damage (done through private attributes, on scratch objects)."""
    import copy

    init = {"shape": "a", "n": 7, "seed": 0}
    seen = 0

    def fresh():
        w = build_world(init)
        return w, Model(w)

    def s_parent(w):
        w.objs[3].parent = None

    def s_dup(w):
        w.objs[0]._children.append(w.objs[1])

    def s_two(w):
        w.objs[2]._children.append(w.objs[3])

    def s_pool(w):
        w.objs[5].parent = w.objs[0]

    def s_loc(w):
        w.objs[6].spatialLocator = w.objs[0].spatialGrid[0, 0, 0]

    def s_grid(w):
        w.objs[1].spatialGrid.armiObject = w.objs[2]

    for f in (s_parent, s_dup, s_two, s_pool, s_loc, s_grid):
        w, m = fresh()
        f(w)
        if not check_structure(w, m, "selftest"):
            raise core.HarnessError("C01 selftest: structure oracle is blind to %s" % f.__name__)
        seen += 1

    def c_parent(o, c):
        c[0].parent = o

    def c_share(o, c):
        c._children[0] = o[0]

    def c_grid(o, c):
        c.spatialGrid.armiObject = o

    def c_loc(o, c):
        c[0].spatialLocator = o.spatialGrid[2, 0, 0]

    def c_shape(o, c):
        c[0]._children.pop()

    def c_root(o, c):
        c.parent = o

    def c_detached(o, c):
        c[1].spatialLocator = c[1].spatialLocator.detachedCopy()

    for f in (c_parent, c_share, c_grid, c_loc, c_shape, c_root, c_detached):
        w, m = fresh()
        o = w.objs[0]
        c = copy.deepcopy(o)
        if check_copy(w, o, c, "deepcopy"):
            break  # the code under test already copies wrongly: the search below reports it
        f(o, c)
        if not check_copy(w, o, c, "deepcopy"):
            raise core.HarnessError("C01 selftest: copy oracle is blind to %s" % f.__name__)
        seen += 1

    # a traversal that reorders must be seen by the query oracle
    w, m = fresh()
    real = type(w.objs[0]).getChildren

    def lying(self, deep=False, generationNum=1, includeMaterials=False, predicate=None):
        out = real(self, deep=deep, generationNum=generationNum, includeMaterials=includeMaterials, predicate=predicate)
        return out[::-1] if deep else out

    type(w.objs[0]).getChildren = lying
    try:
        vs = check_queries(w, m)
    finally:
        del type(w.objs[0]).getChildren  # Generic defines none of its own
    if not any("deep" in v["key"] for v in vs):
        raise core.HarnessError("C01 selftest: query oracle is blind to a reversed deep traversal")
    seen += 1
    _CNT.clear()
    return seen


def run(ctx):
    total = {}
    ctx.count("selftest:deliberate-damages-seen", selftest())
    closure_by_shape = {}
    t_by_shape = {}
    blocked = {}
    for name, init, depth in inits(ctx):
        t0 = time.time()
        ctx.log("shape %s: %s" % (name, "to closure" if depth is None else "depth %d" % depth))
        nv = len(ctx.violations)
        dd, cap = (depth if depth is not None else CLOSURE_DEPTH), (CLOSURE_CAP[ctx.tier] if depth is None else None)
        st = explore.bfs(ctx, MOD, [init], dd, max_states=cap)
        tol = []
        for _pass in range(3):
            # a state with a violation is not extended; for a violation of a pure observer (model and
            # tree still in step) the search is repeated with that class tolerated (it has been
            # reported above), so that the states *behind* it are explored as well
            more = sorted(k for k in set(v["key"] for v in ctx.violations[nv:]) if tolerable(k) and k not in tol)
            if not more:
                break
            tol = sorted(tol + more)
            ctx.log("shape %s: repeating with %s tolerated (reported above) to reach the states behind" % (name, tol))
            blocked.setdefault(name, {"states": st["states"], "transitions": st["transitions"]})["tolerated"] = tol
            st = explore.bfs(ctx, MOD, [dict(init, tolerate=tol)], dd, max_states=cap)
        explore.merge_stats(total, st)
        # explore.bfs reports closure=True whenever the depth bound is reached (its last level is never
        # extended); closure is claimed here only if the last executed level found no new canonical state
        # or if the frontier ran empty before the bound (states with a violation are never extended, so
        # with violations present "closure" is closure of the violation-free part)
        total["searches"][-1]["closure"] = bool(st["levels"]) and (len(st["levels"]) < dd + 1 or st["levels"][-1]["new_states"] == 0) and not st["capped"]
        st["closure"] = total["searches"][-1]["closure"]
        total["searches"][-1]["shape"] = name
        total["searches"][-1]["states"] = st["states"]
        total["searches"][-1]["transitions"] = st["transitions"]
        closure_by_shape[name] = bool(st["closure"])
        t_by_shape[name] = round(time.time() - t0, 1)
        ctx.count("states:" + name, st["states"])
    # audit of the per-worker blueprint cache (shapes b, c): every history of length <= 2 of the small shapes
    naudit = 0
    for name, init, depth in inits(ctx):
        if init["shape"] not in ("b", "c") or init["n"] != 5:
            continue
        lvl = [{"init": init, "hist": [], "outs": []}]
        for d in range(3):
            res = core.pmap(MOD, "audit_item", lvl)
            naudit += len(res)
            if not all(r["same"] for r in res):
                raise core.HarnessError("C01: cached and uncached blueprint builds differ for shape %s" % name)
            lvl = [{"init": init, "hist": it["hist"] + [op], "outs": []} for it, r in zip(lvl, res) for op in r["ops"]][:150]
    ctx.count("audit:cached-vs-uncached-builds-compared", naudit)
    # counters from the workers
    workers = int(os.environ.get("VERIF_WORKERS", "16"))
    got = {}
    pids = set()
    for attempt in range(3):
        res = core.pmap(MOD, "_collect", [{"sleep": 0.3 + 0.3 * attempt, "i": i} for i in range(max(4, workers))], chunksize=1)
        for r in res:
            pids.add(r["pid"])
            for k, v in r["cnt"].items():
                got[k] = got.get(k, 0) + v
    got["collect:worker-processes-reporting"] = len(pids)
    for k, v in dict(_CNT).items():
        got[k] = got.get(k, 0) + v
    _CNT.clear()
    for k, v in sorted(got.items()):
        ctx.count(k, v)
    if got.get("note:attached-child-locator-in-foreign-grid"):
        ctx.notes.append(
            "%d observations of an attached child whose locator lives in a grid that is not its parent's (replaceBlockWithBlock leaves the new components in the grid of its throw-away copy): measured, not asserted - the statement constrains locators of removed objects and of copies only"
            % got["note:attached-child-locator-in-foreign-grid"]
        )
    nra = sum(v for k, v in got.items() if k.startswith("raised-applied:"))
    if nra:
        ctx.notes.append("%d edits raised after the structural edit had been applied completely (%s): tree checked as usual, not a violation of the statement" % (nra, ", ".join(sorted(k.split(":", 1)[1] for k in got if k.startswith("raised-applied:")))))
    explore.finish(
        ctx,
        total,
        extra={
            "closure_by_shape": closure_by_shape,
            "wall_s_by_shape": t_by_shape,
            "first_pass_blocked_by_violation": blocked,
            "bounds": {"tier": ctx.tier, "depths": BOUNDS[ctx.tier], "closure_depth_limit": CLOSURE_DEPTH, "closure_state_cap": CLOSURE_CAP[ctx.tier], "pool_cap": POOL_CAP},
            "queries_per_state": "every labelled container x (children, iter, getitem, deep, generation 1-4, deep+generation refusal, includeMaterials x2, %d flag specs x exact x {getComponents, iterComponents, getChildrenWithFlags}, getChildrenOfType per type, 3 predicates x {direct, deep, generation 2}, in for every node, index) + ancestors for every node" % len(SPECS),
        },
    )
    ctx.assumptions += [
        "bounded: operation histories up to the depth given per shape in coverage.bounds; 'closure_by_shape' says for which shapes no new canonical state appeared (exhaustive for that shape and alphabet)",
        "alphabet: add/insert(0|end)/remove(first|last)/removeAll/setChildren(reversed|minus first)/sort on the active containers of each shape, Assembly.reestablishBlockOrder, Block.replaceBlockWithBlock, Core.removeAssembly, Core.add(a, free cell), SpentFuelPool.add; misuse with a documented refusal: add/insert of a present child, remove of a non-child, Assembly.add of a non-block, Core.add to an occupied cell",
        "precondition: add/insert are only offered parentless objects (never attached or previously removed); adding an object that still has a different live parent is outside the alphabet (API contract 'remove, then add')",
        "shapes (c),(d): component-level edits only in one block/assembly; at most %d parentless objects of a kind are offered to add/insert; generic Composite.remove/insert/setChildren are not applied to Core (its location tables are C14's subject)" % POOL_CAP,
        "blueprints (input description) are parsed once per worker for shapes (b),(c); objects are constructed afresh for every execution; cached vs uncached builds audited equal",
        "flag filters are checked against a set-of-names reference for %d representative specs; type names and 3 predicates are representatives" % len(SPECS),
        "sort(): the reference order is Python's sorted() with the objects' own '<'; a comparison that raises is a legitimate refusal that may leave siblings permuted (list.sort semantics)",
    ]
