"""C07 - grid indices, ring/position, labels and coordinates are consistent bijections.

Bounded-exhaustive enumeration: every cell within N rings of every grid configuration of a
finite family (both hex orientations x pitches x offsets; Cartesian with/without centre offset;
axial and theta-R-Z bounds grids; nestings up to three deep), each checked against closed-form
oracles written here independently of armi (hex distance, affine centres, ring sizes).

A *case* is one grid configuration (pure JSON); ``evaluate(case)`` enumerates all its cells.
"""
import itertools
import math

from mcverif import core

PROPERTY = "C07"
LEVEL = "exploration"
MOD = "mcverif.checks.c07"
TOL = 1e-9  # coordinates are a handful of multiply-adds of O(100) numbers


def _close(a, b, tol=TOL):
    return all(abs(float(x) - float(y)) <= tol * (1.0 + abs(float(y))) for x, y in zip(a, b)) and len(a) == len(b)


def hexdist(i, j):
    return max(abs(i), abs(j), abs(i + j))


def hex_cells(n):
    return [(i, j) for i in range(-n + 1, n) for j in range(-n + 1, n) if hexdist(i, j) <= n - 1]


def hex_unit(pitch, cornersUp):
    """Independent statement of the hex lattice vectors: u_i, u_j (x,y)."""
    if cornersUp:
        # flats-up lattice rotated by +30 degrees
        return (pitch / 2.0, pitch * math.sqrt(3) / 2.0), (-pitch / 2.0, pitch * math.sqrt(3) / 2.0)
    return (pitch * math.sqrt(3) / 2.0, pitch / 2.0), (0.0, pitch)


# ---------------------------------------------------------------------------------------------


def cases(ctx):
    n = 8 if ctx.quick else 20
    out = []
    pitches = [1.0, 16.75, 0.123]
    if ctx.seed:
        pitches = [1.0, 16.75 + (ctx.seed % 7) * 0.37, 0.123 * (1 + (ctx.seed % 5))]
    for cu in (False, True):
        for p in pitches:
            for off in (None, [0.3, -0.2, 5.0]):
                for sym in ("full", "third periodic"):
                    out.append({"kind": "hex", "cornersUp": cu, "pitch": p, "offset": off, "rings": n, "symmetry": sym})
    out.append({"kind": "hexcount", "nmax": 1 + 3 * (n + 2) * (n + 1)})
    for isOffset in (False, True):
        for wh in ([1.0, 1.0], [1.26, 2.5]):
            for sym in ("full", "quarter reflective", "quarter periodic"):
                out.append({"kind": "cart", "w": wh[0], "h": wh[1], "isOffset": isOffset, "rings": n, "symmetry": sym})
    for b in ([0.0, 1.0], [0.0, 10.0, 25.0, 25.5], [-3.0, 0.0, 2.0, 7.0, 7.125], [0.0, 1.0, 2.0, 3.0, 4.0, 5.0]):
        out.append({"kind": "axial", "bounds": b})
        out.append({"kind": "axial", "bounds": b, "offset": [1.5, -2.0, 3.25]})
    for th, r, z in (
        ([0.0, math.pi / 2, math.pi, 1.5 * math.pi, 2 * math.pi], [0.0, 1.0, 3.0], [0.0, 5.0, 7.5]),
        ([0.0, 2 * math.pi], [0.0, 2.0, 2.5, 8.0], [0.0, 1.0]),
        ([0.0, 1.0, 2.0], [1.0, 2.0], [-1.0, 0.0, 10.0]),
    ):
        out.append({"kind": "thetarz", "theta": th, "r": r, "z": z})
        out.append({"kind": "nestrz", "theta": th, "r": r, "z": z})
        # bounds-defined grids carry an offset too (native coordinates: theta, r, z)
        out.append({"kind": "thetarz", "theta": th, "r": r, "z": z, "offset": [0.0, 0.0, 5.0]})
        out.append({"kind": "thetarz", "theta": th, "r": r, "z": z, "offset": [0.125, 0.5, -2.0]})
    for outer in ("hex", "hexcu", "cart", "cartoff"):
        for inner in (None, "hex", "hexcu", "cart"):
            out.append({"kind": "nest", "outer": outer, "inner": inner, "rings": 3 if ctx.quick else 4})
            # boundary counts: one and two axial cells (a single-block assembly has a one-cell axial grid)
            out.append({"kind": "nest", "outer": outer, "inner": inner, "rings": 3, "nz": 1})
            out.append({"kind": "nest", "outer": outer, "inner": inner, "rings": 2, "nz": 2})
    for gk in ("hex", "hexcu", "cart", "cartoff"):
        out.append({"kind": "gridhist", "grid": gk, "len": 4 if ctx.quick else 5})
    for outer in ("cart", "hex", "hexcu"):
        out.append({"kind": "nest3d", "outer": outer, "dz": 4.0, "nk": 3, "rings": 3 if ctx.quick else 5})
    return out


def evaluate(case):
    return _EVAL[case["kind"]](case)[0]


def _evaluate_counted(case):
    vs, n, nt = _EVAL[case["kind"]](case)
    return vs[:20], n, nt


# ---------------------------------------------------------------------------------------------


def _mk_hex(case):
    from armi.reactor import grids

    g = grids.HexGrid.fromPitch(case["pitch"], numRings=case["rings"], cornersUp=case["cornersUp"], symmetry=case["symmetry"])
    if case["offset"]:
        import numpy as np

        g.offset = np.array(case["offset"])
    return g


def _eval_hex(case):
    from armi.reactor import grids

    vs = []
    g = _mk_hex(case)
    p, cu, n = case["pitch"], case["cornersUp"], case["rings"]
    off = case["offset"] or [0.0, 0.0, 0.0]
    ui, uj = hex_unit(p, cu)
    nev = 0

    def bad(key, msg, **kw):
        c = dict(case)
        c.update(kw)
        vs.append(core.viol("c07/" + key, msg, c))

    if bool(g.cornersUp) != cu:
        bad("hex-cornersUp", "cornersUp reads %s" % g.cornersUp)
    if abs(g.pitch - p) > TOL * p:
        bad("hex-pitch", "pitch reads %r, built with %r" % (g.pitch, p))
    seen_rp = {}
    per_ring = {}
    g2 = type(g)(*g.reduce())
    g3 = _mk_hex(case)
    newp = p * 1.75
    g3.changePitch(newp)
    ui3, uj3 = hex_unit(newp, cu)
    for i, j in hex_cells(n):
        nev += 1
        ring, pos = g.getRingPos((i, j, 0))
        d = hexdist(i, j)
        if ring != d + 1:
            bad("hex-ring-distance", "cell (%d,%d): ring %s != hex distance+1 = %d" % (i, j, ring, d + 1), cell=[i, j])
        if (ring, pos) in seen_rp:
            bad("hex-ringpos-injective", "cells %s and %s share (ring,pos)=%s" % (seen_rp[(ring, pos)], (i, j), (ring, pos)), cell=[i, j])
        seen_rp[(ring, pos)] = (i, j)
        per_ring.setdefault(ring, set()).add(pos)
        try:
            back = tuple(g.getIndicesFromRingAndPos(ring, pos))
        except Exception as e:
            back = repr(e)
        if back != (i, j):
            bad("hex-ringpos-inverse", "cell (%d,%d) -> (ring,pos)=(%s,%s) -> %s" % (i, j, ring, pos, back), cell=[i, j])
        if grids.HexGrid.indicesToRingPos(i, j) != (ring, pos):
            bad("hex-ringpos-static", "indicesToRingPos differs from getRingPos at (%d,%d)" % (i, j), cell=[i, j])
        # locator, label
        loc = g[i, j, 0]
        if (loc.i, loc.j, loc.k) != (i, j, 0) or loc.grid is not g or g[i, j, 0] is not loc:
            bad("hex-locator", "grid[%d,%d,0] gives %r" % (i, j, loc), cell=[i, j])
        loc2 = g.getLocatorFromRingAndPos(ring, pos)
        if loc2 is not loc:
            bad("hex-locator-ringpos", "getLocatorFromRingAndPos(%s,%s) is not grid[%d,%d,0]" % (ring, pos, i, j), cell=[i, j])
        if tuple(loc.getRingPos()) != (ring, pos):
            bad("hex-locator-ringpos", "locator.getRingPos() differs at (%d,%d)" % (i, j), cell=[i, j])
        lab = g.getLabel((i, j, 0))
        lr = grids.locatorLabelToIndices(lab)
        if tuple(lr) != (ring, pos, 0):
            bad("hex-label", "label %r of (%d,%d) parses to %s, expected ring/pos/k %s" % (lab, i, j, lr, (ring, pos, 0)), cell=[i, j])
        lab2 = g.getLabel((i, j))
        if tuple(grids.locatorLabelToIndices(lab2)) != (ring, pos, None):
            bad("hex-label", "2-index label %r of (%d,%d) parses wrongly" % (lab2, i, j), cell=[i, j])
        # coordinates
        want = (i * ui[0] + j * uj[0] + off[0], i * ui[1] + j * uj[1] + off[1], off[2])
        got = g.getCoordinates((i, j, 0))
        if not _close(got, want):
            bad("hex-centre", "cell (%d,%d): centre %s, affine map gives %s" % (i, j, list(got), want), cell=[i, j])
        if not _close(loc.getGlobalCoordinates(), want) or not _close(loc.getLocalCoordinates(), want):
            bad("hex-centre-locator", "locator coordinates differ from grid coordinates at (%d,%d)" % (i, j), cell=[i, j])
        # base/top: midpoints towards (i-1,j-1) and (i+1,j+1) along the lattice diagonal
        wb = ((i - 0.5) * ui[0] + (j - 0.5) * uj[0] + off[0], (i - 0.5) * ui[1] + (j - 0.5) * uj[1] + off[1], off[2])
        wt = ((i + 0.5) * ui[0] + (j + 0.5) * uj[0] + off[0], (i + 0.5) * ui[1] + (j + 0.5) * uj[1] + off[1], off[2])
        if not _close(g.getCellBase((i, j, 0)), wb) or not _close(g.getCellTop((i, j, 0)), wt):
            bad("hex-base-top", "cell (%d,%d): base/top %s %s expected %s %s" % (i, j, list(g.getCellBase((i, j, 0))), list(g.getCellTop((i, j, 0))), wb, wt), cell=[i, j])
        # neighbours: one pitch away, counter-clockwise, 60 degrees apart
        nb = g.getNeighboringCellIndices(i, j, 0)
        if len(nb) != 6 or len(set(map(tuple, nb))) != 6:
            bad("hex-neighbours", "cell (%d,%d): %d neighbours / duplicates" % (i, j, len(nb)), cell=[i, j])
        else:
            angs = []
            for q in nb:
                c = g.getCoordinates(q)
                dx, dy = c[0] - got[0], c[1] - got[1]
                if abs(math.hypot(dx, dy) - p) > 1e-9 * p or q[2] != 0:
                    bad("hex-neighbour-distance", "cell (%d,%d): neighbour %s at distance %r, pitch %r" % (i, j, q, math.hypot(dx, dy), p), cell=[i, j])
                angs.append(math.degrees(math.atan2(dy, dx)) % 360.0)
            first = 60.0 if cu else 30.0
            for k, a in enumerate(angs):
                w = (first + 60.0 * k) % 360.0
                if min(abs(a - w), 360 - abs(a - w)) > 1e-6:
                    bad("hex-neighbour-order", "cell (%d,%d): neighbour %d at %.6f deg, expected %.1f (counter-clockwise)" % (i, j, k, a, w), cell=[i, j])
                    break
        # rebuilt grid
        if not _close(g2.getCoordinates((i, j, 0)), got, 0.0) or not _close(g2.getCellBase((i, j, 0)), g.getCellBase((i, j, 0)), 0.0):
            bad("hex-reduce", "grid rebuilt from reduce() differs at (%d,%d): %s vs %s" % (i, j, list(g2.getCoordinates((i, j, 0))), list(got)), cell=[i, j])
        # changed pitch: indices/labels/ring unchanged, coordinates rescaled (offset untouched)
        w3 = (i * ui3[0] + j * uj3[0] + off[0], i * ui3[1] + j * uj3[1] + off[1], off[2])
        if not _close(g3.getCoordinates((i, j, 0)), w3):
            bad("hex-changePitch-coords", "after changePitch(%r) cell (%d,%d) at %s expected %s" % (newp, i, j, list(g3.getCoordinates((i, j, 0))), w3), cell=[i, j])
        if tuple(g3.getRingPos((i, j, 0))) != (ring, pos) or g3.getLabel((i, j, 0)) != lab:
            bad("hex-changePitch-indices", "changePitch altered ring/pos or label at (%d,%d)" % (i, j), cell=[i, j])
    if bool(g3.cornersUp) != cu or abs(g3.pitch - newp) > TOL * newp or g3._symmetry != g._symmetry or g3._geomType != g._geomType:
        bad("hex-changePitch-meta", "changePitch altered orientation/symmetry or pitch reads %r" % g3.pitch)
    if g2._symmetry != g._symmetry or g2._geomType != g._geomType or bool(g2.cornersUp) != cu or abs(g2.pitch - g.pitch) > 0:
        bad("hex-reduce-meta", "rebuilt grid metadata differ: %s/%s/%s" % (g2.symmetry, g2.geomType, g2.cornersUp))
    if g2.getIndexBounds() != g.getIndexBounds() or len(g2) != len(g):
        bad("hex-reduce-meta", "rebuilt grid index bounds differ")
    for r in range(1, n + 1):
        wantpos = set(range(1, 6 * (r - 1) + 1)) if r > 1 else {1}
        if per_ring.get(r) != wantpos:
            bad("hex-ring-contiguous", "ring %d holds positions %s" % (r, sorted(per_ring.get(r, ()))[:8]), ring=r)
        if g.getPositionsInRing(r) != len(wantpos):
            bad("hex-ring-size", "getPositionsInRing(%d)=%s" % (r, g.getPositionsInRing(r)), ring=r)
    # invalid ring/pos are refused
    for r in range(1, min(n, 6) + 1):
        for posbad in (0, (6 * (r - 1) if r > 1 else 1) + 1):
            try:
                ij = g.getIndicesFromRingAndPos(r, posbad)
                # an out-of-range position must not alias a valid cell of this ring silently
                if posbad >= 1 and hexdist(*ij) + 1 == r:
                    bad("hex-ringpos-range", "ring %d position %d (out of range) silently maps to %s" % (r, posbad, ij), ring=r)
            except (ValueError, IndexError):
                pass
    return vs, nev, nev


def _eval_hexcount(case):
    from armi.reactor import grids
    from armi.utils import hexagon

    vs = []
    g = grids.HexGrid.fromPitch(1.0, numRings=1)
    nev = 0
    for n in range(1, case["nmax"] + 1):
        nev += 1
        r = 1
        while 1 + 3 * r * (r - 1) < n:
            r += 1
        for name, got in (("HexGrid.getMinimumRings", g.getMinimumRings(n)), ("hexagon.numRingsToHoldNumCells", hexagon.numRingsToHoldNumCells(n))):
            if got != r:
                vs.append(core.viol("c07/hex-minimum-rings", "%s(%d)=%s, least r with 1+3r(r-1)>=n is %d" % (name, n, got, r), {"kind": "hexcount", "nmax": n}))
    for r in range(1, 40):
        if hexagon.totalPositionsUpToRing(r) != 1 + 3 * r * (r - 1) or hexagon.numPositionsInRing(r) != (6 * (r - 1) if r > 1 else 1):
            vs.append(core.viol("c07/hex-ring-size", "ring-size functions wrong at ring %d" % r, {"kind": "hexcount", "nmax": 1}))
    return vs, nev, nev


def _eval_cart(case):
    import numpy as np

    from armi.reactor import grids

    vs = []
    w, h, isOff, n = case["w"], case["h"], case["isOffset"], case["rings"]
    g = grids.CartesianGrid.fromRectangle(w, h, numRings=n, symmetry=case["symmetry"], isOffset=isOff)
    off = (w / 2.0, h / 2.0, 0.0) if isOff else (0.0, 0.0, 0.0)
    nev = 0

    def bad(key, msg, **kw):
        c = dict(case)
        c.update(kw)
        vs.append(core.viol("c07/" + key, msg, c))

    g2 = type(g)(*g.reduce())
    g3 = grids.CartesianGrid.fromRectangle(w, h, numRings=n, symmetry=case["symmetry"], isOffset=isOff)
    g3.changePitch(2 * w, 3 * h)
    off3 = (w, 1.5 * h, 0.0) if isOff else (0.0, 0.0, 0.0)
    if not _close(g.pitch, (w, h)):
        bad("cart-pitch", "pitch reads %s" % (g.pitch,))
    seen = {}
    perring = {}
    rng = range(-n + 1, n) if not isOff else range(-n, n)
    for i, j in itertools.product(rng, rng):
        nev += 1
        want = (i * w + off[0], j * h + off[1], 0.0)
        got = g.getCoordinates((i, j, 0))
        if not _close(got, want):
            bad("cart-centre", "cell (%d,%d) centre %s expected %s" % (i, j, list(got), want), cell=[i, j])
        wb = (want[0] - w / 2, want[1] - h / 2, 0.0)
        wt = (want[0] + w / 2, want[1] + h / 2, 0.0)
        if not _close(g.getCellBase((i, j, 0)), wb) or not _close(g.getCellTop((i, j, 0)), wt):
            bad("cart-base-top", "cell (%d,%d) base/top wrong" % (i, j), cell=[i, j])
        loc = g[i, j, 0]
        if (loc.i, loc.j, loc.k) != (i, j, 0) or loc.grid is not g or g[i, j, 0] is not loc:
            bad("cart-locator", "grid[%d,%d,0] gives %r" % (i, j, loc), cell=[i, j])
        if not _close(loc.getGlobalCoordinates(), want):
            bad("cart-centre-locator", "locator coords differ at (%d,%d)" % (i, j), cell=[i, j])
        nb = g.getNeighboringCellIndices(i, j, 0)
        if sorted(map(tuple, nb)) != sorted([(i + 1, j, 0), (i - 1, j, 0), (i, j + 1, 0), (i, j - 1, 0)]):
            bad("cart-neighbours", "cell (%d,%d) neighbours %s" % (i, j, nb), cell=[i, j])
        rp = tuple(g.getRingPos((i, j, 0)))
        if rp in seen:
            bad("cart-ringpos-injective", "cells %s and %s share ring/pos %s" % (seen[rp], (i, j), rp), cell=[i, j])
        seen[rp] = (i, j)
        # ring = Chebyshev ring of the cell around the grid centre
        if isOff:
            wr = int(max(abs(i + 0.5), abs(j + 0.5)) + 0.5)
        else:
            wr = max(abs(i), abs(j)) + 1
        if rp[0] != wr:
            bad("cart-ring", "cell (%d,%d) ring %s expected %d" % (i, j, rp[0], wr), cell=[i, j])
        perring.setdefault(rp[0], set()).add(rp[1])
        lab = g.getLabel((i, j, 0))
        try:
            back = tuple(grids.locatorLabelToIndices(lab))
        except Exception as e:
            back = repr(e)
        if back != (i, j, 0):
            bad("cart-label-negative" if (i < 0 or j < 0) else "cart-label", "label %r of (%d,%d,0) parses to %s" % (lab, i, j, back), cell=[i, j])
        if not _close(g2.getCoordinates((i, j, 0)), got, 0.0):
            bad("cart-reduce", "rebuilt grid differs at (%d,%d)" % (i, j), cell=[i, j])
        w3 = (i * 2 * w + off3[0], j * 3 * h + off3[1], 0.0)
        if not _close(g3.getCoordinates((i, j, 0)), w3):
            bad("cart-changePitch", "after changePitch cell (%d,%d) at %s expected %s" % (i, j, list(g3.getCoordinates((i, j, 0))), w3), cell=[i, j])
        if tuple(g3.getRingPos((i, j, 0))) != rp:
            bad("cart-changePitch-indices", "changePitch altered ring/pos at (%d,%d)" % (i, j), cell=[i, j])
    for r, poss in perring.items():
        np_ = g.getPositionsInRing(r)
        wantn = (1 if r == 1 else 8 * (r - 1)) if not isOff else (4 if r == 1 else 8 * (r - 1) + 4)
        complete = (r <= n - 1) if not isOff else (r <= n)
        if np_ != wantn:
            bad("cart-ring-size", "getPositionsInRing(%d)=%s expected %d" % (r, np_, wantn), ring=r)
        if complete and poss != set(range(1, wantn + 1)):
            bad("cart-ring-contiguous", "ring %d positions %s..., expected 1..%d" % (r, sorted(poss)[:6], wantn), ring=r)
    tot = 0
    r = 0
    for nn in range(1, 200):
        while tot < nn:
            r += 1
            tot += (1 if r == 1 else 8 * (r - 1)) if not isOff else (4 if r == 1 else 8 * (r - 1) + 4)
        if g.getMinimumRings(nn) != r:
            bad("cart-minimum-rings", "getMinimumRings(%d)=%s expected %d" % (nn, g.getMinimumRings(nn), r), n=nn)
            break
    if g2._symmetry != g._symmetry or g2._geomType != g._geomType or not _close(g2.pitch, g.pitch, 0.0):
        bad("cart-reduce-meta", "rebuilt grid metadata differ")
    if g3._symmetry != g._symmetry:
        bad("cart-changePitch-meta", "changePitch altered the symmetry")
    return vs, nev, nev


def _eval_axial(case):
    import numpy as np

    from armi.reactor import grids

    vs = []
    b = case["bounds"]
    o = case.get("offset") or [0.0, 0.0, 0.0]
    g = grids.AxialGrid(bounds=(None, None, np.array(b, dtype=float)), offset=case.get("offset"))
    g2 = type(g)(*g.reduce())
    nev = 0

    def bad(key, msg, **kw):
        c = dict(case)
        c.update(kw)
        vs.append(core.viol("c07/" + key, msg, c))

    if not g.isAxialOnly and len(b) > 2:
        bad("axial-isAxialOnly", "axial grid with %d cells does not report isAxialOnly" % (len(b) - 1))
    for k in range(len(b) - 1):
        nev += 1
        c, lo, hi = g.getCoordinates((0, 0, k)), g.getCellBase((0, 0, k)), g.getCellTop((0, 0, k))
        if not _close(c, (o[0], o[1], (b[k] + b[k + 1]) / 2 + o[2])) or not _close(lo, (o[0], o[1], b[k] + o[2])) or not _close(hi, (o[0], o[1], b[k + 1] + o[2])):
            bad("axial-coords", "cell %d: centre/base/top %s %s %s, bounds %s" % (k, list(c), list(lo), list(hi), b), cell=k)
        loc = g[0, 0, k]
        if (loc.i, loc.j, loc.k) != (0, 0, k) or loc.grid is not g:
            bad("axial-locator", "grid[0,0,%d] gives %r" % (k, loc), cell=k)
        if not _close(g2.getCoordinates((0, 0, k)), c, 0.0):
            bad("axial-reduce", "rebuilt axial grid differs at %d" % k, cell=k)
        lab = g.getLabel((0, 0, k))
        if tuple(grids.locatorLabelToIndices(lab)) != (0, 0, k):
            bad("axial-label", "label %r of (0,0,%d) does not parse back" % (lab, k), cell=k)
    try:
        g.getCoordinates((0, 0, -1))
        bad("axial-negative-index", "negative bounds index not refused")
    except IndexError:
        pass
    gn = grids.AxialGrid.fromNCells(len(b) - 1)
    for k in range(len(b) - 1):
        if not _close(gn.getCoordinates((0, 0, k)), (0, 0, k + 0.5)):
            bad("axial-fromNCells", "fromNCells cell %d centre %s" % (k, list(gn.getCoordinates((0, 0, k)))), cell=k)
    return vs, nev, nev


def _eval_thetarz(case):
    import numpy as np

    from armi.reactor import grids

    vs = []
    th, r, z = case["theta"], case["r"], case["z"]
    off = case.get("offset") or [0.0, 0.0, 0.0]
    g = grids.ThetaRZGrid(bounds=(np.array(th), np.array(r), np.array(z)), offset=case.get("offset"))
    g2 = type(g)(*g.reduce())
    nev = 0

    def bad(key, msg, **kw):
        c = dict(case)
        c.update(kw)
        vs.append(core.viol("c07/" + key, msg, c))

    for i in range(len(th) - 1):
        for j in range(len(r) - 1):
            for k in range(len(z) - 1):
                nev += 1
                t0, r0, z0 = (th[i] + th[i + 1]) / 2 + off[0], (r[j] + r[j + 1]) / 2 + off[1], (z[k] + z[k + 1]) / 2 + off[2]
                nat = g.getCoordinates((i, j, k), nativeCoords=True)
                xyz = g.getCoordinates((i, j, k))
                if not _close(nat, (t0, r0, z0)) or not _close(xyz, (r0 * math.cos(t0), r0 * math.sin(t0), z0)):
                    bad("thetarz-coords", "cell %s native %s xyz %s" % ((i, j, k), list(nat), list(xyz)), cell=[i, j, k])
                if not _close(g.getCellBase((i, j, k)), (th[i] + off[0], r[j] + off[1], z[k] + off[2])) or not _close(g.getCellTop((i, j, k)), (th[i + 1] + off[0], r[j + 1] + off[1], z[k + 1] + off[2])):
                    bad("thetarz-base-top", "cell %s base/top wrong" % ((i, j, k),), cell=[i, j, k])
                rp = g.getRingPos((i, j, k))
                if tuple(g.getIndicesFromRingAndPos(*rp)) != (i, j):
                    bad("thetarz-ringpos", "ring/pos %s of %s does not invert" % (rp, (i, j)), cell=[i, j, k])
                if tuple(g.indicesOfBounds(r[j], r[j + 1], th[i], th[i + 1])) != (i, j, 0):
                    bad("thetarz-indicesOfBounds", "indicesOfBounds of cell %s gives %s" % ((i, j), g.indicesOfBounds(r[j], r[j + 1], th[i], th[i + 1])), cell=[i, j, k])
                if not _close(g2.getCoordinates((i, j, k)), xyz, 0.0):
                    bad("thetarz-reduce", "rebuilt grid differs at %s" % ((i, j, k),), cell=[i, j, k])
                loc = g[i, j, k]
                if (loc.i, loc.j, loc.k) != (i, j, k) or loc.grid is not g:
                    bad("thetarz-locator", "grid[%s] gives %r" % ((i, j, k), loc), cell=[i, j, k])
    return vs, nev, nev


def _eval_nest(case):
    """outer 2-D grid > axial grid (> inner pin grid) anchored to real composites."""
    import numpy as np

    from armi.reactor import composites, grids

    vs = []
    n = case["rings"]

    def mk(kind, owner, rings):
        if kind == "hex":
            return grids.HexGrid.fromPitch(10.0, numRings=rings, armiObject=owner)
        if kind == "hexcu":
            return grids.HexGrid.fromPitch(10.0, numRings=rings, armiObject=owner, cornersUp=True)
        if kind == "cart":
            return grids.CartesianGrid.fromRectangle(9.0, 7.0, numRings=rings, armiObject=owner)
        if kind == "cartoff":
            return grids.CartesianGrid.fromRectangle(9.0, 7.0, numRings=rings, armiObject=owner, isOffset=True)
        raise ValueError(kind)

    def mkpin(kind, owner):
        if kind == "hex":
            return grids.HexGrid.fromPitch(1.0, numRings=2, armiObject=owner)
        if kind == "hexcu":
            return grids.HexGrid.fromPitch(1.0, numRings=2, armiObject=owner, cornersUp=True)
        return grids.CartesianGrid.fromRectangle(0.7, 0.9, numRings=2, armiObject=owner)

    def bad(key, msg, **kw):
        c = dict(case)
        c.update(kw)
        vs.append(core.viol("c07/" + key, msg, c))

    root = composites.Composite("root")
    top = composites.Composite("core")
    root.add(top)
    top.spatialGrid = mk(case["outer"], top, n)
    zb = [0.0, 10.0, 25.0, 26.0][: case.get("nz", 3) + 1]  # nz = 1: a one-cell axial grid (single-block assembly)
    nev = 0
    cells = hex_cells(n) if case["outer"].startswith("hex") else list(itertools.product(range(-n + 1, n), repeat=2))
    ref = mk(case["outer"], None, n)
    for i, j in cells:
        a = composites.Composite("a")
        top.add(a)
        a.spatialLocator = top.spatialGrid[i, j, 0]
        a.spatialGrid = grids.AxialGrid(bounds=(None, None, np.array(zb)), armiObject=a)
        oxy = ref.getCoordinates((i, j, 0))
        for k in range(len(zb) - 1):
            nev += 1
            b = composites.Composite("b")
            a.add(b)
            b.spatialLocator = a.spatialGrid[0, 0, k]
            loc = b.spatialLocator
            want = (oxy[0], oxy[1], (zb[k] + zb[k + 1]) / 2)
            if not _close(loc.getGlobalCoordinates(), want):
                bad("nest-coords", "axial cell %d in radial cell (%d,%d): global %s expected %s" % (k, i, j, list(loc.getGlobalCoordinates()), want), cell=[i, j, k])
            if tuple(int(x) for x in loc.getCompleteIndices()) != (i, j, k):
                bad("nest-complete-indices", "axial-in-radial complete indices %s expected %s" % (loc.getCompleteIndices(), (i, j, k)), cell=[i, j, k])
            if tuple(int(x) for x in loc.indices) != (0, 0, k):
                bad("nest-indices-mutated", "getCompleteIndices changed the local indices", cell=[i, j, k])
            base, topc = loc.getGlobalCellBase(), loc.getGlobalCellTop()
            ob, ot = ref.getCellBase((i, j, 0)), ref.getCellTop((i, j, 0))
            if not _close(base, (ob[0], ob[1], zb[k])) or not _close(topc, (ot[0], ot[1], zb[k + 1])):
                bad("nest-base-top", "global base/top of axial cell %d in (%d,%d) wrong" % (k, i, j), cell=[i, j, k])
            if case["inner"] and k == min(1, len(zb) - 2) and hexdist(i, j) <= 1:
                b.spatialGrid = mkpin(case["inner"], b)
                pref = mkpin(case["inner"], None)
                for pi, pj in ((0, 0), (1, 0), (0, 1), (-1, 1), (1, -1), (-1, 0), (0, -1)):
                    nev += 1
                    c = composites.Composite("c")
                    b.add(c)
                    c.spatialLocator = b.spatialGrid[pi, pj, 0]
                    pxy = pref.getCoordinates((pi, pj, 0))
                    w3 = (want[0] + pxy[0], want[1] + pxy[1], want[2])
                    if not _close(c.spatialLocator.getGlobalCoordinates(), w3):
                        bad("nest-coords-3deep", "pin (%d,%d) in block %d of (%d,%d): %s expected %s" % (pi, pj, k, i, j, list(c.spatialLocator.getGlobalCoordinates()), w3), cell=[i, j, k, pi, pj])
                    if tuple(int(x) for x in c.spatialLocator.getCompleteIndices()) != (pi, pj, 0):
                        bad("nest-complete-indices-pin", "pin complete indices %s: 2-D-in-axial must not add" % (c.spatialLocator.getCompleteIndices(),), cell=[i, j, k, pi, pj])
                    if case["outer"].startswith("hex"):
                        # ring/pos of an axial locator is delegated to the radial grid
                        pass
            if case["outer"].startswith("hex"):
                if tuple(loc.getRingPos()) != tuple(ref.getRingPos((i, j, 0))):
                    bad("nest-ringpos", "block ring/pos %s differs from its assembly cell's %s" % (loc.getRingPos(), ref.getRingPos((i, j, 0))), cell=[i, j, k])
    return vs, nev, nev


def _eval_nest3d(case):
    """axial grid nested in a step-defined 3-D radial grid whose cells have k >= 0: complete indices
    add in all three axes (axial-in-radial), coordinates add."""
    import numpy as np

    from armi.reactor import composites, grids

    vs = []

    def bad(key, msg, **kw):
        c = dict(case)
        c.update(kw)
        vs.append(core.viol("c07/" + key, msg, c))

    dz = case["dz"]
    n = case["rings"]
    if case["outer"] == "cart":
        us = ((9.0, 0.0, 0.0), (0.0, 7.0, 0.0), (0.0, 0.0, dz))
        mk = lambda owner: grids.CartesianGrid(unitSteps=us, unitStepLimits=((-n, n), (-n, n), (0, case["nk"])), armiObject=owner)
        cells = list(itertools.product(range(-n + 1, n), repeat=2))
        xy = lambda i, j: (9.0 * i, 7.0 * j)
    else:
        cu = case["outer"] == "hexcu"
        raw = [list(r) for r in grids.HexGrid._getRawUnitSteps(10.0, cu)]
        raw[2] = [0.0, 0.0, dz]
        mk = lambda owner: grids.HexGrid(unitSteps=tuple(tuple(r) for r in raw), unitStepLimits=((-n, n), (-n, n), (0, case["nk"])), armiObject=owner)
        cells = hex_cells(n)
        ui, uj = hex_unit(10.0, cu)
        xy = lambda i, j: (i * ui[0] + j * uj[0], i * ui[1] + j * uj[1])
    root = composites.Composite("root")
    top = composites.Composite("core")
    root.add(top)
    top.spatialGrid = mk(top)
    zb = [0.0, 1.0, 2.5]
    nev = 0
    for i, j in cells:
        for k in range(case["nk"]):
            a = composites.Composite("a")
            top.add(a)
            a.spatialLocator = top.spatialGrid[i, j, k]
            x, y = xy(i, j)
            if not _close(a.spatialLocator.getGlobalCoordinates(), (x, y, k * dz)):
                bad("nest3d-outer-coords", "3-D cell (%d,%d,%d) at %s expected %s" % (i, j, k, list(a.spatialLocator.getGlobalCoordinates()), (x, y, k * dz)), cell=[i, j, k])
            a.spatialGrid = grids.AxialGrid(bounds=(None, None, np.array(zb)), armiObject=a)
            for kk in range(2):
                nev += 1
                b = composites.Composite("b")
                a.add(b)
                b.spatialLocator = a.spatialGrid[0, 0, kk]
                loc = b.spatialLocator
                ci = tuple(int(v) for v in loc.getCompleteIndices())
                if ci != (i, j, k + kk):
                    bad("nest-complete-indices", "axial cell %d in 3-D radial cell (%d,%d,%d): complete indices %s, expected %s" % (kk, i, j, k, ci, (i, j, k + kk)), cell=[i, j, k, kk])
                want = (x, y, k * dz + (zb[kk] + zb[kk + 1]) / 2)
                if not _close(loc.getGlobalCoordinates(), want):
                    bad("nest-coords", "axial cell %d in 3-D radial cell (%d,%d,%d): global %s expected %s" % (kk, i, j, k, list(loc.getGlobalCoordinates()), want), cell=[i, j, k, kk])
                if tuple(int(v) for v in loc.indices) != (0, 0, kk):
                    bad("nest-indices-mutated", "getCompleteIndices changed the local indices", cell=[i, j, k, kk])
    return vs, nev, nev


def _eval_nestrz(case):
    """axial grid nested in a theta-R-Z grid: coordinates add in Cartesian AND in native form."""
    import numpy as np

    from armi.reactor import composites, grids

    vs = []

    def bad(key, msg, **kw):
        c = dict(case)
        c.update(kw)
        vs.append(core.viol("c07/" + key, msg, c))

    th, r, z = case["theta"], case["r"], case["z"]
    root = composites.Composite("root")
    top = composites.Composite("core")
    root.add(top)
    top.spatialGrid = grids.ThetaRZGrid(bounds=(np.array(th), np.array(r), np.array(z)), armiObject=top)
    zb = [0.0, 1.0, 2.5]
    nev = 0
    for i in range(len(th) - 1):
        for j in range(len(r) - 1):
            for k in range(len(z) - 1):
                a = composites.Composite("a")
                top.add(a)
                a.spatialLocator = top.spatialGrid[i, j, k]
                t0, r0, z0 = (th[i] + th[i + 1]) / 2, (r[j] + r[j + 1]) / 2, (z[k] + z[k + 1]) / 2
                a.spatialGrid = grids.AxialGrid(bounds=(None, None, np.array(zb)), armiObject=a)
                for kk in range(2):
                    nev += 1
                    b = composites.Composite("b")
                    a.add(b)
                    b.spatialLocator = a.spatialGrid[0, 0, kk]
                    zm = (zb[kk] + zb[kk + 1]) / 2
                    want = (r0 * math.cos(t0), r0 * math.sin(t0), z0 + zm)
                    got = b.spatialLocator.getGlobalCoordinates()
                    if not _close(got, want):
                        bad("nest-coords-thetarz", "axial cell %d in theta-R-Z cell %s: global %s expected %s" % (kk, (i, j, k), list(got), want), cell=[i, j, k, kk])
                    wantn = (t0, r0, z0 + zm)
                    gotn = b.spatialLocator.getGlobalCoordinates(nativeCoords=True)
                    if not _close(gotn, wantn):
                        bad("nest-coords-thetarz-native", "axial cell %d in theta-R-Z cell %s: native global coordinates %s, parent native + local native = %s" % (kk, (i, j, k), list(gotn), wantn), cell=[i, j, k, kk])
                    if not _close(a.spatialLocator.getGlobalCoordinates(nativeCoords=True), (t0, r0, z0)):
                        bad("nest-coords-thetarz-native", "theta-R-Z cell %s: native global coordinates %s expected %s" % ((i, j, k), list(a.spatialLocator.getGlobalCoordinates(nativeCoords=True)), (t0, r0, z0)), cell=[i, j, k])
    return vs, nev, nev


def _eval_gridhist(case):
    """All sequences of <= L grid operations {changePitch(a), changePitch(b), read pitch, backUp,
    restoreBackup}; in every reached state the reported pitch, the coordinates and the neighbour
    distances must agree with each other and with a reference model of (pitch, backup stack)."""
    from armi.reactor import grids

    vs = []

    def bad(key, msg, **kw):
        c = dict(case)
        c.update(kw)
        vs.append(core.viol("c07/" + key, msg, c))

    kind, L = case["grid"], case["len"]
    p0 = 1.25
    alts = (2.5, 0.75)
    ops = ["cp0", "cp1", "read", "backup", "restore"]
    nev = 0
    cells = hex_cells(3) if kind.startswith("hex") else list(itertools.product(range(-2, 3), repeat=2))
    for n in range(1, L + 1):
        for seq in itertools.product(ops, repeat=n):
            # restore only when something is backed up (single slot or stack: both agree for depth 1;
            # nested backups are C16's subject) - keep at most one outstanding backup
            depth, ok = 0, True
            for o in seq:
                if o == "backup":
                    if depth:
                        ok = False
                        break
                    depth = 1
                elif o == "restore":
                    if not depth:
                        ok = False
                        break
                    depth = 0
            if not ok:
                continue
            nev += 1
            if kind == "hex":
                g = grids.HexGrid.fromPitch(p0, numRings=3)
            elif kind == "hexcu":
                g = grids.HexGrid.fromPitch(p0, numRings=3, cornersUp=True)
            else:
                g = grids.CartesianGrid.fromRectangle(p0, p0 * 2, numRings=3, isOffset=(kind == "cartoff"))
            model, saved = p0, None
            for o in seq:
                if o in ("cp0", "cp1"):
                    model = alts[int(o[2])]
                    if kind.startswith("hex"):
                        g.changePitch(model)
                    else:
                        g.changePitch(model, model * 2)
                elif o == "read":
                    g.pitch
                elif o == "backup":
                    g.backUp()
                    saved = model
                elif o == "restore":
                    g.restoreBackup()
                    model = saved
            rep = g.pitch if kind.startswith("hex") else g.pitch[0]
            if abs(rep - model) > TOL * model:
                bad("pitch-after-history", "%s grid after %s reports pitch %r, the operations leave %r" % (kind, list(seq), rep, model), seq=list(seq))
                continue
            for i, j in cells:
                c0 = g.getCoordinates((i, j, 0))
                if kind.startswith("hex"):
                    ui, uj = hex_unit(model, kind == "hexcu")
                    want = (i * ui[0] + j * uj[0], i * ui[1] + j * uj[1], 0.0)
                else:
                    off = (model / 2.0, model, 0.0) if kind == "cartoff" else (0.0, 0.0, 0.0)
                    want = (i * model + off[0], j * model * 2 + off[1], 0.0)
                if not _close(c0, want):
                    bad("coords-after-history", "%s grid after %s: cell (%d,%d) at %s, expected %s for pitch %r" % (kind, list(seq), i, j, list(c0), want, model), seq=list(seq))
                    break
    return vs, nev, nev


_EVAL = {"hex": _eval_hex, "hexcount": _eval_hexcount, "cart": _eval_cart, "axial": _eval_axial, "thetarz": _eval_thetarz, "nest": _eval_nest, "nest3d": _eval_nest3d, "nestrz": _eval_nestrz, "gridhist": _eval_gridhist}


def run(ctx):
    cs = ctx.order(cases(ctx))
    res = core.pmap(MOD, "_evaluate_counted", cs)
    ev = 0
    for c, (vs, n, nt) in zip(cs, res):
        ev += n
        ctx.count("cases_" + c["kind"])
        ctx.count("cells_" + c["kind"], n)
        ctx.add_violations(vs)
    ctx.samples = [cs[0], cs[len(cs) // 2], cs[-1]]
    ctx.coverage.update(
        evaluations=ev,
        distinct_nontrivial=ev - sum(1 for c in cs if c["kind"] in ("hex", "cart")),  # centre cells are the trivial ones
        rule="every cell (index tuple) of every grid configuration within the ring bound; a cell evaluation is distinct by (configuration, indices); the centre cell of each 2-D grid is counted trivial",
        exhaustive=True,
        grid_configurations=len(cs),
        ring_bound=cs[0].get("rings"),
    )
    ctx.assumptions += [
        "finite family of pitches/offsets/bounds (DESIGN 1.4); cells beyond the ring bound are not visited",
        "oracles are closed-form (hex distance, affine lattice vectors) written independently of armi",
    ]
